# C14 — concurrent requests are isolated and race-free
import json, random, re

FP = ["internal/closeonce:", "token/tokencache:Cache.GetKey", "server:Server.healthCheck", "signers:Signer.FlagsFromQuery", "signers:FlagValues.mergeSet",
      "internal/signinit:.Init", "server/daemon:"]

def run(ctx, replay=None):
    st = ctx.prepare(["C14_gen"], ["C14"], "C14.Run", drv_flags=["-race"])
    if not st["harness_ok"]:
        return ctx.finish("proof", ctx.proof_coverage([], FP), [])
    rounds = 2 if ctx.tier == "quick" else 6
    n_eval, races, results = 0, 0, []
    for r in range(rounds):
        seed = ctx.seed * 100 + r
        cmd = [ctx.drv_path(), "-seed", str(seed), "-tier", ctx.tier, "-scratch", ctx.scratch + "/drv%d" % r, "c14"]
        from vlib.common import run as sh, GOENV
        import os
        os.makedirs(ctx.scratch + "/drv%d" % r, exist_ok=True)
        rc, out, err, _ = sh(cmd, timeout=900, env=dict(GOENV, GORACE="halt_on_error=0"))
        nr = err.count("WARNING: DATA RACE")
        races += nr
        if nr:
            first = err[err.index("WARNING: DATA RACE"):][:2500]
            frames = re.findall(r"\n  ([\w./()*-]+)\(\)\n      (/repo/[^\s]+)", first)
            where = "; ".join("%s %s" % (f, l) for f, l in frames[:4])
            ctx.violation("C14:spec:data-race:" + (frames[0][1].split("/repo/")[-1].split(":")[0] if frames else "unknown"),
                          "race detector: %d report(s) under concurrent requests (seed %d): %s" % (nr, seed, where), {"seed": seed, "report": first})
        line = [l for l in out.splitlines() if l.startswith("{")]
        if rc not in (0, 66) or not line:
            ctx.violation("C14:driver-crash", "driver failed rc=%s: %s" % (rc, err[-500:]), {"stderr": err[-3000:], "seed": seed}, False)
            continue
        o = json.loads(line[0])
        results.append(o)
        n_eval += o["requests"]
        rp = {"seed": seed, "result": o}
        if o["wrong_sig"]:
            ctx.violation("C14:spec:mixed-up-response", "a returned signature does not verify over that request's body under that request's key: %s" % o["wrong_sig"][:3], rp)
        if o["cross_key"]:
            ctx.violation("C14:spec:wrong-key-used", "a signature verifies under the OTHER key: %s" % o["cross_key"][:3], rp)
        if o["bad_status"] or o["truncated"] or o["list_mismatch"]:
            ctx.violation("C14:spec:request-not-isolated", "unexpected status / truncated body / wrong listing under load: %s" % (o["bad_status"] or o["truncated"] or o["list_mismatch"])[:3], rp)
        if o["audit_bad"] or o["audit_missing"] or o["audit_lines"] < 1:
            ctx.violation("C14:spec:lost-audit-record", "audit file: %d bad lines, %d signatures without exactly one record" % (len(o["audit_bad"] or []), o["audit_missing"]), rp)
        if o["failed_in_flight"] or o["completed_after_close"] < min(o["in_flight_at_close"], 1):
            ctx.violation("C14:spec:shutdown-dropped-requests", "shutdown did not let in-flight requests finish: %s (in flight %d, completed %d)" %
                          (o["failed_in_flight"], o["in_flight_at_close"], o["completed_after_close"]), rp)
        if o["close_ms"] > 30000:
            ctx.violation("C14:spec:shutdown-hang", "daemon.Close took %d ms" % o["close_ms"], rp)
    # model correspondence: random schedules of the model vs the isolation oracle, and log length
    n_model = 0
    if st["model_ok"]:
        rnd = random.Random(ctx.seed)
        vals, exp = [], []
        for _ in range(200):
            n = rnd.randint(1, 6)
            rqs = [[rnd.randint(1, 3), rnd.randint(10, 99), rnd.randint(0, 9)] for _ in range(n)]
            sched = [rnd.randrange(n) for _ in range(rnd.randint(0, 6 * n))]
            vals.append([rqs, sched])
            cnt = [sched.count(i) for i in range(n)]
            exp.append([[1, r[0], r[1], r[2]] if cnt[i] >= 4 else [0] for i, r in enumerate(rqs)])
        for v, e, m in zip(vals, exp, ctx.run_model(vals)):
            n_model += 1
            if m[0] != e:
                ctx.violation("C14:correspondence-model", "interleaving model disagrees with the isolation oracle on %s" % v, {"case": v, "broken": "C14.Run"}, False)
                break
    ctx.proof_verdict()
    cov = ctx.proof_coverage(["srcgen: call tables of closeonce.Close, Cache.GetKey, healthCheck, signinit.Init, daemon.Close; per-request object construction in FlagsFromQuery",
                              "harness drv-c14 built with -race: the REAL daemon (TLS listener, http.Server, graceful Close) with real file tokens, 1 s key-cache expiry, token rate limit, health loop, audit file; 16x25 (quick) / 48x120 (thorough) mixed requests per round; each PGP signature verified over that request's body under that request's key and must fail under the other key; shutdown while requests are in flight",
                              "data races, the Go memory model, http.Server.Shutdown and scheduling live in the runtime: observed by the race detector and the harness, not modelled; the Coq model covers the interleaving of atomic steps only"], FP)
    cov.update({"evaluations": n_eval + n_model, "distinct_nontrivial": sum(o["ok_2xx"] for o in results),
                "rule": "rounds of concurrent mixed requests (sign pgp/ps with 3 key names incl. alias over 2 tokens, 3 digests, denied key, list, key info, health) against the real daemon under the race detector, shutdown at a seed-dependent moment; distinct = completed 2xx requests, each individually checked; plus 200 random schedules of the Coq model against the isolation oracle",
                "samples": [{k: o[k] for k in ("requests", "by_kind", "ok_2xx", "in_flight_at_close", "completed_after_close", "close_ms", "audit_lines")} for o in results[:2]],
                "race_reports": races, "model_schedules": n_model})
    return ctx.finish("proof", cov, ["race detector is dynamic: only races exercised by these runs are seen", "runtime (scheduler, memory model, net/http) not modelled"])
