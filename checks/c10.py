# C10 — only genuine, matching timestamps are attached and they govern validity time
import json, os
from vlib.common import Hex

# Finding keys are exact (entry point + input class); keys listed in known_findings.json are printed as KNOWN-FINDING by
# ctx.violation, everything else is a VIOLATION.
ERR_CODES = [("request nonce mismatch", 8), ("message imprint mismatch", 9), ("request denied", 5), ("trailing bytes", 4),
             ("unmarshalling response", 3), ("unpack TSTInfo", 7), (": HTTP ", 2), ("is empty", 10), ("illegal base64", 3),
             ("unsupported hash", 11), ("digest check failed", 9), ("does not match the enclosing signature", 9),
             ("content digest does not match", 9),
             ("verification error", 6), ("missing content", 6), ("would exceed context deadline", 16), ("Post \"", 1),
             ("context deadline", 1), ("Client.Timeout", 1), ("request canceled", 1), ("unexpected EOF", 1), ("asn1:", 3)]


def err_code(text):
    for pat, code in ERR_CODES:
        if pat in (text or ""):
            return code
    return -1


def genuine(a, style):
    """the property's acceptance conjunction, from the ground truth about what the authority sent"""
    delivered = a["transport"] and a["http"] == 200 and a["parses"] and a["rest"] == 0
    if style == "legacy":
        return bool(delivered and a["has_token"] and a["sig_ok"] and a["imprint"])
    return bool(delivered and a["status"] in (0, 1) and a["has_token"] and a["sig_ok"] and a["nonce"] == 1
                and a["imprint"] and a["alg_same"])


def only_defect(a, style, field, okval):
    """is `field` the only reason why the reply is not genuine?"""
    b = dict(a)
    b[field] = okval
    return (not genuine(a, style)) and genuine(b, style)


def expected(attrs, style):
    g = [i for i, a in enumerate(attrs) if genuine(a, style)]
    upto = g[0] + 1 if g else len(attrs)
    dead = [i for i, a in enumerate(attrs[:upto]) if a.get("ctx_dead")]
    if dead and (not g or dead[0] < g[0]):
        return "err", list(range(dead[0] + 1)), -1      # the caller gave up: signing fails, nobody else is asked
    return ("ok" if g else "err"), list(range(upto)), (g[0] if g else -1)


def rounds(hits, exp):
    """observed hits = the expected prefix, repeated k >= 1 times (appx asks for two timestamps)"""
    if not exp:
        return hits == []
    n = len(exp)
    return len(hits) >= n and len(hits) % n == 0 and all(hits[i:i + n] == exp for i in range(0, len(hits), n))


def reply_val(a):
    return [a["transport"], a["http"], a["parses"], a["rest"], a["status"], a["has_token"], a["sig_ok"], a["nonce"],
            a["imprint"], a["alg_same"], a.get("ctx_dead", False)]


# ---------------------------------------------------------------- verification histories (vseq): model-free oracle
# Written from the property text: "certificate chains are then judged at the attested time, so an expired signer certificate
# is accepted only with a valid timestamp from within its lifetime" — for EVERY verification of a process, whatever was
# verified before it.  Ground truth comes from the case description (validity windows, issuers, usages, attested times).
POOL_ROOTS = {"P1": ["root"], "P1b": ["root"], "PQ": ["rogue"]}
POOL_ID = {"P1": 1, "P1b": 2, "PQ": 3}
SEQ_ROOTS = {"root": {"name": "root", "nb": 1262304000, "na": 2366841600, "issuer": "root", "eku": [], "ca": True},
             "rogue": {"name": "rogue", "nb": 1262304000, "na": 2366841600, "issuer": "rogue", "eku": [], "ca": True}}


def seq_certs(case):
    d = dict(SEQ_ROOTS)
    for c in case["certs"]:
        d[c["name"]] = c
    return d


def seq_chain_ok(certs, name, t, usage, available, trusted, depth=0):
    """is there a path from certificate `name` to a trusted root, every certificate on it valid at t and allowing `usage`?"""
    c = certs[name]
    if not (c["nb"] <= t <= c["na"]):
        return False
    eku = c.get("eku") or []
    if usage != 0 and eku and usage not in eku and 0 not in eku:
        return False
    if c["issuer"] in trusted and c["issuer"] != name:
        return True
    if depth >= 3 or c["issuer"] == name:
        return False
    if c["issuer"] in available and certs[c["issuer"]].get("ca"):
        return seq_chain_ok(certs, c["issuer"], t, usage, available, trusted, depth + 1)
    return False


def seq_spec(case, st):
    certs = seq_certs(case)
    trusted = POOL_ROOTS[st["pool"]]
    avail = set((st.get("bundle") or []) + (st.get("extra") or []))
    if st["token"] == "none":
        return seq_chain_ok(certs, st["leaf"], case["now"], st["usage"], avail, trusted)
    t = st["t"]
    return seq_chain_ok(certs, st["tsa"], t, 8, avail, trusted) and seq_chain_ok(certs, st["leaf"], t, st["usage"], avail, trusted)


def seq_model_val(case):
    certs = seq_certs(case)
    ids = {"root": 1, "rogue": 2}
    for i, c in enumerate(case["certs"]):
        ids[c["name"]] = 100 + i

    def cv(n):
        c = certs[n]
        return [ids[n], c["nb"], c["na"], ids[c["issuer"]], list(c.get("eku") or [])]
    steps = []
    for st in case["steps"]:
        bundle = [cv(st["leaf"])] + [cv(n) for n in (st.get("bundle") or [])]
        has = st["token"] != "none"
        tsa = [[cv(st["tsa"]), bundle + [cv(st["tsa"])]], st["t"]] if has else [[cv(st["leaf"]), []], 0]
        steps.append([POOL_ID[st["pool"]], [ids[r] for r in POOL_ROOTS[st["pool"]]], [cv(n) for n in (st.get("extra") or [])],
                      st["usage"], case["now"], [cv(st["leaf"]), bundle], has, tsa])
    return [3, steps]


def seq_err_class(st, which):
    v, e = st[which], st.get("err" if which == "verdict" else "fresh_err", "") or ""
    if v == "ok":
        return (0, 0)
    if v == "panic":
        return (2, -1)
    return (1, 14 if "validating timestamp" in e else 15)


CLS = {"vsix": 2, "appmanifest": 1, "cosign": 3}

# ---------------------------------------------------------------- authorities that misbehave in TIME: model-free oracle
# Written from the property text: "... otherwise the next configured authority is tried, and if all fail the signing fails",
# over "all authority behaviours per configured URL (..., hang, ...)".  Read with a clock: timestamp.timeout is the time an
# authority is given; one that has not delivered a complete, genuine reply by then has failed, the next one must be asked
# no later than timeout + SLACK after it was, and the call must return no later than timeout + SLACK after the last one was
# asked.  Ground truth comes from the delivery description (what the fake authority was told to do), not from relic.
SLACK_MS = 700


def deliv_total(d):
    return d["pre_ms"] + sum(c[0] for c in (d.get("chunks") or []))


def deliv_completes(d):
    return not d.get("refuse") and d["pre_ms"] >= 0 and not d.get("close_early") and d["end"] == "end"


def deliv_in_time(d, t_ms):
    """True / False, or None when the reply completes too close to the timeout to call"""
    if not deliv_completes(d):
        return False
    if t_ms <= 0:
        return True
    tot = deliv_total(d)
    if tot <= 0.7 * t_ms:
        return True
    if tot >= 1.4 * t_ms:
        return False
    return None


def timed_expected(c):
    t_ms = c["timeout_s"] * 1000
    it = [deliv_in_time(a["deliv"], t_ms) for a in c["auths"]]
    if any(x is None for x in it):
        return None
    good = [bool(x and genuine(a["attrs"], c["style"])) for x, a in zip(it, c["auths"])]
    if c["ctx_class"] == "limiter":
        return "err", [], -1, it, good
    if c["ctx_class"] == "first":
        return "err", [0], -1, it, good
    g = [i for i, x in enumerate(good) if x]
    if g:
        return "ok", list(range(g[0] + 1)), g[0], it, good
    return "err", list(range(len(good))), -1, it, good


def timed_label(c):
    return "timeout %ds%s%s %s via %s: %s" % (
        c["timeout_s"], (", caller deadline %d ms" % c["ctx_ms"]) if c["ctx_ms"] else "", (", rate limit %g/s" % c["rate_limit"]) if c["rate_limit"] else "",
        c["style"], c["via"], " > ".join("%s/%s" % (a["content"], a["deliv"]["name"]) for a in c["auths"]))


def timed_model_val(c):
    return [4, [c["timeout_s"], c["ctx_ms"] if c["ctx_ms"] else -1, c.get("wait_ms", 0), c["style"] == "legacy",
                [[False, a["script"], reply_val(a["attrs"])] for a in c["auths"]]]]


def run(ctx, replay=None):
    st = ctx.prepare(["C10_gen"], ["C10"], "C10.Run")
    model_ok = st["model_ok"]
    # exact fingerprint keys of the hand-modelled functions (gen_c10.go)
    anchors = ["lib/pkcs9:", "lib/pkcs9/tsclient:", "lib/pkcs9/timestampcache:", "lib/pkcs9/ratelimit:",
               "internal/signinit:.GetTimestamper", "internal/signinit:namedTimestamper.Timestamp",
               "lib/pkcs7:Signature.VerifyChain", "lib/pkcs7:SignedData.Verify", "lib/pkcs7:SignerInfo.Verify",
               "lib/appmanifest:SignedManifest.AddTimestamp", "lib/appmanifest:.VerifyTimestamp",
               "signers/cosign:.attachTimestamp", "signers/vsix:.checkTimestamp"]
    if not st["harness_ok"]:
        return ctx.finish("proof", ctx.proof_coverage([], anchors), [])
    finding_cases = {}

    def report(key, detail, obj, found=True):
        finding_cases[key] = finding_cases.get(key, 0) + 1
        ctx.violation(key, detail, obj, found)

    # ---- run the implementation
    if replay:
        rp = json.load(open(replay))
        inp = "\n".join(json.dumps(c) for c in rp.get("cases", [])) + "\n"
        rc, out, err = ctx.drv(["c10", "replay"], input=inp, timeout=900)
    else:
        rc, out, err = ctx.drv(["c10"], timeout=1500 if ctx.tier == "thorough" else 600)
    if rc != 0:
        ctx.violation("C10:driver-crash", "driver failed: " + err[-600:], {"stderr": err[-3000:]}, False)
    cases = []
    for l in out.split("\n"):      # not splitlines(): error texts may contain U+0085 etc. from binary HTTP bodies
        if l.strip():
            c = json.loads(l)
            for k in ("seq", "attrs", "hits"):
                if k in c and c[k] is None:
                    c[k] = []
            cases.append(c)
    client = [c for c in cases if c["kind"] == "client"]
    sign = [c for c in cases if c["kind"] == "sign" and c["result"] != "skip"]
    skipped = [c for c in cases if c["kind"] == "sign" and c["result"] == "skip"]
    verify = [c for c in cases if c["kind"] == "verify"]
    cache = [c for c in cases if c["kind"] == "cache"]
    vseq = [c for c in cases if c["kind"] == "vseq"]
    timed = [c for c in cases if c["kind"] == "timed"]
    for c in timed:
        if c.get("hits") is None:
            c["hits"] = []
    for c in skipped:
        ctx.violation("C10:sign:setup:" + c["type"], "sign case could not be set up: " + (c.get("err_text") or ""), {"cases": [c]}, False)

    # ================================================================ model-free oracle: client
    for c in client:
        style, attrs = c["style"], c["attrs"]
        if not c["req_ok"]:
            ctx.violation("C10:client:%s:request" % style, "request does not conform: " + c.get("req_note", ""), {"cases": [c]})
        exp_res, exp_hits, exp_origin = expected(attrs, style)
        exp_obs = [i for i in exp_hits if attrs[i]["observed"]]
        obj = {"cases": [c], "expected": {"result": exp_res, "hits": exp_hits, "origin": exp_origin}}
        if c["result"] == "ok-nil":
            ctx.violation("C10:client:%s:success-without-token" % style, "client reported success without a token for %s" % c["seq"], obj)
            continue
        if c["result"] == "panic":
            last = attrs[c["hits"][-1]] if c["hits"] else {}
            if style == "rfc3161" and last.get("nonce") == 0 and only_defect(last, style, "nonce", 1):
                report("C10:client:rfc3161:missing-nonce-panic", "panic (%s) on %s" % (c.get("err_text"), c["seq"]), obj)
            else:
                ctx.violation("C10:client:%s:panic" % style, "client panicked (%s) on %s" % (c.get("err_text"), c["seq"]), obj)
            continue
        if c["result"] == "ok":
            o = c["origin"]
            a = attrs[o] if 0 <= o < len(attrs) else None
            if a is None:
                ctx.violation("C10:client:%s:unknown-origin" % style, "returned token was not issued by a configured authority: %s" % c["seq"], obj)
            elif not genuine(a, style):
                # a timestamp would be attached although the reply is not genuine
                if style == "legacy":
                    report("C10:client:legacy:reply-unchecked", "legacy client returned the token of a `%s` reply as success: %s" % (c["seq"][o], c["seq"]), obj)
                elif only_defect(a, style, "alg_same", True):
                    report("C10:client:rfc3161:imprint-alg-unchecked", "client accepted a token whose imprint names another algorithm: %s" % c["seq"], obj)
                elif a["status"] < 0 and only_defect(a, style, "status", 0):
                    report("C10:client:rfc3161:negative-status-accepted", "client accepted PKIStatus %d: %s" % (a["status"], c["seq"]), obj)
                else:
                    ctx.violation("C10:client:%s:accepted-non-genuine:%s" % (style, c["seq"][o]),
                                  "client returned the token of authority %d (`%s`) which is not genuine: %s" % (o, c["seq"][o], c["seq"]), obj)
                continue
            elif not c["ext_ok"]:
                ctx.violation("C10:client:%s:token-fails-openssl" % style, "openssl rejects the returned token for this signature value: %s (%s)" % (c["seq"], c.get("ext_note", "")[-120:]), obj)
        if c["result"] != exp_res or c["origin"] != exp_origin:
            # some genuine authority exists but was not used, or the wrong one was used
            blocker = c["seq"][c["hits"][-1]] if c["hits"] else "none"
            if c["result"] == "err" and exp_res == "ok":
                ctx.violation("C10:client:%s:no-failover:%s" % (style, blocker), "signing would fail although authority %d is genuine: %s (%s)" % (exp_origin, c["seq"], c.get("err_text", "")[:100]), obj)
            else:
                ctx.violation("C10:client:%s:wrong-authority" % style, "expected %s from %d, got %s from %d: %s" % (exp_res, exp_origin, c["result"], c["origin"], c["seq"]), obj)
        elif c["hits"] != exp_obs:
            ctx.violation("C10:client:%s:hit-order" % style, "authorities contacted %s, expected %s: %s" % (c["hits"], exp_obs, c["seq"]), obj)

    # ================================================================ model-free oracle: real signing
    for c in sign:
        style, attrs, typ = c["style"], c["attrs"], c["type"]
        has_ts = c["pool"] in ("default", "named")
        obj = {"cases": [c]}
        if not has_ts:
            if c["result"] != "ok" or c["stamped"] or c["hits"]:
                ctx.violation("C10:sign:%s:%s" % (typ, c["pool"]), "timestamping disabled but result=%s stamped=%s hits=%s" % (c["result"], c["stamped"], c["hits"]), obj)
            continue
        exp_res, exp_hits, exp_origin = expected(attrs, style)
        obj["expected"] = {"result": exp_res, "hits": exp_hits, "origin": exp_origin}
        if not c["req_ok"]:
            ctx.violation("C10:sign:%s:request" % typ, "request does not conform: " + c.get("req_note", ""), obj)
        if c["result"] == "panic":
            last = attrs[c["hits"][-1]] if c["hits"] else {}
            if last.get("nonce") == 0 and only_defect(last, style, "nonce", 1):
                report("C10:sign:missing-nonce-panic", "%s signing panicked (%s) on %s" % (typ, c.get("err_text"), c["seq"]), obj)
            else:
                ctx.violation("C10:sign:%s:panic" % typ, "signing panicked (%s) on %s" % (c.get("err_text"), c["seq"]), obj)
            continue
        if c["result"] == "ok":
            if c.get("verify_err") and typ == "vsix" and any(only_defect(a, style, "alg_same", True) for a in attrs[:1]):
                report("C10:sign:vsix:unverifiable-timestamp-attached", "vsix signed successfully with a timestamp relic itself rejects (%s): %s" % (c["verify_err"][:80], c["seq"]), obj)
                continue
            if c.get("verify_err"):
                ctx.violation("C10:sign:%s:output-does-not-verify" % typ, "signed output fails relic verify: %s (%s)" % (c["verify_err"][:120], c["seq"]), obj)
                continue
            if not c["stamped"]:
                ctx.violation("C10:sign:%s:unstamped-success" % typ, "signing succeeded WITHOUT a timestamp although a timestamper is configured: %s" % c["seq"], obj)
                continue
            o = c["origin"]
            if 0 <= o < len(attrs) and attrs[o]["status"] < 0 and only_defect(attrs[o], style, "status", 0):
                report("C10:sign:negative-status-attached", "%s: attached the token of a reply with PKIStatus %d: %s" % (typ, attrs[o]["status"], c["seq"]), obj)
                continue
            if not (0 <= o < len(attrs)) or not genuine(attrs[o], style):
                ctx.violation("C10:sign:%s:attached-non-genuine" % typ, "attached timestamp comes from authority %d which is not genuine: %s" % (o, c["seq"]), obj)
                continue
            if c["ext_checked"] and not c["ext_ok"]:
                ctx.violation("C10:sign:%s:attached-fails-openssl" % typ, "openssl rejects the attached token for this signature value: %s" % c["seq"], obj)
                continue
            if c.get("chain_err"):
                ctx.violation("C10:sign:%s:chain" % typ, "fresh timestamped signature fails VerifyChain: %s" % c["chain_err"][:120], obj, False)
        if c["result"] != exp_res or (c["result"] == "ok" and c["origin"] != exp_origin):
            first = attrs[c["hits"][0]] if c["hits"] else {}
            if c["result"] == "err" and exp_res == "ok" and style == "legacy" and not genuine(first, style):
                report("C10:sign:legacy:no-failover", "%s: legacy signing failed (%s) although authority %d is genuine: %s" % (typ, c.get("err_text", "")[:80], exp_origin, c["seq"]), obj)
            elif c["result"] == "err" and exp_res == "ok" and only_defect(first, style, "alg_same", True) and len(c["hits"]) == 1:
                report("C10:sign:imprint-alg:no-failover", "%s: signing failed (%s) although authority %d is genuine: %s" % (typ, c.get("err_text", "")[:80], exp_origin, c["seq"]), obj)
            elif c["result"] == "err" and exp_res == "ok":
                ctx.violation("C10:sign:%s:no-failover" % typ, "signing failed (%s) although authority %d is genuine: %s" % (c.get("err_text", "")[:100], exp_origin, c["seq"]), obj)
            else:
                ctx.violation("C10:sign:%s:wrong-outcome" % typ, "expected %s/%d, got %s/%d: %s" % (exp_res, exp_origin, c["result"], c["origin"], c["seq"]), obj)
        elif not rounds(c["hits"], [i for i in exp_hits if attrs[i]["observed"]]):
            ctx.violation("C10:sign:%s:hit-order" % typ, "authorities contacted %s, expected %s: %s" % (c["hits"], exp_hits, c["seq"]), obj)

    # ================================================================ model-free oracle: cache layer
    for c in cache:
        cached_from = None      # origin of the token a genuine earlier step stored
        for i, s in enumerate(c["steps"]):
            exp_res, exp_hits, exp_origin = expected(s["attrs"], "rfc3161")
            obj = {"cases": [c], "step": i}
            if cached_from is not None and c.get("poison") != "down":
                if s["result"] != "ok" or s["hits"] or not s["ext_ok"]:
                    ctx.violation("C10:cache:hit", "%s step %d: expected a cache hit with the stored genuine token, got %s hits=%s ext_ok=%s" % (c["name"], i, s["result"], s["hits"], s["ext_ok"]), obj)
                continue
            if s["result"] != exp_res or s["hits"] != exp_hits or (exp_res == "ok" and (s["origin"] != exp_origin or not s["ext_ok"])):
                ctx.violation("C10:cache:miss-path", "%s step %d: expected %s via %s, got %s via %s" % (c["name"], i, exp_res, exp_hits, s["result"], s["hits"]), obj)
            if s["result"] != "ok" and s["cached"]:
                ctx.violation("C10:cache:failure-cached", "%s step %d: a failed timestamping attempt left an entry in the cache" % (c["name"], i), obj)
            if s["result"] == "ok" and c.get("poison") != "down":
                cached_from = s["origin"]

    # ================================================================ model-free oracle: verification
    ZERO_T = -62135596800
    for c in verify:
        leaf, tsa = c["leaf"], c["tsa"]
        has = c["token"] != "none"
        t = c["t"]
        if c["form"] == "countersig":          # openssl stamps the present; take the time relic reports, it must be near now
            t = c["cs_time"] if c["ts_result"] == "ok" else c["now"]
            if c["ts_result"] == "ok" and abs(t - c["now"]) > 600:
                ctx.violation("C10:verify:countersig-time", "counterSignature time %d is not the signing time (now %d)" % (t, c["now"]), {"cases": [c]})
        if c["token"] == "zero_time":
            t = ZERO_T
        if has:
            tok_ok = c["tok_sig_ok"] and c["tok_imprint"] and c["tok_alg_ok"] and c["tok_content"]
            spec = bool(tok_ok and c["tsa_trusted"] and c["tsa_eku"] and tsa["nb"] <= t <= tsa["na"] and leaf["nb"] <= t <= leaf["na"])
        else:
            spec = leaf["nb"] <= c["now"] <= leaf["na"]
        obj = {"cases": [c], "expected_accept": spec}
        label = "%s/%s leaf=%s tsa=%s trusted=%s eku=%s" % (c["form"], c["token"], leaf["name"], tsa.get("name"), c["tsa_trusted"], c["tsa_eku"])
        if c.get("sig_err"):
            ctx.violation("C10:verify:setup", "parent signature did not verify: " + c["sig_err"], obj, False)
            continue
        if c["ts_result"] == "panic":
            if c["token"] == "detached":
                report("C10:verify:token-without-content-panic", "verifier panicked (%s): %s" % (c.get("ts_err"), label), obj)
            else:
                ctx.violation("C10:verify:panic", "verifier panicked (%s): %s" % (c.get("ts_err"), label), obj)
            continue
        if c["accepted"] and not spec:
            if c["token"] == "zero_time":
                report("C10:verify:zero-gentime-judged-at-now", "accepted although the attested time (year 1) is outside the certificate lifetimes: " + label, obj)
            elif has and not c["tok_imprint"]:
                ctx.violation("C10:verify:countersig-not-bound", "accepted a timestamp issued for a different signature value: " + label, obj)
            elif leaf["na"] < c["now"]:
                ctx.violation("C10:verify:expired-accepted", "expired signer certificate accepted without a valid timestamp from within its lifetime: " + label, obj)
            else:
                ctx.violation("C10:verify:accepted-invalid", "accepted although the property demands rejection: " + label, obj)
        elif spec and not c["accepted"]:
            ctx.violation("C10:verify:rejected-valid", "rejected (%s %s) although everything is valid at the attested time: %s" % (c.get("ts_err", ""), c.get("chain_err", "")[:80], label), obj, False)

    # ================================================================ model-free oracle: verification histories
    seq_steps = 0
    for c in vseq:
        certs = seq_certs(c)
        for i, stp in enumerate(c["steps"]):
            seq_steps += 1
            spec = seq_spec(c, stp)
            before = " > ".join(x["label"] for x in c["steps"][:i]) or "nothing"
            what = "history `%s`, step %d `%s` (leaf %s, pool %s, usage %d%s), verified after: %s" % (
                c["name"], i, stp["label"], stp["leaf"], stp["pool"], stp["usage"],
                (", token by %s attested %d" % (stp["tsa"], stp["t"])) if stp["token"] != "none" else ", no timestamp", before)
            obj = {"cases": [c], "step": i, "expected_accept": spec, "fresh_process_verdict": stp["fresh"]}
            if stp.get("sig_err") or stp["fresh"] == "sigerr":
                ctx.violation("C10:verify-seq:setup", "signature of a history step did not verify: %s %s" % (stp.get("sig_err"), stp.get("fresh_err")), obj, False)
                continue
            if stp["verdict"] == "panic" or stp["fresh"] == "panic":
                ctx.violation("C10:verify-seq:panic", "verifier panicked (%s %s): %s" % (stp.get("err"), stp.get("fresh_err"), what), obj)
                continue
            if stp["token"] != "none" and stp["cs_time"] != stp["t"]:
                ctx.violation("C10:verify-seq:attested-time-misread", "the token attests %d, the verifier reports %d: %s" % (stp["t"], stp["cs_time"], what), obj)
                continue
            acc = stp["verdict"] == "ok"
            fresh_note = "; the same verification done first in a fresh process says `%s`" % stp["fresh"]
            if acc and not spec:
                leaf = certs[stp["leaf"]]
                if leaf["na"] < c["now"] and (stp["token"] == "none" or not (leaf["nb"] <= stp["t"] <= leaf["na"])):
                    ctx.violation("C10:verify-seq:expired-accepted", "expired signer certificate accepted without a valid timestamp from within its lifetime: " + what + fresh_note, obj)
                elif stp["token"] != "none" and not (certs[stp["tsa"]]["nb"] <= stp["t"] <= certs[stp["tsa"]]["na"]):
                    ctx.violation("C10:verify-seq:authority-outside-lifetime-accepted", "timestamp accepted although the authority's certificate was not valid at the attested time: " + what + fresh_note, obj)
                elif stp["token"] != "none" and not (leaf["nb"] <= stp["t"] <= leaf["na"]):
                    ctx.violation("C10:verify-seq:judged-at-other-time", "signer chain not judged at the attested time (certificate not valid then): " + what + fresh_note, obj)
                else:
                    ctx.violation("C10:verify-seq:accepted-invalid", "chain accepted although the property demands rejection (trust store / usage / intermediates of THIS verification): " + what + fresh_note, obj)
            elif stp["verdict"] != stp["fresh"]:
                ctx.violation("C10:verify-seq:history-dependent", "verdict `%s` depends on what was verified before: %s%s" % (stp["verdict"], what, fresh_note), obj)
            elif spec and not acc:
                ctx.violation("C10:verify-seq:rejected-valid", "rejected (%s) although everything is valid at the judgement time: %s" % ((stp.get("err") or "")[:80], what), obj, False)

    # ================================================================ model-free oracle: authorities that misbehave in time
    timed_skipped = 0
    timed_model = {}
    if model_ok and timed:
        try:
            for c, r in zip(timed, ctx.run_model([timed_model_val(c) for c in timed])):
                timed_model[c["id"]] = r
        except RuntimeError as e:
            ctx.violation("C10:model-eval", str(e)[-300:], {"output": str(e)}, False)
    unset_unjudged = 0
    for c in timed:
        exp = timed_expected(c)
        if exp is None:
            timed_skipped += 1
            continue
        exp_res, exp_hits, exp_origin, in_time, goodv = exp
        t_ms = c["timeout_s"] * 1000
        # timestamp.timeout unset / negative: the limit the client works under is whatever the source gives for that value
        # (limits_of, from the generated definitions); it must be the 60 s default
        eff_ms = t_ms
        if t_ms <= 0:
            m = timed_model.get(c["id"])
            eff_ms = m[8][0] if m else None
            if eff_ms is not None and eff_ms > 0 and eff_ms != 60000:
                ctx.violation("C10:timed:timeout-unset:default-not-60s", "for timestamp.timeout = %d the source gives the client an overall limit of %d ms, expected the 60 s default" % (c["timeout_s"], eff_ms),
                              {"cases": [c], "limits_ms": m[8]}, False)
        hits = c.get("hits") or []
        obs_idx = [h["idx"] for h in hits]
        exp_obs = [i for i in exp_hits if c["auths"][i]["attrs"]["observed"]]
        label = timed_label(c)
        obj = {"cases": [c], "expected": {"result": exp_res, "hits": exp_hits, "origin": exp_origin, "answers_in_time": in_time}}
        dname = lambda i: c["auths"][i]["deliv"]["name"] if 0 <= i < len(c["auths"]) else "none"
        if not c["req_ok"]:
            ctx.violation("C10:timed:request", "request does not conform: " + c.get("req_note", ""), obj)
        if c["result"] == "ok-nil":
            ctx.violation("C10:timed:success-without-token", "success without a token: " + label, obj)
            continue
        if c["result"] == "panic":
            ctx.violation("C10:timed:panic", "panic (%s): %s" % (c.get("err_text"), label), obj)
            continue
        if c["result"] == "ok":
            o = c["origin"]
            if not (0 <= o < len(c["auths"])) or not genuine(c["auths"][o]["attrs"], c["style"]):
                ctx.violation("C10:timed:accepted-non-genuine", "the token of authority %d is not genuine: %s" % (o, label), obj)
                continue
            if c["via"] == "tam" and (not c["stamped"] or c.get("verify_err")):
                ctx.violation("C10:timed:tam:output", "TimestampAndMarshal succeeded but the output %s: %s" %
                              ("carries no timestamp" if not c["stamped"] else "does not verify (%s)" % c["verify_err"][:80], label), obj)
                continue
            if not c["ext_ok"]:
                ctx.violation("C10:timed:token-fails-openssl", "openssl rejects the token for this signature value: %s (%s)" % (label, (c.get("ext_note") or "")[-100:]), obj)
                continue
        # (1) the outcome: first good authority in order, or failure after all were asked (what a rate limiter in front does
        #     with a caller deadline shorter than its wait is not part of the property: model comparison only)
        if c["ctx_class"] == "limiter":
            continue
        if c["result"] != exp_res or (c["result"] == "ok" and c["origin"] != exp_origin):
            blocker = dname(obs_idx[-1]) if obs_idx else "none"
            if c["result"] == "err" and exp_res == "ok":
                ctx.violation("C10:timed:no-failover:" + blocker,
                              "signing fails (%s) although authority %d answers in time with a genuine token; the last authority asked was %d (`%s`), %d ms after the start: %s" %
                              ((c.get("err_text") or "")[:90].replace("\n", " "), exp_origin, obs_idx[-1] if obs_idx else -1, blocker, c["wall_ms"], label), obj)
            elif c["result"] == "ok" and exp_res == "ok":
                ctx.violation("C10:timed:wrong-authority:" + dname(c["origin"]),
                              "the token of authority %d (`%s`) was used, expected authority %d: %s" % (c["origin"], dname(c["origin"]), exp_origin, label), obj)
            else:
                ctx.violation("C10:timed:wrong-outcome", "expected %s, got %s/%d: %s" % (exp_res, c["result"], c["origin"], label), obj)
            continue
        if obs_idx != exp_obs:
            ctx.violation("C10:timed:hit-order", "authorities asked %s, expected %s: %s" % (obs_idx, exp_obs, label), obj)
            continue
        # (2) the clock: nobody is waited for longer than the timeout
        late = None
        for j, h in enumerate(hits):
            nxt = hits[j + 1]["at_ms"] if j + 1 < len(hits) else c["wall_ms"]
            waited = nxt - h["at_ms"]
            if h["gone_ms"] == -1:
                if t_ms <= 0 and eff_ms is None:
                    unset_unjudged += 1      # no model (generated definitions broken): reported by the proof verdict
                    continue
                if t_ms <= 0 and eff_ms > c["cap_ms"]:
                    continue                 # the client's default limit lies beyond the harness's cleanup: it may still wait
                late = (h["idx"], waited, "was still being waited for when the harness cleaned up after %d ms" % c["cap_ms"])
                break
            if t_ms > 0 and waited > t_ms + SLACK_MS:
                late = (h["idx"], waited, "was given %d ms" % waited)
                break
        if late:
            i, waited, how = late
            if t_ms <= 0:
                report("C10:timed:timeout-unset:hang-blocks-failover",
                       "timestamp.timeout = %d: the client works without any overall limit (limits from the source: %s); authority %d (`%s`) never completes its reply and %s; the next authority / the failure was reached only because the harness closed the connection: %s" %
                       (c["timeout_s"], (timed_model.get(c["id"]) or [None] * 9)[8], i, dname(i), how, label), obj)
            else:
                ctx.violation("C10:timed:not-abandoned-within-timeout:" + dname(i),
                              "authority %d (`%s`) %s although timestamp.timeout is %d ms: %s" % (i, dname(i), how, t_ms, label), obj)

    # sign cases with timed authorities: the same clock rule on the real signing path
    for c in sign:
        hat, gat = c.get("hit_at") or [], c.get("gone_at") or []
        if not hat or len(hat) != len(c["hits"]) or c.get("retried"):
            continue
        t_ms = (c.get("timeout_s") or 0) * 1000
        for j, i in enumerate(c["hits"]):
            nxt = hat[j + 1] if j + 1 < len(hat) else c.get("wall_ms", 0)
            if i < len(c["seq"]) and c["seq"][i].startswith("t_") and t_ms > 0 and ((j < len(gat) and gat[j] == -1) or (j + 1 < len(hat) and nxt - hat[j] > t_ms + SLACK_MS)):
                ctx.violation("C10:sign:%s:not-abandoned-within-timeout:%s" % (c["type"], c["seq"][i]),
                              "%s signing: authority %d (`%s`) was waited for %d ms although timestamp.timeout is %d ms: %s" % (c["type"], i, c["seq"][i], nxt - hat[j], t_ms, c["seq"]), {"cases": [c]})
                break

    # ================================================================ correspondence with the model
    mism, evaluated = [], 0
    if model_ok and cases:
        try:
            vals = [[0, [c["style"] == "legacy", [reply_val(a) for a in c["attrs"]]]] for c in client]
            res = ctx.run_model(vals)
            for c, r in zip(client, res):
                kind, code, hits, sk, sid, sh, gflags = r
                okind = {"ok": 0, "err": 1, "panic": 2}.get(c["result"], 9)
                obs_hits = [i for i in hits if c["attrs"][i]["observed"]]
                why = []
                if kind != okind:
                    why.append("result kind model=%d impl=%d" % (kind, okind))
                elif kind == 0 and code != c["origin"]:
                    why.append("origin model=%d impl=%d" % (code, c["origin"]))
                elif kind == 1 and err_code(c.get("err_text")) not in (code, -1):
                    why.append("error class model=%d impl=%d (%s)" % (code, err_code(c.get("err_text")), (c.get("err_text") or "")[:60]))
                if obs_hits != c["hits"]:
                    why.append("hits model=%s impl=%s" % (obs_hits, c["hits"]))
                # the Coq specification must agree with this file's oracle (two independent writings of the property)
                e_res, e_hits, e_origin = expected([dict(a, ctx_dead=False) for a in c["attrs"]], c["style"])
                if (0 if e_res == "ok" else 1, e_origin, e_hits) != (sk, sid, sh) or [bool(g) for g in gflags] != [genuine(a, c["style"]) for a in c["attrs"]]:
                    why.append("Coq spec_client disagrees with the python oracle")
                if why:
                    mism.append((c, why))
            svals = [[1, [CLS.get(c["type"], 0), c["pool"] in ("default", "named"), c["style"] == "legacy", [reply_val(a) for a in c["attrs"]]]] for c in sign]
            for c, r in zip(sign, ctx.run_model(svals)):
                kind, code, hits, stamped = r
                okind = {"ok": 0, "err": 1, "panic": 2}.get(c["result"], 9)
                why = []
                impl_stamped = c["result"] == "ok" and (c["stamped"] or (c["type"] == "vsix" and bool(c.get("verify_err"))))
                if kind != okind:
                    why.append("result kind model=%d impl=%d" % (kind, okind))
                elif kind == 0 and bool(stamped) != impl_stamped:
                    why.append("stamped model=%s impl=%s" % (stamped, impl_stamped))
                elif kind == 0 and stamped and c["stamped"] and code != c["origin"]:
                    why.append("origin model=%d impl=%d" % (code, c["origin"]))
                elif kind == 1 and err_code(c.get("err_text")) not in (code, -1):
                    why.append("error class model=%d impl=%d (%s)" % (code, err_code(c.get("err_text")), (c.get("err_text") or "")[:60]))
                if not rounds(c["hits"], [i for i in hits if c["attrs"][i]["observed"]]):
                    why.append("hits model=%s impl=%s" % (hits, c["hits"]))
                if why:
                    mism.append((c, why))
            vvals = []
            for c in verify:
                tm = c["t"]
                if c["form"] == "countersig":
                    tm = c["cs_time"] if c["ts_result"] == "ok" else c["now"]
                if c["token"] == "zero_time":
                    tm = 0
                algk = 0 if c["tok_alg_ok"] else 1
                form = 0 if c["form"] == "token" else 2
                tsa = c["tsa"]
                vvals.append([2, [c["now"], [c["leaf"]["nb"], c["leaf"]["na"], True, False], c["token"] != "none",
                                  [form, 1, c["tok_content"], True, c["tok_sig_ok"], algk, c["tok_imprint"], tm, True,
                                   [tsa.get("nb", 0), tsa.get("na", 0), c["tsa_trusted"], c["tsa_eku"]]]]])
            for c, r in zip(verify, ctx.run_model(vvals)):
                kind, code, acc, spec = r
                okind = 2 if c["ts_result"] == "panic" else (0 if c["accepted"] else 1)
                why = []
                if kind != okind or bool(acc) != c["accepted"]:
                    why.append("verify outcome model=(%d,%s) impl=(%d,%s)" % (kind, acc, okind, c["accepted"]))
                elif kind == 1:
                    ic = 14 if "validating timestamp" in c.get("chain_err", "") else (15 if c.get("chain_err") else err_code(c.get("ts_err")))
                    if ic not in (code, -1):
                        why.append("error class model=%d impl=%d" % (code, ic))
                if why:
                    mism.append((c, why))
            for c, r in zip(vseq, ctx.run_model([seq_model_val(c) for c in vseq])):
                why = []
                if len(r) != len(c["steps"]):
                    why.append("model produced %d verdicts for %d steps" % (len(r), len(c["steps"])))
                for i, (stp, m) in enumerate(zip(c["steps"], r)):
                    kind, code, fkind, fcode, mspec = m
                    if (kind, code) != seq_err_class(stp, "verdict"):
                        why.append("step %d `%s` in history: model=(%d,%d) impl=%s" % (i, stp["label"], kind, code, seq_err_class(stp, "verdict")))
                    if (fkind, fcode) != seq_err_class(stp, "fresh"):
                        why.append("step %d `%s` fresh process: model=(%d,%d) impl=%s" % (i, stp["label"], fkind, fcode, seq_err_class(stp, "fresh")))
                    if bool(mspec) != seq_spec(c, stp):
                        why.append("step %d `%s`: Coq spec_chain_accept disagrees with the python oracle" % (i, stp["label"]))
                if why:
                    mism.append((c, why))
            for c in timed:
                r = timed_model.get(c["id"])
                if r is None:
                    continue
                kind, code, mhits, tend, sk, sid, sh, per, lims = r
                why = []
                hits = c["hits"]
                okind = {"ok": 0, "err": 1, "panic": 2}.get(c["result"], 9)
                observed = lambda i: c["auths"][i]["attrs"]["observed"]
                mh = [(i, t) for i, t in mhits if observed(i)]
                if kind == 3:      # the model says the call never returns: the last authority asked is waited for without end
                    j = len(mh) - 1
                    if [h["idx"] for h in hits[:j + 1]] != [i for i, _ in mh] or hits[j]["gone_ms"] != -1:
                        why.append("model: never returns, waiting for authority %d; impl hits=%s" % (mh[-1][0] if mh else -1, [(h["idx"], h["at_ms"], h["gone_ms"]) for h in hits]))
                else:
                    if kind != okind:
                        why.append("result kind model=%d impl=%d (%s)" % (kind, okind, (c.get("err_text") or "")[:60]))
                    elif kind == 0 and code != c["origin"]:
                        why.append("origin model=%d impl=%d" % (code, c["origin"]))
                    elif kind == 1 and err_code(c.get("err_text")) not in (code, -1):
                        why.append("error class model=%d impl=%d (%s)" % (code, err_code(c.get("err_text")), (c.get("err_text") or "")[:60]))
                    if [h["idx"] for h in hits] != [i for i, _ in mh]:
                        why.append("hits model=%s impl=%s" % ([i for i, _ in mh], [h["idx"] for h in hits]))
                    else:
                        for n, (h, (i, t)) in enumerate(zip(hits, mh)):
                            if abs(h["at_ms"] - t) > 450 + 100 * n:
                                why.append("authority %d asked at %d ms, model says %d ms" % (i, h["at_ms"], t))
                        if abs(c["wall_ms"] - tend) > 600 + 100 * len(mh):
                            why.append("returned after %d ms, model says %d ms" % (c["wall_ms"], tend))
                # the Coq specification must agree with this file's oracle (two independent writings)
                exp = timed_expected(c)
                if exp is not None and c["ctx_class"] in ("none", "patient") and c["timeout_s"] > 0:
                    e_res, e_hits, e_origin, it, goodv = exp
                    if [bool(p[0]) for p in per] != [bool(x) for x in it] or (0 if e_res == "ok" else 1, e_origin, e_hits) != (sk, sid, sh):
                        if lims[1:] == [0, 0, 0]:     # the oracle knows one limit only: the overall timeout
                            why.append("Coq spec_timed disagrees with the python oracle: spec=(%d,%d,%s) in_time=%s oracle=(%s,%d,%s) in_time=%s" % (sk, sid, sh, [p[0] for p in per], e_res, e_origin, e_hits, it))
                if why:
                    mism.append((c, why))
            evaluated = len(client) + len(sign) + len(verify) + seq_steps + len(timed)
        except RuntimeError as e:
            ctx.violation("C10:model-eval", str(e)[-300:], {"output": str(e)}, False)
    if mism and not any(v[2] for v in ctx.violations):
        c, why = mism[0]
        ctx.violation("C10:correspondence:" + c["kind"], "model and implementation disagree on %d cases (first: %s %s: %s); no case violates the property" %
                      (len(mism), c["kind"], c.get("seq") or c.get("token") or c.get("name") or (timed_label(c) if c["kind"] == "timed" else ""), "; ".join(why)),
                      {"cases": [c], "why": why, "broken": "correspondence C10.Run"}, False)
    ctx.proof_verdict()

    # ---- coverage
    dist = {}
    for c in client:
        dist["client/" + c["style"] + "/len%d" % len(c["seq"])] = dist.get("client/" + c["style"] + "/len%d" % len(c["seq"]), 0) + 1
    for c in sign:
        dist["sign/" + c["type"] + "/" + c["style"]] = dist.get("sign/" + c["type"] + "/" + c["style"], 0) + 1
    for c in verify:
        dist["verify/" + c["form"] + "/" + c["token"]] = dist.get("verify/" + c["form"] + "/" + c["token"], 0) + 1
    dist["cache"] = len(cache)
    for c in timed:
        k = "timed/%s/%s/t%d/%s" % (c["style"], c["via"], c["timeout_s"], c["ctx_class"])
        dist[k] = dist.get(k, 0) + 1
    dist["timed/boundary-skipped"] = timed_skipped
    dist["timed/timeout-unset-not-judged-without-model"] = unset_unjudged
    for c in vseq:
        k = "vseq/" + c["name"].split(":")[0] + "/len%d" % len(c["steps"])
        dist[k] = dist.get(k, 0) + 1
    nontrivial = set()
    for c in client:
        if c["hits"]:
            nontrivial.add(("c", c["style"], json.dumps(c["attrs"], sort_keys=True)))
    for c in sign:
        if c["hits"]:
            nontrivial.add(("s", c["type"], c["style"], c["pool"], json.dumps(c["attrs"], sort_keys=True)))
    for c in verify:
        nontrivial.add(("v", c["form"], c["token"], c["leaf"]["name"], c["tsa"].get("name"), c["tsa_trusted"], c["tsa_eku"]))
    for c in cache:
        nontrivial.add(("m", c["name"]))
    for c in vseq:
        nontrivial.add(("q", c["name"]))
    for c in timed:
        nontrivial.add(("t", c["style"], c["via"], c["timeout_s"], c["ctx_ms"], c["rate_limit"], tuple((a["content"], a["deliv"]["name"]) for a in c["auths"])))
    cov = ctx.proof_coverage([
        "srcgen translator, time: which duration fields of http.Client / http.Transport / net.Dialer tsclient.New sets and their values as functions of timestamp.timeout, which client and which context tsClient.do uses, the error checks after Do and ReadAll, every early exit of the failover loop with its guard, limiter order (Generated/C10_gen.v, round 3)",
        "net/http semantics of the modelled limits (Client.Timeout and context deadlines bound the whole exchange including the body read; Dialer.Timeout / TLSHandshakeTimeout / ResponseHeaderTimeout bound their phase only) are written in C10/Timing.v and validated against the real net/http by the timed harness cases (hit times and return time within 450-600 ms of the model)",
        "srcgen translator (PKIStatus constants; conditions of ParseResponse, SanityCheckToken, tsClient.Timestamp/do, TimestampAndMarshal, Verify, MessageImprint.Verify, VerifyMicrosoftToken, TimestampedSignature.VerifyChain; call orders; presence of the final error returns; pkcs7.Signature.VerifyChain / CounterSignature.VerifyChain / TimestampedSignature.VerifyChain translated statement by statement into the chain-verification IR (C10/ChainIR.v); inventory of package-level mutable state of lib/pkcs7, lib/pkcs9, lib/x509tools and its uses on the verification path, by syntactic analysis with callee-name call closure)",
        "correspondence harness cmd/drv-c10: fake TSA over httptest whose genuine replies are produced by `openssl ts -reply` / `openssl cms -sign` and mutated per behaviour; real tsclient, real signers via signinit.Init + module Sign/Apply/Verify, real pkcs7/pkcs9 verification with Go-minted certificate windows",
        "openssl 3 (`ts -verify`, `cms -verify`) as independent judge of returned/attached tokens",
        "ideal digest (arbitrary function H; injectivity only for countersig_binds_unique); token signature validity, ASN.1 parsing, x509 path building (trusted / window / EKU) are oracles of the model"], anchors)
    samples = [{k: c.get(k) for k in ("kind", "style", "seq", "hits", "result", "origin")} for c in client[300:302]] + \
              [{k: c.get(k) for k in ("kind", "type", "pool", "seq", "hits", "result", "stamped", "origin")} for c in sign[2:4]] + \
              [{k: c.get(k) for k in ("kind", "form", "token", "leaf", "tsa", "ts_result", "chain", "accepted")} for c in verify[13:15]] + \
              [{"kind": "vseq", "name": c["name"], "steps": [(x["label"], x["verdict"], x["fresh"]) for x in c["steps"]]} for c in vseq[1:3]] + \
              [{"kind": "timed", "case": timed_label(c), "result": c["result"], "origin": c["origin"], "wall_ms": c["wall_ms"],
                "hits": [(h["idx"], h["at_ms"], h["gone_ms"]) for h in c["hits"]]} for c in timed[6:7] + timed[30:31]]
    retried = [c for c in sign if c.get("retried")]
    if retried:
        ctx.notes.append("unrelated to C10: %d sign operations hit the intermittent `apply: EOF` of the %s transformer (reader goroutine still using the input descriptor when Apply starts) and were repeated" % (len(retried), sorted(set(c["type"] for c in retried))))
    cov.update({"evaluations": len(client) + len(sign) + len(verify) + sum(len(c["steps"]) for c in cache) + 2 * seq_steps + len(timed),
                "timed_cases": len(timed),
                "history_cases": len(vseq), "history_steps": seq_steps,
                "model_evaluations": evaluated,
                "distinct_nontrivial": len(nontrivial),
                "rule": "client: every sequence of <=2 authority behaviours over the full behaviour list (17 RFC 3161 / 8 legacy), every sequence of 3 over the core behaviours, plus each remaining behaviour in first/middle/last position, context-expiry cases; sign: 13 signer types x pools (default/named/none/flag-off) x behaviour sequences; verify: 8 leaf windows x 12 token/TSA scenarios + TSA boundary windows + counterSignature form; cache: 6 multi-step scenarios; histories: for the signer certificate and for the authority certificate, every (accepting step in {in lifetime, exactly notBefore, exactly notAfter}) x (rejecting step in {no timestamp, after expiry, notAfter+1s, before notBefore, notBefore-1s}) in the orders accept>reject and reject>accept>reject with one leaf certificate, one CertPool object and one usage per history, plus histories that change the trust-store object / its contents / the usage / the bundled and caller-supplied intermediates / carry a foreign root; every step is also verified once as the first act of a fresh process; time: fake authorities over real TCP that refuse, hang before the headers, close before the headers, stall after the headers / in mid-body / before the last byte / without Content-Length, drip one byte per 60 ms, close in mid-body, answer too late (headers in time, body late; headers late), or answer slowly but in time (one piece, five pieces, without Content-Length), each followed by a healthy authority and alone, non-genuine content delivered slowly, sequences of different hangs, all authorities hanging, timeouts 1 s and 2 s, and unset / negative (default 60 s: the harness ends the silent connection after 2.5 s and the case is judged by the model under the limit the source gives, which must be 60 s), callers without / with a patient / with an early deadline, legacy style, the rate limiter in front, through tsclient.Timestamp and through pkcs9.TimestampAndMarshal (output re-verified), and real pe-coff / jar / appmanifest signing with stalling and dripping authorities; every hit is time-stamped and it is recorded whether the client or the harness ended a silent connection. non-trivial = distinct inputs on which at least one authority was contacted / a verification decision was taken",
                "samples": samples, "exhaustive": False, "input_distribution": dist,
                "model_mismatches": len(mism),
                "finding_cases": finding_cases})
    return ctx.finish("proof", cov, [
        "digest function idealised (arbitrary H; collision-freeness only where stated)",
        "validity of a token's own signature, DER parsing and x509 path validation are attributes of the model's inputs (oracles); the harness supplies them by construction and cross-checks with openssl",
        "Go's x509: zero CurrentTime means now; NotBefore/NotAfter inclusive",
        "history model: crypto/x509 path validation is the oracle path_ok (windows at one instant, EKU, issuer in the pool directly or through one bundled / caller-supplied intermediate); process state outside lib/pkcs7, lib/pkcs9, lib/x509tools (Go runtime, crypto/x509 internals such as the lazily parsed pool entries) is assumed not to influence verdicts — the harness compares every verdict with a fresh process",
        "memcache contents are trusted (a cached token is returned without re-validation)",
        "time: an authority is a finite script of (delay, event) after which it is silent for ever; DNS resolution, redirects, proxies and HTTP/2 are not modelled; a deadline and an event at the same instant are resolved in favour of the deadline (the harness keeps 30% of the timeout between them); the harness ends a silent connection after timeout + 2.5 s to clean up and records that it did"])
