# C13 — interrupted output never leaves a torn or missing file
import concurrent.futures, json, os, re, shutil, subprocess
from vlib.common import BUILD, REPO, run as sh

FP = ["lib/atomicfile:", "signers:fileProducer.Apply", "lib/binpatch:PatchSet.applyRewrite", "signers/msi:", "signers/pgp:"]
SYSCALLS = "openat,write,pwrite64,fchmod,fchmodat,close,unlink,unlinkat,rename,renameat,renameat2,ftruncate"
STRATEGIES = ["writefile", "whole", "patch", "msi", "pgp"]       # index = position in C13.Model.strategies_defer_close
FAILABLE = ["whole", "patch", "msi", "pgp"]
OLD = b"OLD-DESTINATION-CONTENT\n" * 10

def prepare(d, strategy, dest_exists):
    shutil.rmtree(d, ignore_errors=True)
    os.makedirs(d)
    if strategy == "msi":
        shutil.copyfile(os.path.join(REPO, "functest/packages/dummy.msi"), os.path.join(d, "in.bin"))
    else:
        open(os.path.join(d, "in.bin"), "wb").write(bytes(range(256)) * 20)
    if dest_exists == 2:      # destination is a symbolic link to a regular file
        open(os.path.join(d, "linked-target"), "wb").write(OLD)
        os.symlink("linked-target", os.path.join(d, "out.bin"))
    elif dest_exists:
        open(os.path.join(d, "out.bin"), "wb").write(OLD)
    return open(os.path.join(d, "in.bin"), "rb").read()

def snapshot(d):
    out = {}
    for n in sorted(os.listdir(d)):
        if n.endswith(".trace"):
            continue
        try:
            out[n] = open(os.path.join(d, n), "rb").read()      # follows symbolic links: what a reader of the path sees
        except OSError:
            pass
    return out

def strace_run(d, strategy, fail=False, kill_at=None):
    drv = os.path.join(BUILD, "drv-c13")
    tr = os.path.join(d, "run.trace")
    cmd = ["strace", "-f", "-o", tr, "-e", "trace=" + SYSCALLS]
    if kill_at is not None:   # (syscall name, ordinal among calls of that name in the thread): strace counts per syscall
        cmd += ["-e", "inject=%s:signal=SIGKILL:when=%d" % kill_at]
    cmd += [drv, "c13op", strategy, d] + (["fail"] if fail else [])
    env = dict(os.environ, GOMAXPROCS="1")
    p = subprocess.run(cmd, stdout=subprocess.PIPE, stderr=subprocess.PIPE, env=env, timeout=120)
    lines = open(tr).read().splitlines() if os.path.exists(tr) else []
    try:
        os.remove(tr)
    except OSError:
        pass
    return p.returncode, lines, p.stderr.decode(errors="replace")[-300:]

def main_syscalls(lines):
    """syscall lines of the main thread (first pid in the trace), in order"""
    if not lines:
        return []
    pid = lines[0].split()[0]
    out = []
    for l in lines:
        parts = l.split(None, 1)
        if len(parts) == 2 and parts[0] == pid and re.match(r"[a-z_0-9]+\(", parts[1]):
            out.append(parts[1])
    return out

def op_kinds(calls, d):
    """normalise the output phase of a trace to the model's op kinds (fill = 1, collapsed)"""
    kinds, tmpfd, tmpname = [], None, None
    for c in calls:
        m = re.match(r'openat\(AT_FDCWD, "([^"]*out\.bin\.tmp[^"]*)", [^)]*O_CREAT[^)]*\)\s*=\s*(\d+)', c)
        if m:
            tmpname, tmpfd = m.group(1), m.group(2)
            kinds.append(0)
            continue
        if tmpfd is None:
            continue
        if re.match(r"(write|pwrite64|ftruncate)\(%s[,)]" % tmpfd, c):
            if not kinds or kinds[-1] != 1:
                kinds.append(1)
        elif re.match(r"fchmod\(%s," % tmpfd, c):
            kinds.append(3)
        elif re.match(r"close\(%s\)" % tmpfd, c):
            kinds.append(4)
        elif re.match(r'(unlink|unlinkat)\((AT_FDCWD, )?"[^"]*out\.bin"', c):
            kinds.append(5)
        elif re.match(r"rename", c) and tmpname in c:
            kinds.append(6)
        elif re.match(r"(unlink|unlinkat)\(", c) and tmpname in c:
            kinds.append(7)
    return kinds

def collapse(model_kinds):
    out = []
    for k in model_kinds:
        k = 1 if k == 2 else k
        if k == 1 and out and out[-1] == 1:
            continue
        out.append(k)
    return out

def run(ctx, replay=None):
    st = ctx.prepare(["C13_gen"], ["C13"], "C13.Run")
    if not st["harness_ok"]:
        return ctx.finish("proof", ctx.proof_coverage([], FP), [])
    base = os.path.join(ctx.scratch, "c13")
    os.makedirs(base, exist_ok=True)
    model = {}
    if st["model_ok"]:
        res = ctx.run_model([[3, 2, i] for i in range(len(STRATEGIES))])
        for i, (succ, err) in enumerate(res):
            model[STRATEGIES[i]] = (collapse(succ), collapse(err))
    evaluations, covered, kill_points = 0, set(), 0
    samples = []
    jobs = []
    refs = {}
    # reference (uninterrupted) runs, success and handled-error variants
    for s in STRATEGIES:
        for de in (1, 0, 2):
            d = os.path.join(base, "ref_%s_%d" % (s, de))
            inp = prepare(d, s, de)
            rc, lines, err = strace_run(d, s)
            snap = snapshot(d)
            calls = main_syscalls(lines)
            evaluations += 1
            if rc != 0 or "out.bin" not in snap:
                ctx.violation("C13:driver:" + s, "reference run failed rc=%s %s" % (rc, err), {"strategy": s, "dest_exists": de, "stderr": err}, False)
                continue
            if snap["in.bin"] != inp:
                ctx.violation("C13:spec:input-modified", "input modified by %s" % s, {"strategy": s, "dest_exists": de})
            left = [n for n in snap if ".tmp" in n]
            if left:
                ctx.violation("C13:spec:temp-left-after-success", "temporary file left after normal completion (%s): %s" % (s, left), {"strategy": s, "dest_exists": de})
            kinds = op_kinds(calls, d)
            refs[(s, de)] = (snap["out.bin"], calls, kinds)
            if s in model and kinds != model[s][0]:
                ctx.violation("C13:correspondence:" + s, "system-call sequence of the output phase %s differs from the model's op list %s" % (kinds, model[s][0]),
                              {"strategy": s, "dest_exists": de, "trace_ops": kinds, "model_ops": model[s][0], "broken": "correspondence C13.Run (trace vs success_ops)"}, False)
            if len(samples) < 3:
                samples.append({"strategy": s, "dest_exists": de, "output_phase_ops": kinds, "main_thread_syscalls": len(calls), "output_phase": [c[:70] for c in calls if "out.bin" in c][:8]})
        if s in FAILABLE:
            for de in (1, 0, 2):
                d = os.path.join(base, "err_%s_%d" % (s, de))
                inp = prepare(d, s, de)
                rc, lines, err = strace_run(d, s, fail=True)
                snap = snapshot(d)
                evaluations += 1
                kinds = op_kinds(main_syscalls(lines), d)
                if rc == 0:
                    ctx.notes.append("error variant of %s did not fail (rc 0)" % s)
                    continue
                left = [n for n in snap if ".tmp" in n]
                if left:
                    ctx.violation("C13:spec:temp-left-after-error", "temporary file left next to the output after a handled error (%s): %s" % (s, left), {"strategy": s, "dest_exists": de, "stderr": err})
                if snap.get("out.bin") != (OLD if de else None):
                    ctx.violation("C13:spec:dest-changed-on-error", "destination changed although the operation failed (%s)" % s, {"strategy": s, "dest_exists": de})
                if snap["in.bin"] != inp:
                    ctx.violation("C13:spec:input-modified", "input modified by failing %s" % s, {"strategy": s, "dest_exists": de})
                if s in model and kinds and [k for k in kinds if k != 1] != [k for k in model[s][1] if k != 1]:
                    ctx.violation("C13:correspondence-error:" + s, "error-path system calls %s differ from the model %s" % (kinds, model[s][1]),
                                  {"strategy": s, "trace_ops": kinds, "model_ops": model[s][1], "broken": "correspondence C13.Run (trace vs error_ops)"}, False)
    # crash points: SIGKILL injected at the entry of the k-th traced system call of the main thread
    def crash_job(s, de, k):
        d = os.path.join(base, "k_%s_%d_%s_%d" % (s, de, k[0], k[1]))
        inp = prepare(d, s, de)
        rc, lines, err = strace_run(d, s, kill_at=k)
        snap = snapshot(d)
        calls = main_syscalls(lines)
        killed_at = calls[-1] if calls else ""
        shutil.rmtree(d, ignore_errors=True)
        return s, de, k, rc, snap.get("out.bin"), snap.get("in.bin") == inp, killed_at, op_kinds(calls, d)
    for (s, de), (new, calls, kinds) in refs.items():
        # every system call from the creation of the temporary file to the end (thorough: from the very first call),
        # addressed as (name, ordinal of that name on the main thread); plus one ordinal past the end per name
        start = 0
        for i, c in enumerate(calls):
            if "out.bin.tmp" in c and c.startswith("openat"):
                start = i
                break
        if ctx.tier == "thorough":
            start = 0
        counts, pts = {}, []
        for i, c in enumerate(calls):
            name = c.split("(", 1)[0]
            counts[name] = counts.get(name, 0) + 1
            if i >= start:
                pts.append((name, counts[name]))
        for name in set(n for n, _ in pts):
            pts.append((name, counts[name] + 1))
        for k in pts:
            jobs.append((s, de, k))
    with concurrent.futures.ThreadPoolExecutor(max_workers=14) as ex:
        for s, de, k, rc, dest, input_ok, killed_at, kinds in ex.map(lambda j: crash_job(*j), jobs):
            evaluations += 1
            new = refs[(s, de)][0]
            old = OLD if de else None
            if rc in (-9, 137):
                kill_points += 1
                covered.add((s, de, tuple(kinds), re.sub(r"\(.*", "", killed_at)))
            if dest not in (old, new):
                what = "missing" if dest is None else "torn (%d bytes)" % len(dest)
                ctx.violation("C13:spec:crash:%s" % ("dest-missing" if dest is None else "dest-torn"),
                              "%s, destination %s: killed at %s #%d (%s): destination is %s" % (s, ["absent", "present", "a symlink"][int(de)], k[0], k[1], killed_at[:80], what),
                              {"strategy": s, "dest_exists": de, "kill_at": k, "killed_at": killed_at})
            if not input_ok:
                ctx.violation("C13:spec:input-modified", "input modified (%s, kill at %s)" % (s, k), {"strategy": s, "dest_exists": de, "kill_at": k})
    ctx.proof_verdict()
    cov = ctx.proof_coverage(["srcgen: ordered call tables of atomicfile.Commit/Close/New/WriteInPlace, presence of the deferred Close in each strategy",
                              "harness: drv c13op runs one output phase of the real code under strace; SIGKILL injected at syscall entry (strace -e inject=...:signal=SIGKILL:when=k)",
                              "POSIX rename atomicity (the one assumed primitive); durability across power loss (fsync) is outside the property and the model"], FP)
    cov.update({"evaluations": evaluations, "distinct_nontrivial": len(covered),
                "rule": "5 output strategies (WriteFile, whole-file Apply, patch-by-rewrite, MSI copy-then-edit, PGP) x destination present / absent / symbolic link to a regular file; SIGKILL at each traced system call index around and inside the output phase (every index in thorough); distinct = (strategy, destination, ops completed, interrupted syscall) actually killed",
                "samples": samples, "kill_points": kill_points, "exhaustive": ctx.tier == "thorough"})
    return ctx.finish("proof", cov, ["POSIX rename atomicity", "strace per-thread syscall counting on the locked main thread"])
