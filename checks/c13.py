# C13 — interrupted output never leaves a torn or missing file
import concurrent.futures, hashlib, json, os, re, shutil, subprocess
from vlib.common import BUILD, REPO, GOENV, Lock, run as sh

FP = ["lib/atomicfile:", "signers:fileProducer.Apply", "lib/binpatch:PatchSet.applyRewrite", "signers/msi:", "signers/pgp:"]
SYSCALLS = "openat,write,pwrite64,fchmod,fchmodat,close,unlink,unlinkat,rename,renameat,renameat2,ftruncate,copy_file_range,lseek"
STRATEGIES = ["writefile", "whole", "patch", "msi", "pgp"]       # index = position in C13.Model.strategies_defer_close
FAILABLE = ["whole", "patch", "msi", "pgp"]
OLD = b"OLD-DESTINATION-CONTENT\n" * 10

def prepare(d, strategy, dest_exists):
    shutil.rmtree(d, ignore_errors=True)
    os.makedirs(d)
    if strategy == "msi":
        shutil.copyfile(os.path.join(REPO, "functest/packages/dummy.msi"), os.path.join(d, "in.bin"))
    else:
        open(os.path.join(d, "in.bin"), "wb").write(bytes(range(256)) * 20)
    if dest_exists == 2:      # destination is a symbolic link to a regular file
        open(os.path.join(d, "linked-target"), "wb").write(OLD)
        os.symlink("linked-target", os.path.join(d, "out.bin"))
    elif dest_exists:
        open(os.path.join(d, "out.bin"), "wb").write(OLD)
    return open(os.path.join(d, "in.bin"), "rb").read()

def snapshot(d):
    out = {}
    for n in sorted(os.listdir(d)):
        if n.endswith(".trace"):
            continue
        try:
            out[n] = open(os.path.join(d, n), "rb").read()      # follows symbolic links: what a reader of the path sees
        except OSError:
            pass
    return out

def strace_run(d, strategy, fail=False, kill_at=None):
    drv = os.path.join(BUILD, "drv-c13")
    tr = os.path.join(d, "run.trace")
    cmd = ["strace", "-f", "-o", tr, "-e", "trace=" + SYSCALLS]
    if kill_at is not None:   # (syscall name, ordinal among calls of that name in the thread): strace counts per syscall
        cmd += ["-e", "inject=%s:signal=SIGKILL:when=%d" % kill_at]
    cmd += [drv, "c13op", strategy, d] + (["fail"] if fail else [])
    env = dict(os.environ, GOMAXPROCS="1")
    p = subprocess.run(cmd, stdout=subprocess.PIPE, stderr=subprocess.PIPE, env=env, timeout=120)
    lines = open(tr).read().splitlines() if os.path.exists(tr) else []
    try:
        os.remove(tr)
    except OSError:
        pass
    return p.returncode, lines, p.stderr.decode(errors="replace")[-300:]

def main_syscalls(lines):
    """syscall lines of the main thread (first pid in the trace), in order"""
    if not lines:
        return []
    pid = lines[0].split()[0]
    out = []
    for l in lines:
        parts = l.split(None, 1)
        if len(parts) == 2 and parts[0] == pid and re.match(r"[a-z_0-9]+\(", parts[1]):
            out.append(parts[1])
    return out

def op_kinds(calls, d):
    """normalise the output phase of a trace to the model's op kinds (fill = 1, collapsed)"""
    kinds, tmpfd, tmpname = [], None, None
    for c in calls:
        m = re.match(r'openat\(AT_FDCWD, "([^"]*out\.bin\.tmp[^"]*)", [^)]*O_CREAT[^)]*\)\s*=\s*(\d+)', c)
        if m:
            tmpname, tmpfd = m.group(1), m.group(2)
            kinds.append(0)
            continue
        if tmpfd is None:
            continue
        if re.match(r"(write|pwrite64|ftruncate)\(%s[,)]" % tmpfd, c):
            if not kinds or kinds[-1] != 1:
                kinds.append(1)
        elif re.match(r"fchmod\(%s," % tmpfd, c):
            kinds.append(3)
        elif re.match(r"close\(%s\)" % tmpfd, c):
            kinds.append(4)
        elif re.match(r'(unlink|unlinkat)\((AT_FDCWD, )?"[^"]*out\.bin"', c):
            kinds.append(5)
        elif re.match(r"rename", c) and tmpname in c:
            kinds.append(6)
        elif re.match(r"(unlink|unlinkat)\(", c) and tmpname in c:
            kinds.append(7)
    return kinds

def collapse(model_kinds):
    out = []
    for k in model_kinds:
        k = 1 if k == 2 else k
        if k == 1 and out and out[-1] == 1:
            continue
        out.append(k)
    return out


# =====================================================================================================================
# Session 4: every strategy on every kind of destination; SIGKILL at every call of the output phase; an error injected
# into every call of the output phase; sequential signings.  Driver command c13x; model request 1 (C13/Run.v).
# =====================================================================================================================
SYS2 = ("openat,read,pread64,write,pwrite64,lseek,copy_file_range,sendfile,splice,fchmod,fchmodat,close,unlink,unlinkat,"
        "rename,renameat,renameat2,ftruncate,fstat,newfstatat,getppid,fsync,fdatasync,link,linkat,symlinkat,mkdirat")
ERRNO = {"write": "ENOSPC", "pwrite64": "ENOSPC", "copy_file_range": "ENOSPC", "ftruncate": "ENOSPC", "openat": "EACCES",
         "fchmod": "EPERM", "close": "EIO", "renameat": "EACCES", "lseek": "EIO", "read": "EIO", "pread64": "EIO",
         "fstat": "EIO", "newfstatat": "EIO", "unlinkat": "EIO"}
PSEUDO = (21, 22)            # steps of the model that are not system calls (order check, reading the server's response)
NOT_RELIC = (95,)            # Go's os.Rename stats the new name first: not a step of relic's code
COLLAPSE = (1, 8, 16, 24, 14)
CREATE_ERRNOS = ("EACCES", "ENOSPC", "EMFILE", "ENAMETOOLONG", "EDQUOT", "EROFS", "ENFILE", "EPERM")
NOBODY = 65534              # the uid the driver drops to when directory permissions are to apply (scenarios "rodir")
OLD2 = b"PREVIOUS-DESTINATION-CONTENT\n" * 7
INPUT = bytes((i * 7 + 3) % 251 for i in range(5000))
TEXT = b"first line\n-dash escaped line\nlast line without newline"
KIND_NAMES = {0: "create-temp", 1: "write", 2: "pwrite", 3: "fchmod", 4: "close-temp", 5: "unlink-dest", 6: "rename", 7: "unlink-temp",
              8: "copy", 9: "ftruncate", 10: "lseek-input", 11: "close-input", 12: "stat-dest", 13: "fstat-input", 14: "read-input",
              15: "lseek-temp", 16: "pread-temp", 17: "write-stdout", 18: "open-dest-directly", 19: "pwrite-input", 20: "ftruncate-input",
              23: "close-stdout", 24: "pread-input", 28: "write-dest-directly", 29: "close-dest"}


def unhex(sx):
    return bytes.fromhex(sx.replace("\\x", ""))


class Call:
    __slots__ = ("name", "raw", "ret", "strs", "nums", "tail")

    def __init__(self, line):
        self.raw = line[:400]
        self.tail = line[line.rfind('"') + 1:][:300]      # flags and return value (paths are long in \\xNN form)
        self.name = line.split("(", 1)[0]
        m = re.search(r"\)\s*=\s*(-?\d+|\?)[^)]*$", line)
        self.ret = int(m.group(1)) if m and m.group(1) != "?" else None
        self.strs = [unhex(x) for x in re.findall(r'"((?:\\x[0-9a-f]{2})*)"', line)]
        args = re.sub(r'"(?:\\x[0-9a-f]{2})*"(\.\.\.)?', "S", line.split("(", 1)[1] if "(" in line else "")
        args = re.sub(r"\{[^}]*\}", "T", args).rsplit(")", 1)[0]
        self.nums = [int(x) for x in re.findall(r"(?<![\w.])(-?\d+)(?![\w.])", args)]


def main_calls(lines, pid=None):
    """the system calls of one thread (default: the first one in the trace), `<unfinished ...>` / `<... resumed>` pairs joined"""
    calls, pending = [], None
    if not lines:
        return calls
    pid = pid or lines[0].split()[0]
    for l in lines:
        parts = l.split(None, 1)
        if len(parts) != 2 or parts[0] != pid:
            continue
        t = parts[1]
        if t.endswith("<unfinished ...>"):
            pending = t[:-len("<unfinished ...>")]
            continue
        m = re.match(r"<\.\.\. [a-z_0-9]+ resumed>(.*)$", t)
        if m and pending is not None:
            t, pending = pending + m.group(1), None
        if re.match(r"[a-z_0-9]+\(", t):
            calls.append(Call(t))
    if pending is not None and re.match(r"[a-z_0-9]+\(", pending):
        calls.append(Call(pending))          # killed inside the call
    return calls


def run_x(d, spec, kill=None, fail=None, full=False):
    """one output phase of the real code under strace; kill / fail = (syscall name, ordinal) on the main thread"""
    drv = os.path.join(BUILD, "drv-c13")
    tr = os.path.join(d, "x.trace")
    cmd = ["strace", "-f", "-o", tr, "-xx", "-s", "200000" if full else "700", "-e", "trace=" + SYS2]
    if kill:
        cmd += ["-e", "inject=%s:signal=SIGKILL:when=%d" % kill]
    for f in (fail or []):
        cmd += ["-e", "inject=%s:error=%s:when=%d" % (f[0], f[2] if len(f) > 2 else ERRNO.get(f[0], "EIO"), f[1])]
    cmd += [drv, "c13x", spec]
    p = subprocess.run(cmd, stdout=subprocess.PIPE, stderr=subprocess.PIPE, env=dict(os.environ, GOMAXPROCS="1"), timeout=120)
    lines = open(tr).read().splitlines() if os.path.exists(tr) else []
    try:
        os.remove(tr)
    except OSError:
        pass
    return p.returncode, main_calls(lines), p.stdout, p.stderr.decode(errors="replace")[-300:]


class Scenario:
    """builds the directory, the driver's spec and the model's description of one output phase"""

    def __init__(self, base, name, strategy, dest_kind, **kw):
        self.name, self.strategy, self.dest_kind, self.kw = name, strategy, dest_kind, kw
        self.root = os.path.join(base, name)
        self.d = os.path.join(self.root, "w")          # the directory that holds input and output
        self.side = os.path.join(self.root, "side")    # what the server would have sent, the specs
        self.first = kw.get("first")                   # a signing run to completion before this one (sequential signings)
        self.family = strategy + ("-clearsign" if kw.get("clearsign") else "-inline-armor" if kw.get("inline") and kw.get("armor") else "-inline" if kw.get("inline") else "")

    def input_bytes(self):
        if self.strategy == "msi":
            return open(os.path.join(REPO, "functest/packages/dummy.msi"), "rb").read()
        if self.strategy == "pgp" and (self.kw.get("inline") or self.kw.get("clearsign")):
            return TEXT
        return INPUT

    def build(self, sigs):
        shutil.rmtree(self.root, ignore_errors=True)
        os.makedirs(os.path.join(self.d, "sub"))
        os.makedirs(self.side)
        d, k = self.d, self.dest_kind
        self.inp = os.path.join(d, "in.bin")
        open(self.inp, "wb").write(self.input_bytes())
        self.dest = os.path.join(d, "out.bin")
        if k == "regular":
            open(self.dest, "wb").write(OLD2)
        elif k == "symlink":
            open(os.path.join(d, "target.bin"), "wb").write(OLD2)
            os.symlink("target.bin", self.dest)
        elif k == "same":
            self.dest = self.inp
        elif k == "link-to-input":
            os.symlink("in.bin", self.dest)
        elif k == "hardlink":
            os.link(self.inp, self.dest)
        elif k == "dangling":
            os.symlink("nowhere.bin", self.dest)
        elif k == "otherdir":
            self.dest = os.path.join(d, "sub", "out.bin")
            open(self.dest, "wb").write(OLD2)
        elif k == "linkdir":
            os.symlink("sub", os.path.join(d, "ldir"))
            self.dest = os.path.join(d, "ldir", "out.bin")
        elif k == "dash":
            self.dest = "-"
        elif k == "devnull":
            os.symlink("/dev/null", self.dest)
        # ---- destinations next to which the sibling temporary cannot be created (the open phase fails)
        self.uid, self.nofile = 0, False
        m = re.match(r"long(\d+)(-absent)?$", k)
        if m:                                            # base name of N bytes: <name>.tmp<random> exceeds NAME_MAX from N = 242 on
            n = int(m.group(1))
            self.dest = os.path.join(d, ("L%d-" % n + "x" * n)[:n])
            if not m.group(2):
                open(self.dest, "wb").write(OLD2)
        elif k in ("rodir", "rodir-absent"):             # directory without write permission, destination itself writable
            self.uid = NOBODY
            if k == "rodir":
                open(self.dest, "wb").write(OLD2)
                os.chmod(self.dest, 0o666)
        elif k in ("emfile", "emfile-absent"):           # no descriptor left: open of anything fails with EMFILE
            self.nofile = True
            if k == "emfile":
                open(self.dest, "wb").write(OLD2)
        self.special = self.dest != "-" and os.path.exists(self.dest) and not os.path.isfile(self.dest)
        self.resigned = False
        if self.first is not None:                      # a complete earlier signing to the same destination
            fp = os.path.join(self.side, "first.json")
            json.dump(self.spec_obj(self.first, sigs), open(fp, "w"))
            rc, _, _, err = run_x(self.side, fp)
            if rc != 0:
                raise RuntimeError("first signing of %s failed: %s" % (self.name, err))
            if self.kw.get("resign"):                   # the second signing reads what the first one wrote
                self.inp, self.resigned = self.dest, True
        self.spec = os.path.join(self.side, "spec.json")
        json.dump(self.spec_obj(self.kw, sigs), open(self.spec, "w"))
        self.old = self.read_dest()
        self.input0 = open(self.inp, "rb").read()
        self.nlink = os.lstat(self.dest).st_nlink if self.dest != "-" and os.path.lexists(self.dest) else 0
        self.in_place_name = (self.dest == self.inp)
        if self.uid:
            for pth in (self.root, self.side):
                os.chmod(pth, 0o755)
            os.chmod(self.d, 0o555)

    def spec_obj(self, kw, sigs):
        sp = {"strategy": self.strategy, "in": self.inp, "dest": self.dest, "rw": self.dest == self.inp}
        if getattr(self, "uid", 0):
            sp["uid"] = self.uid
        if getattr(self, "nofile", False):
            sp["nofile"] = True
        pay = kw.get("payload")
        if self.strategy == "pgp":
            sp.update({"inline": bool(kw.get("inline")), "clearsign": bool(kw.get("clearsign")), "armor": bool(kw.get("armor"))})
            if pay is None:
                pay = sigs["sig_clearsign" if kw.get("clearsign") else "sig_inline" if kw.get("inline") else "sig_detached"]
        if self.strategy == "msi" and pay is None:
            pay = bytes([0x30, 0x82]) * 3000
        if pay is not None:
            pf = os.path.join(self.side, "payload-%d.bin" % len(os.listdir(self.side)))
            open(pf, "wb").write(pay)
            sp["payload"] = pf
        if "patches" in kw:
            sp["patches"] = [{"off": o, "old": n, "blob": b.hex()} for o, n, b in kw["patches"]]
            sp["unsorted"] = bool(kw.get("unsorted"))
        return sp

    def read_dest(self):
        if self.dest == "-":
            return None
        try:
            return open(self.dest, "rb").read()
        except OSError:
            return None

    def listing(self):
        out = {}
        for root, dirs, files in os.walk(self.d):
            for n in files + [x for x in dirs if os.path.islink(os.path.join(root, x))]:
                pth = os.path.join(root, n)
                rel = os.path.relpath(pth, self.d)
                if os.path.islink(pth):
                    out[rel] = "-> " + os.readlink(pth)
                else:
                    try:
                        out[rel] = hashlib.sha256(open(pth, "rb").read()).hexdigest()[:16]
                    except OSError:
                        out[rel] = "?"
        return out

    def clone(self, tag):
        """an identical, independent copy (hard links and symbolic links kept) for one interrupted run"""
        c = Scenario.__new__(Scenario)
        c.__dict__.update(self.__dict__)
        c.root = self.root + "." + tag
        shutil.rmtree(c.root, ignore_errors=True)
        subprocess.run(["cp", "-a", self.root, c.root], check=True)
        c.d, c.side = os.path.join(c.root, "w"), os.path.join(c.root, "side")
        rel = lambda pth: pth if pth == "-" else os.path.join(c.root, os.path.relpath(pth, self.root))
        c.inp, c.dest = rel(self.inp), rel(self.dest)
        sp = json.load(open(self.spec))
        for key in ("in", "dest", "payload"):
            if key in sp:
                sp[key] = rel(sp[key])
        c.spec = os.path.join(c.side, "spec.json")
        json.dump(sp, open(c.spec, "w"))
        return c

    # the model's description of the file system before the output phase: names 1 input, 2 destination, 3 temporary,
    # 5 target of a link; inodes 10 input, 11 destination, 12 link target, 20 temporary
    def model_fs(self):
        k = self.dest_kind
        dirents, inodes, pd = [[1, 0, 10]], [[10, self.input0]], 2
        if self.resigned or k == "same":
            pd = 1
        elif k == "hardlink" and self.first is None:
            dirents.append([2, 0, 10])
        elif k == "link-to-input" and self.first is None:
            dirents.append([2, 1, 1])
        elif k == "dangling" and self.first is None:
            dirents.append([2, 1, 6])
        elif k == "devnull":
            dirents += [[2, 1, 7], [7, 2, 0]]
        elif k == "symlink" and self.first is None:
            dirents += [[2, 1, 5], [5, 0, 12]]
            inodes.append([12, OLD2])
        elif self.old is not None:
            dirents.append([2, 0, 11])
            inodes.append([11, self.old])
        return dirents, inodes, pd


def decode_phase(sc, calls):
    """calls after the marker -> events {k kind, a amount, i index into calls, data, off, ok}"""
    start = next((i for i, c in enumerate(calls) if c.name == "getppid"), None)
    if start is None:
        return None
    infd = None
    for c in calls[:start]:
        if c.name == "openat" and c.strs and c.strs[0].decode(errors="replace") == sc.inp and c.ret is not None and c.ret >= 0:
            infd = c.ret
    ev, tmpfd, tmpname, destfd = [], None, None, None
    destb = sc.dest.encode()
    for i in range(start + 1, len(calls)):
        c = calls[i]
        a = c.nums
        fd = a[0] if a else None
        n, k, amt, data, off = c.name, 96, 0, None, 0
        ok = c.ret is not None and c.ret >= 0
        istmp = tmpfd is not None and fd == tmpfd
        isdest = destfd is not None and fd == destfd
        if n == "openat":
            pth = c.strs[0] if c.strs else b""
            if "O_EXCL" in c.tail and b".tmp" in os.path.basename(pth):
                k = 0
                if ok:
                    tmpfd, tmpname = c.ret, pth
            elif pth == destb and any(f in c.tail for f in ("O_TRUNC", "O_WRONLY", "O_RDWR", "O_CREAT", "O_APPEND")):
                k = 18                               # the destination itself opened for writing
                if ok:
                    destfd = c.ret
            else:
                k = 99
        elif n == "fstat":
            k = 13 if fd == infd else 98
        elif n == "newfstatat":
            k = 12 if c.strs and c.strs[0] == destb else 13 if c.strs and c.strs[0] == b"" and fd == infd else 98
        elif n == "lseek":
            k = 10 if fd == infd else 15 if istmp else 98
        elif n == "write":
            k = 1 if istmp else 17 if fd == 1 else 28 if isdest else 98
            amt, data = (c.ret if ok else 0), (c.strs[0] if c.strs else None)
        elif n == "pwrite64":
            k = 2 if istmp else 19 if fd == infd else 28 if isdest else 98
            amt, data, off = (c.ret if ok else 0), (c.strs[0] if c.strs else None), (a[-1] if a else 0)
        elif n == "copy_file_range":
            k, amt = 8, (c.ret if ok else 0)
        elif n == "read":
            k = (14 if sc.strategy == "pgp" else 8) if fd == infd else 98
        elif n == "pread64":
            k = 16 if istmp else 24 if fd == infd else 98
        elif n == "ftruncate":
            k, amt = (9 if istmp else 20 if fd == infd else 98), (a[1] if len(a) > 1 else 0)
        elif n in ("fchmod", "fchmodat"):
            k = 3
        elif n == "close":
            k = 4 if istmp else 11 if fd == infd else 23 if fd == 1 else 29 if isdest else 98
            if isdest and ok:
                destfd = None
        elif n in ("rename", "renameat", "renameat2"):
            k = 6 if tmpname is not None and c.strs and c.strs[0] == tmpname and c.strs[-1] == destb else 97
        elif n in ("unlink", "unlinkat"):
            k = 7 if tmpname is not None and c.strs and c.strs[0] == tmpname else 5 if c.strs and c.strs[0] == destb else 97
        ev.append({"k": k, "a": amt, "i": i, "data": data, "off": off, "ok": ok, "name": n})
    for j, e in enumerate(ev):
        if e["k"] == 12 and j + 1 < len(ev) and ev[j + 1]["k"] == 6:
            e["k"] = 95
    return {"start": start, "events": ev, "infd": infd, "tmpname": tmpname}


def collapse2(pairs):
    """[(kind, amount)] with runs of data transfer calls of one kind merged (a copy is as many calls as the kernel likes)"""
    out = []
    for k, a in pairs:
        if k in PSEUDO or k in NOT_RELIC or k == 98:
            continue
        if out and out[-1][0] == k and k in COLLAPSE:
            out[-1][1] += a
        else:
            out.append([k, a])
    return out


def kinds_of(pairs):
    return [k for k, _ in collapse2(pairs)]


def coalesce(ps):
    """PatchSet.Add merges a patch that starts where the previous one ended (sorted input here)"""
    out = []
    for o, n, b in ps:
        if out and o == out[-1][0] + out[-1][1]:
            out[-1][1] += n
            out[-1][2] += b
        else:
            out.append([o, n, b])
    return out


def open_env(events):
    """the environment of the open phase as the trace shows it: [creation of the sibling failed, os.Create failed, os.OpenFile failed]"""
    tf = 1 if any(e["k"] == 0 and not e["ok"] for e in events) else 0
    df = 1 if any(e["k"] == 18 and not e["ok"] for e in events) else 0
    return [tf, df, df]


def model_request(sc, events, env=None):
    dirents, inodes, pd = sc.model_fs()
    st, sp = sc.strategy, json.load(open(sc.spec))
    is_dash = 1 if sc.dest == "-" else 0
    if st == "whole":
        pay = open(sp["payload"], "rb").read()
        args, sid = [is_dash, [pay[i:i + 32768] for i in range(0, len(pay), 32768)]], 0
    elif st == "writefile":
        args, sid = [is_dash, open(sp["payload"], "rb").read()], 1
    elif st == "patch":
        ps = [[p["off"], p["old"], bytes.fromhex(p["blob"])] for p in sp["patches"]]
        if not sp.get("unsorted"):
            ps = coalesce(sorted(ps, key=lambda p: p[0]))
        args, sid = [sc.nlink, ps, 1 if sp.get("rw") else 0], 2
    elif st == "msi":
        # what comdoc writes into the copy is its own business (property C18); the edits are read off the trace
        edits = []
        for e in events:
            if e["k"] in (2, 19):
                edits.append([0, e["off"], e["data"] or b""])
            elif e["k"] in (9, 20):
                edits.append([1, e["a"]])
        args, sid = [1 if sc.in_place_name else 0, sum(1 for e in events if e["k"] in (16, 24)), edits], 3
    else:
        # what go-crypto writes for a merge is its own business; reads of the input and writes are read off the trace
        # (the first lseek on the input is pgpTransformer.Apply's own rewind before a merge; later ones are getSize's)
        io, rewound = [], not (sc.kw.get("inline") or sc.kw.get("clearsign"))
        wr = [e for e in events if e["k"] in (1, 17, 28)]
        # armor: the write just before "\n=" + CRC is the encoder's last line, the one whose error go-crypto itself drops
        last_line = next((wr[i - 1]["i"] for i in range(1, len(wr)) if (wr[i]["data"] or b"").startswith(b"\n=")), None) if sc.kw.get("armor") else None
        for e in events:
            if e["k"] == 14:
                io.append([0])
            elif e["k"] in (1, 17, 28):
                io.append([3 if e["i"] == last_line else 1, e["data"] or b""])
            elif e["k"] == 10:
                if rewound:
                    io.append([2])
                rewound = True
        args, sid = [is_dash, 1 if sc.kw.get("inline") else 0, 1 if sc.kw.get("clearsign") else 0, io], 4
    return [1, sid, dirents, inodes, 1, pd, 3, 20, args, env if env is not None else open_env(events)]


def scenarios(base, tier):
    S = lambda *a, **kw: out.append(Scenario(base, *a, **kw))
    out = []
    pay = bytes((i * 13 + 5) % 256 for i in range(40000))          # two write calls
    mid = [(8, 4, b"PATCHED!"), (3000, 0, b"INSERTED-IN-THE-MIDDLE")]  # sizes change: never in place
    same = [(8, 8, b"SAMESIZE"), (100, 3, b"abc")]                    # every patch keeps its size: in place when the names agree
    grow = [(8, 8, b"SAMESIZE"), (4990, 10, b"TAIL-GROWS-PAST-THE-OLD-END")]   # the last patch ends at the end of the input
    for dk in ("absent", "regular", "symlink", "dangling", "otherdir", "linkdir", "same", "dash", "devnull"):
        S("whole-" + dk, "whole", dk, payload=pay)
    S("whole-empty", "whole", "regular", payload=b"")
    S("whole-32768", "whole", "absent", payload=pay[:32768])
    for dk in ("absent", "regular", "symlink", "dash"):
        S("writefile-" + dk, "writefile", dk, payload=pay[:9000])
    for dk in ("absent", "regular", "symlink", "same", "link-to-input", "hardlink", "dangling", "otherdir", "linkdir"):
        S("patch-mid-" + dk, "patch", dk, patches=mid)
    for dk in ("same", "hardlink", "link-to-input", "regular"):
        S("patch-samesize-" + dk, "patch", dk, patches=same)
    S("patch-grow-same", "patch", "same", patches=grow)
    S("patch-grow-absent", "patch", "absent", patches=grow)
    S("patch-none", "patch", "regular", patches=[])
    S("patch-emptyblob", "patch", "absent", patches=[(0, 16, b""), (5000, 0, b"AT-EOF")])
    S("patch-start", "patch", "regular", patches=[(0, 0, b"AT-START")])
    S("patch-outoforder", "patch", "regular", patches=[(3000, 4, b"second"), (8, 4, b"first")], unsorted=True)
    S("patch-beyond-eof", "patch", "regular", patches=[(8, 4, b"ok"), (6000, 0, b"beyond the end of the input")])
    S("patch-overlap", "patch", "absent", patches=[(100, 50, b"one"), (120, 10, b"two")], unsorted=True)
    for dk in ("absent", "regular", "symlink", "same", "link-to-input", "hardlink", "otherdir"):
        S("msi-" + dk, "msi", dk)
    for dk in ("absent", "regular", "symlink", "dash"):
        S("pgp-detached-" + dk, "pgp", dk)
        S("pgp-clearsign-" + dk, "pgp", dk, clearsign=True)
    S("pgp-inline-absent", "pgp", "absent", inline=True)
    S("pgp-inline-regular", "pgp", "regular", inline=True)
    S("pgp-inline-armor", "pgp", "regular", inline=True, armor=True)
    # two signings one after the other: the second starts from the complete output of the first
    S("seq-whole", "whole", "absent", payload=pay[:20000][::-1], first={"payload": pay})
    S("seq-whole-symlink", "whole", "symlink", payload=pay[:20000][::-1], first={"payload": pay})
    S("seq-patch-resign", "patch", "absent", patches=[(16, 8, b"SECOND-SIGNATURE")], first={"patches": mid}, resign=True)
    S("seq-patch-resign-inplace", "patch", "regular", patches=[(16, 8, b"8-BYTES!")], first={"patches": mid}, resign=True)
    S("seq-msi-resign", "msi", "absent", first={}, resign=True, payload=bytes([0x30, 0x83]) * 2500)
    S("seq-msi", "msi", "regular", first={}, payload=bytes([0x30, 0x83]) * 2500)
    S("seq-pgp-clearsign", "pgp", "regular", clearsign=True, first={"clearsign": True})
    # ---- the sibling temporary cannot be created: <name>.tmp<up to 10 digits> exceeds NAME_MAX (255) for base names of 242 bytes and
    # more (242..250: depending on the random suffix; 251..255: always), the directory is not writable for the user while the
    # destination is, no descriptor is left.  Every strategy that stages through WriteAny / New, destination present and absent.
    stage = [("whole", "whole", dict(payload=pay)), ("writefile", "writefile", dict(payload=pay[:9000])), ("pgp-detached", "pgp", {}),
             ("pgp-clearsign", "pgp", dict(clearsign=True)), ("pgp-inline", "pgp", dict(inline=True)),
             ("patch-mid", "patch", dict(patches=mid)), ("msi", "msi", {})]
    kinds = ["long251", "long255"] + (["rodir"] if os.geteuid() == 0 else []) + ["emfile"]
    for tag, strat, kw in stage:
        for dk in kinds:
            for ab in ("", "-absent"):
                S("stage-%s-%s%s" % (tag, dk, ab), strat, dk + ab, **kw)
    # the random suffix decides (242, 246, 250): judged by the property text only, never compared with the model
    for tag, strat, kw in stage[:3]:
        for n in (242, 246, 250):
            S("stage-%s-long%d" % (tag, n), strat, "long%d" % n, loose=True, **kw)
    S("stage-pgp-detached-long242-absent", "pgp", "long242-absent", loose=True)
    S("stage-whole-long246-absent", "whole", "long246-absent", loose=True, payload=pay)
    # the longest names that still leave room for the suffix: ordinary protocol runs
    S("stage-whole-long230", "whole", "long230", payload=pay)
    S("stage-whole-long241", "whole", "long241", payload=pay)
    S("stage-pgp-clearsign-long241-absent", "pgp", "long241-absent", clearsign=True)
    return out


def pgp_packets(b):
    """RFC 4880 packet framing, written from the RFC: [(tag, body)] or None when the framing is broken or truncated"""
    i, out = 0, []
    while i < len(b):
        t = b[i]
        i += 1
        if not t & 0x80:
            return None
        body = b""
        if t & 0x40:
            tag = t & 0x3f
            while True:
                if i >= len(b):
                    return None
                l = b[i]
                i += 1
                partial = False
                if l < 192:
                    n = l
                elif l < 224:
                    if i >= len(b):
                        return None
                    n = ((l - 192) << 8) + b[i] + 192
                    i += 1
                elif l == 255:
                    n = int.from_bytes(b[i:i + 4], "big")
                    i += 4
                else:
                    n, partial = 1 << (l & 0x1f), True
                if i + n > len(b):
                    return None
                body += b[i:i + n]
                i += n
                if not partial:
                    break
        else:
            tag, lt = (t >> 2) & 0xf, t & 3
            if lt == 3:
                body, i = b[i:], len(b)
            else:
                w = (1, 2, 4)[lt]
                n = int.from_bytes(b[i:i + w], "big")
                i += w
                if i + n > len(b):
                    return None
                body = b[i:i + n]
                i += n
        out.append((tag, body))
    return out


def pgp_inline_payload(blob):
    """the literal data of an inline-signed message (one-pass signature, literal data, signature), armored or not; None if it is not one"""
    import base64
    if blob.startswith(b"-----BEGIN PGP MESSAGE-----"):
        try:
            lines = blob.replace(b"\r\n", b"\n").split(b"\n")
            k = lines.index(b"")
            body = []
            for l in lines[k + 1:]:
                if l.startswith(b"=") or l.startswith(b"-----END"):
                    break
                body.append(l)
            blob = base64.b64decode(b"".join(body), validate=True)
        except Exception:
            return None
    pk = pgp_packets(blob)
    if not pk or [t for t, _ in pk] != [4, 11, 2]:
        return None
    lit = pk[1][1]
    if len(lit) < 6:
        return None
    return lit[2 + lit[1] + 4:]


def observe_dir(sc, new):
    """what the property talks about, read from the directory: (dest class, temporaries, input intact, listing)"""
    dest = sc.read_dest()
    cls = 0 if dest is None else 1 if dest == sc.old else 2 if dest == new else 3
    if cls == 3 and sc.family.startswith("pgp-inline") and new is not None and pgp_inline_payload(dest) == sc.input0:
        cls = 2       # a complete inline-signed message carrying the whole input, in another packet framing (streamed literal)
    temps = sorted(n for n in sc.listing() if ".tmp" in os.path.basename(n))
    try:
        inp = open(sc.inp, "rb").read()
    except OSError:
        inp = None
    if sc.in_place_name:
        input_ok = inp is not None
    else:
        input_ok = inp == sc.input0
    return cls, temps, input_ok, dest


def pe_fixup(ctx, st, base, stats):
    """pe-coff through the real command line: `relic sign` commits the output by rename and THEN fixes the PE checksum in place
    (cmdline/token/signcmd.go: mod.Fixup after transform.Apply).  Killed before that pwrite64 the destination is neither the
    previous nor the final content."""
    relic = os.path.join(BUILD, "relic")
    with Lock("relic_bin"):
        rc, out, err, _ = sh(["go", "build", "-o", relic, "."], cwd=REPO, env=GOENV, timeout=1200)
    if rc != 0:
        stats["skipped"].append("pe-fixup: relic binary does not build: " + err[-200:])
        return
    d = os.path.join(base, "pe-fixup")
    os.makedirs(d)
    keys = os.path.join(REPO, "functest/testkeys")
    conf = os.path.join(d, "relic.yml")
    open(conf, "w").write("tokens:\n  file:\n    type: file\nkeys:\n  rsa2048:\n    token: file\n    keyfile: %s/rsa2048.key\n    x509certificate: %s/rsa2048.crt\n" % (keys, keys))
    inp, dest = os.path.join(d, "in.dll"), os.path.join(d, "out.dll")
    shutil.copyfile(os.path.join(REPO, "functest/packages/ClassLibrary1.dll"), inp)
    cmd = [relic, "-c", conf, "sign", "-k", "rsa2048", "-f", inp, "-o", dest]

    def attempt(inject):
        open(dest, "wb").write(OLD2)
        tr = os.path.join(d, "pe.trace")
        p = subprocess.run(["strace", "-f", "-o", tr, "-e", "trace=openat,lseek,read,pwrite64,renameat"] + inject + cmd,
                           stdout=subprocess.PIPE, stderr=subprocess.PIPE, timeout=180)
        lines = open(tr).read().splitlines() if os.path.exists(tr) else []
        got = open(dest, "rb").read() if os.path.exists(dest) else None
        return p.returncode, lines, got, p.stderr.decode(errors="replace")[-300:]

    rc, lines, final, err = attempt([])
    stats["runs"] += 1
    if rc != 0 or final is None:
        stats["skipped"].append("pe-fixup: relic sign failed (%s) %s" % (rc, err))
        return
    pw = [l for l in lines if re.search(r"\bpwrite64\(", l)]
    ren = [i for i, l in enumerate(lines) if "renameat(" in l and "out.dll" in l]
    tail = []
    if ren:
        fd = None
        for l in lines[ren[-1] + 1:]:       # the goroutine may move between threads: every thread, in time order
            m = re.search(r'openat\(AT_FDCWD, "[^"]*out\.dll", O_RDWR[^)]*\)\s*=\s*(\d+)', l)
            if m:
                fd = m.group(1)
                tail.append(25)
            elif fd and re.search(r"\blseek\(%s," % fd, l):
                tail.append(26)
            elif fd and re.search(r"\bread\(%s," % fd, l):
                if not tail or tail[-1] != 27:
                    tail.append(27)
            elif fd and re.search(r"\bpwrite64\(%s," % fd, l):
                tail.append(2)
    stats["pe_fixup"] = {"calls_after_rename": [KIND_NAMES.get(k, {25: "open-dest-rw", 26: "lseek-dest", 27: "read-dest"}.get(k, k)) for k in tail], "pwrite64_calls": len(pw)}
    if st["model_ok"]:
        m = re.search(r"pwrite64\(\d+, \"[^\"]*\"(?:\.\.\.)?, (\d+), (\d+)\)", pw[-1]) if pw else None
        off = int(m.group(2)) if m else 0
        res = ctx.run_model([[1, 5, [[1, 0, 10], [2, 0, 11]], [[10, b"MZ" + bytes(62)], [11, OLD2]], 1, 2, 3, 20, [[[8, 0, b"sig"]], 1, off, b"\x01\x02\x03\x04"]]])[0]
        kinds = [o[0] for o in res[1]]
        mtail = []
        for k in kinds[kinds.index(6) + 1:] if 6 in kinds else []:
            if not (k == 27 and mtail and mtail[-1] == 27):
                mtail.append(k)
        if mtail != tail or res[2]:
            ctx.violation("C13:correspondence:pe-fixup", "calls after the rename %s differ from the model's fixup steps %s (accepted=%s)" % (tail, mtail, res[2]),
                          {"real": tail, "model": mtail, "broken": "correspondence C13.Run (pe_sign_plan)"}, False)
    if len(pw) != 1:
        stats["skipped"].append("pe-fixup: expected exactly one pwrite64 in the whole run, saw %d" % len(pw))
        return
    rc2, lines2, got, err2 = attempt(["-e", "inject=pwrite64:signal=SIGKILL:when=1"])
    stats["runs"] += 1
    stats["kill_points"] += 1
    if got is not None and got != OLD2 and got != final:
        diff = [i for i in range(min(len(got), len(final))) if got[i] != final[i]]
        ctx.violation("C13:fixup-after-commit:pe-checksum",
                      "relic sign -T pe-coff -o <other file>: killed at the pwrite64 of FixPEChecksum (after the rename committed the output): the destination is neither the previous content nor the final content (%d bytes differ from the final file at offsets %s: the PE checksum field)" % (len(diff), diff[:8]),
                      {"command": cmd, "kill_at": ["pwrite64", 1], "exit": rc2, "dest_len": len(got), "final_len": len(final), "differing_offsets": diff[:16],
                       "reproduce": "strace -f -e trace=pwrite64 -e inject=pwrite64:signal=SIGKILL:when=1 relic -c relic.yml sign -k rsa2048 -f ClassLibrary1.dll -o out.dll"})
    elif got == final:
        ctx.notes.append("pe-fixup: the kill at pwrite64 #1 left the final content (checksum already correct?)")


def extended(ctx, st):
    base = os.path.join(ctx.scratch, "c13x")
    os.makedirs(base, exist_ok=True)
    for pth in (ctx.scratch, base):          # the driver gives up root in the "rodir" scenarios and still has to reach its files
        os.chmod(pth, 0o711)
    side = os.path.join(base, "prep")
    os.makedirs(side)
    open(os.path.join(side, "text.txt"), "wb").write(TEXT)
    rc, out, err, _ = sh([os.path.join(BUILD, "drv-c13"), "c13prep", side, os.path.join(side, "text.txt")], timeout=120)
    if rc != 0:
        ctx.violation("C13:driver:c13prep", "preparing OpenPGP signatures failed: " + err[-300:], {"stderr": err[-2000:]}, False)
        return {}
    sigs = {n: open(os.path.join(side, n), "rb").read() for n in os.listdir(side) if n.startswith("sig_")}
    scs = scenarios(base, ctx.tier)
    if os.geteuid() != 0:
        ctx.notes.append("not running as root: the unwritable-directory scenarios (driver drops to uid %d) are skipped" % NOBODY)
    stats = {"scenarios": 0, "runs": 0, "kill_points": 0, "fault_points": 0, "model_compared": 0, "modes": {}, "distinct": set(),
             "staging": {"scenarios": 0, "temp_create_failed": 0, "by_errno": {}, "kill_points": 0, "fault_points": 0, "went_on_after_failure": 0,
                         "env_compared": 0, "injected_errno": {}},
             "natural_failures": 0, "in_place": 0, "double_fault_replays": 0, "ignored_failures": 0, "samples": [], "skipped": []}
    refs = []
    # ---------------------------------------------------------------- reference runs (uninterrupted), model evaluation
    for sc in scs:
        try:
            sc.build(sigs)
        except Exception as e:
            ctx.violation("C13:driver:build:" + sc.name, "scenario could not be built: %s" % e, {"scenario": sc.name}, False)
            continue
        ref = sc.clone("ref")
        rc, calls, out, err = run_x(ref.side, ref.spec, full=True)
        stats["runs"] += 1
        ph = decode_phase(ref, calls)
        if ph is None:
            ctx.violation("C13:driver:" + sc.name, "no output phase in the trace (rc=%s %s)" % (rc, err), {"scenario": sc.name, "stderr": err}, False)
            continue
        cls, temps, input_ok, dest = observe_dir(ref, None)
        new = dest if rc == 0 else None
        # "the complete new content" is known without running anything when the strategy writes what the server returned as it is
        want_new = None
        if sc.dest != "-" and (sc.strategy in ("whole", "writefile") or sc.family == "pgp"):
            want_new = open(json.load(open(sc.spec))["payload"], "rb").read()
            if rc != 0:
                new = want_new       # (a run of the same scenario may get further than this one did: the random suffix of the temporary)
        sc.ref = {"rc": rc, "calls": calls, "phase": ph, "new": new, "stdout": out, "listing": ref.listing(),
                  # the property exempts a destination that is patched in place (seen in the trace); a special file (device, pipe:
                  # what stat reports before the run) is written directly.  A regular or absent destination opened directly is NOT exempt.
                  "exempt": sc.special or any(e["k"] in (19, 20) for e in ph["events"])}
        stats["scenarios"] += 1
        if sc.name.startswith("stage-"):
            stats["staging"]["scenarios"] += 1
            failed = [e for e in ph["events"] if e["k"] == 0 and not e["ok"]]
            if failed:
                stats["staging"]["temp_create_failed"] += 1
                en = re.search(r"= -1 (E[A-Z]+)", calls[failed[0]["i"]].tail or "")
                en = en.group(1) if en else "?"
                stats["staging"]["by_errno"][en] = stats["staging"]["by_errno"].get(en, 0) + 1
                if any(e["k"] in (18, 28, 1, 2, 6) for e in ph["events"][ph["events"].index(failed[0]) + 1:]):
                    stats["staging"]["went_on_after_failure"] += 1
        desc = {"scenario": sc.name, "strategy": sc.strategy, "destination": sc.dest_kind, "spec": json.load(open(ref.spec)), "rc": rc}
        # ---- model-free oracle: normal completion or handled error
        if temps:
            ctx.violation("C13:spec:temp-left-after-%s" % ("success" if rc == 0 else "error"),
                          "%s: temporary file left next to the output after %s: %s" % (sc.name, "normal completion" if rc == 0 else "a handled error", temps), dict(desc, temps=temps))
        if not input_ok:
            ctx.violation("C13:spec:input-modified", "%s: input file modified" % sc.name, desc)
        if rc != 0 and dest != sc.old:
            ctx.violation("C13:spec:dest-changed-on-error", "%s: destination changed although the operation failed" % sc.name, desc)
        # "the complete new content": for a whole-file write / WriteFile / detached signature that is exactly what the server returned
        if rc == 0 and want_new is not None and not sc.special:
            if dest != want_new:
                ctx.violation("C13:spec:complete:not-the-new-content:" + sc.family,
                              "%s: after normal completion the destination holds %d bytes that are not the %d bytes of the new content" % (sc.name, len(dest or b""), len(want_new)), desc)
        if sc.dest == "-" and rc == 0 and not out:
            ctx.violation("C13:spec:stdout-empty", "%s: nothing written to standard output" % sc.name, desc, False)
        shutil.rmtree(ref.root, ignore_errors=True)
        refs.append(sc)
    # ---- model on the same cases
    model = {}
    model_tf = {}        # the same scenarios in the environment "the creation of the temporary fails" (for the injected EACCES)
    if st["model_ok"] and refs:
        mrefs = [sc for sc in refs if not sc.kw.get("loose")]
        reqs = [model_request(sc, sc.ref["phase"]["events"]) for sc in mrefs]
        reqs_tf = [model_request(sc, sc.ref["phase"]["events"], env=[1, 0, 0]) for sc in mrefs]
        try:
            res = ctx.run_model(reqs + reqs_tf, timeout=600)
        except Exception as e:
            ctx.violation("C13:model-run", "model evaluation failed: %s" % e, {"error": str(e)}, False)
            res = []
        for sc, r in zip(mrefs, res[len(mrefs):]):
            model_tf[sc.name] = {"mode": r[0], "natural": r[3], "final": r[4], "went_on": r[7], "ops": [tuple(o) for o in r[1]]}
        for sc, r in zip(mrefs, res[:len(mrefs)]):
            mode, ops, accepted, natural, final, crashes, faults, went_on = r
            model[sc.name] = {"mode": mode, "ops": [tuple(o) for o in ops], "accepted": accepted, "natural": natural,
                              "final": final, "crashes": crashes, "faults": faults, "went_on": went_on}
            stats["modes"][mode] = stats["modes"].get(mode, 0) + 1
            stats["model_compared"] += 1
            ev = sc.ref["phase"]["events"]
            real = collapse2([(e["k"], e["a"]) for e in ev])
            desc = {"scenario": sc.name, "strategy": sc.strategy, "destination": sc.dest_kind, "spec": json.load(open(sc.spec))}
            mops = list(model[sc.name]["ops"])
            if natural >= 0:
                # the inputs make step `natural` fail: the code runs up to it, then the clean-up of that step
                stats["natural_failures"] += 1
                mops = mops[:natural + 1] + [(k, 0) for k in faults[natural][5]]
            want = collapse2(mops)
            if mode == 1:
                want = None        # direct write to a special file: exempt, only the absence of a temporary is checked
            if len(stats["samples"]) < 6 and sc.name in ("patch-mid-symlink", "msi-hardlink", "pgp-clearsign-regular", "patch-outoforder", "stage-whole-long251", "stage-pgp-clearsign-rodir"):
                stats["samples"].append({"scenario": sc.name, "mode": mode, "real_ops": [[KIND_NAMES.get(k, k), a] for k, a in real][:24],
                                         "model_ops": [[KIND_NAMES.get(k, k), a] for k, a in (want or [])][:24]})
            if want is not None and [k for k, _ in real] != [k for k, _ in want]:
                ctx.violation("C13:correspondence:ops:" + sc.strategy,
                              "%s: system calls of the output phase %s differ from the model's plan %s" % (sc.name, [KIND_NAMES.get(k, k) for k, _ in real], [KIND_NAMES.get(k, k) for k, _ in want]),
                              dict(desc, real=real, model=want, broken="correspondence C13.Run (trace vs plan)"), False)
            elif want is not None and natural < 0 and [a for k, a in real if k in (1, 8, 2, 9, 17, 19, 20, 28)] != [a for k, a in want if k in (1, 8, 2, 9, 17, 19, 20, 28)]:
                ctx.violation("C13:correspondence:amounts:" + sc.strategy, "%s: byte counts of the output phase %s differ from the model's %s" % (sc.name, real, want),
                              dict(desc, real=real, model=want, broken="correspondence C13.Run (amounts)"), False)
            if mode == 2 and not accepted:
                ctx.violation("C13:correspondence:protocol:" + sc.strategy, "%s: the model's plan for these inputs is not a write-rename protocol run" % sc.name,
                              dict(desc, model=want, broken="check pt pd it 0 plan = Some 2"), False)
            # final state
            exp_rc_ok = natural < 0
            if (sc.ref["rc"] == 0) != exp_rc_ok:
                ctx.violation("C13:correspondence:outcome:" + sc.strategy, "%s: real code %s but the model predicts %s" % (sc.name, "succeeded" if sc.ref["rc"] == 0 else "failed", "success" if exp_rc_ok else "a handled error"),
                              dict(desc, rc=sc.ref["rc"], natural_fault=natural, broken="correspondence C13.Run (outcome)"), False)
            elif mode in (2, 3) and sc.ref["rc"] == 0 and bytes.fromhex(final[4]) != (sc.ref["new"] or b""):
                ctx.violation("C13:correspondence:content:" + sc.strategy, "%s: destination content written by the real code differs from the model's" % sc.name,
                              dict(desc, real_len=len(sc.ref["new"] or b""), model_len=len(bytes.fromhex(final[4])), broken="correspondence C13.Run (final content)"), False)
            if mode == 3:
                stats["in_place"] += 1
    # ---------------------------------------------------------------- interrupted runs
    jobs = []
    for sc in refs:
        calls, ph = sc.ref["calls"], sc.ref["phase"]
        counts = {}
        ordinal = []
        for c in calls:
            counts[c.name] = counts.get(c.name, 0) + 1
            ordinal.append((c.name, counts[c.name]))
        evs = ph["events"]
        pts = [(j, e) for j, e in enumerate(evs)]
        for j, e in pts:
            jobs.append((sc, "kill", j, ordinal[e["i"]]))
            if e["name"] in ERRNO and e["k"] not in NOT_RELIC:
                if e["k"] == 0:      # the creation of the temporary: every way it fails in practice, one per scenario
                    en = CREATE_ERRNOS[(len(jobs) + len(sc.name)) % len(CREATE_ERRNOS)]
                    stats["staging"]["injected_errno"][en] = stats["staging"]["injected_errno"].get(en, 0) + 1
                    jobs.append((sc, "fail", j, ordinal[e["i"]] + (en,)))
                else:
                    jobs.append((sc, "fail", j, ordinal[e["i"]]))
        jobs.append((sc, "kill", len(evs), ("getppid", 2)))   # never reached: the run completes (end point)
        # the refuted witness, replayed: first a failing data call, then the unlink of the clean-up fails too
        firstw = next((e for e in evs if e["k"] in (1, 8, 2)), None)
        if firstw is not None and model.get(sc.name, {}).get("mode") == 2 and sc.name in ("whole-regular", "patch-mid-regular", "msi-regular", "pgp-clearsign-regular"):
            jobs.append((sc, "fail2", evs.index(firstw), ordinal[firstw["i"]]))

    def one(job):
        sc, what, j, pt = job
        c = sc.clone("%s_%d" % (what, j))
        try:
            if what == "kill":
                rc, calls, out, err = run_x(c.side, c.spec, kill=pt)
            elif what == "fail":
                rc, calls, out, err = run_x(c.side, c.spec, fail=[pt])
            else:
                rc, calls, out, err = run_x(c.side, c.spec, fail=[pt, ("unlinkat", 1)])
            obs = observe_dir(c, sc.ref["new"])
            ph = decode_phase(c, calls)
            islink = c.dest != "-" and os.path.islink(c.dest)
            if ph is not None:
                ph["raw"] = [x.raw[:220] for x in calls[ph["start"]:]][:60]
            return job, rc, obs, ph, islink, err
        finally:
            shutil.rmtree(c.root, ignore_errors=True)

    with concurrent.futures.ThreadPoolExecutor(max_workers=14) as ex:
        results = list(ex.map(one, jobs))
    for (sc, what, j, pt), rc, (cls, temps, input_ok, dest), ph, islink, err in results:
        stats["runs"] += 1
        m = model.get(sc.name)
        evs_ref = sc.ref["phase"]["events"]
        desc = {"scenario": sc.name, "strategy": sc.strategy, "destination": sc.dest_kind, "spec": json.load(open(sc.spec)),
                "inject": what, "at": {"syscall": pt[0], "ordinal": pt[1], "call": (evs_ref[j]["name"] + " = " + KIND_NAMES.get(evs_ref[j]["k"], str(evs_ref[j]["k"]))) if j < len(evs_ref) else "end"}, "rc": rc,
                "dest_name_bytes": len(os.path.basename(sc.dest)), "dest_existed": sc.old is not None, "driver_uid": sc.uid, "rlimit_nofile_exhausted": sc.nofile,
                "output_phase_calls": [str(KIND_NAMES.get(e["k"], e["k"])) + ("" if e["ok"] else " (fails)") for e in evs_ref if e["k"] != 98][:40],
                "reproduce": "directory with in.bin and%s a destination whose base name is %d bytes long%s; spec.json as in `spec` (paths adjusted); "
                             "strace -f -e inject=%s:%s:when=%d .build/drv-c13 c13x spec.json ; then read the destination" %
                             ("" if sc.old is not None else " WITHOUT", len(os.path.basename(sc.dest)),
                              " (directory mode 0555, destination mode 0666, driver drops to uid %d)" % sc.uid if sc.uid else " (RLIMIT_NOFILE exhausted by the driver)" if sc.nofile else "",
                              pt[0], "signal=SIGKILL" if what == "kill" else "error=" + (pt[2] if len(pt) > 2 else ERRNO.get(pt[0], "EIO")), pt[1])}
        exempt = sc.ref["exempt"]
        if what == "kill":
            killed = rc in (-9, 137)
            if killed:
                stats["kill_points"] += 1
                stats["distinct"].add((sc.strategy, sc.dest_kind, "kill", evs_ref[j]["k"] if j < len(evs_ref) else -1))
            # ---- model-free oracle (the property text): complete old or complete new content, never lost, input unmodified
            if not exempt and sc.dest != "-":
                if cls == 3 or (cls == 0 and sc.old is not None):
                    ctx.violation("C13:spec:crash:%s:%s" % ("dest-missing" if cls == 0 else "dest-torn", sc.family),
                                  "%s: killed at %s #%d (%s): destination is %s" % (sc.name, pt[0], pt[1], desc["at"]["call"], "missing" if cls == 0 else "neither the previous nor the new content (%d bytes)" % len(dest or b"")), desc)
                if not input_ok:
                    ctx.violation("C13:spec:input-modified", "%s: input modified (killed at %s #%d)" % (sc.name, pt[0], pt[1]), desc)
            if exempt and temps and m is not None and m["mode"] == 3:
                ctx.violation("C13:correspondence:inplace-temp", "%s: a temporary file exists although the model says in place" % sc.name, dict(desc, temps=temps), False)
            if not killed and j < len(evs_ref):
                continue    # the ordinal was not reached in this run (the runs are not perfectly repeatable): nothing to compare
            # ---- model: the state after the completed calls
            if sc.name.startswith("stage-") and killed:
                stats["staging"]["kill_points"] += 1
            # (a step that fails by itself and ends the phase: the states up to it; the model's later states assume it succeeded)
            if m is not None and m["mode"] in (2, 3) and ph is not None:
                got = kinds_of([(e["k"], e["a"]) for e in ph["events"][:j]] if killed else [(e["k"], e["a"]) for e in ph["events"]])
                ks = [k for k in range(len(m["ops"]) + 1) if kinds_of(m["ops"][:k]) == got]
                if not ks or (m["natural"] >= 0 and ks[0] > m["natural"]):
                    continue
                mc = m["crashes"][ks[0]]
                real = [cls, 1 if temps else 0, 1 if input_ok else 0, 1 if islink else 0]
                if sc.in_place_name:
                    real[2] = mc[2]       # the input is the destination: compared through dest class
                if real != mc:
                    ctx.violation("C13:correspondence:crash:" + sc.strategy,
                                  "%s: after %d completed calls the directory shows [dest class, temp, input ok, dest is link] = %s, the model %s" % (sc.name, j, real, mc),
                                  dict(desc, real=real, model=mc, broken="correspondence C13.Run (scrash)"), False)
        else:
            if ph is None or j >= len(ph["events"]) or ph["events"][j]["ok"]:
                continue        # the injection did not hit the intended call
            stats["fault_points"] += 1
            stats["distinct"].add((sc.strategy, sc.dest_kind, what, evs_ref[j]["k"]))
            after = [(e["k"], e["a"]) for e in ph["events"][j + 1:]]
            if what == "fail2" or evs_ref[j]["k"] == 7:
                # cleanup_unlink_failure_refuted, replayed: the unlink of the clean-up itself fails (here: after the inputs made a
                # step fail); nothing can remove the temporary then
                stats["double_fault_replays"] += 1
                if not temps and rc != 0:
                    ctx.notes.append("%s: double fault (data call and the unlink of the clean-up) did not leave a temporary" % sc.name)
                continue
            # ---- model-free oracle: handled error (or ignored failure): no temporary, destination old or new, input unmodified
            if temps and not exempt:
                ctx.violation("C13:spec:temp-left-after-error", "%s: %s of %s #%d (%s) fails: temporary file left next to the output: %s" % (sc.name, (pt[2] if len(pt) > 2 else ERRNO.get(pt[0])), pt[0], pt[1], desc["at"]["call"], temps), dict(desc, temps=temps))
            if not exempt and sc.dest != "-":
                if cls == 3 or (cls == 0 and sc.old is not None):
                    ctx.violation("C13:spec:error:%s:%s" % ("dest-missing" if cls == 0 else "dest-torn", sc.family),
                                  "%s: %s of %s #%d (%s) fails, exit status %d: destination is %s" % (sc.name, (pt[2] if len(pt) > 2 else ERRNO.get(pt[0])), pt[0], pt[1], desc["at"]["call"], rc,
                                                                                                   "missing" if cls == 0 else "neither the previous nor the complete new content (%d bytes)" % len(dest or b"")), desc)
                elif sc.ref["new"] != sc.old and ((rc == 0) != (cls == 2)):
                    # the path holds a complete old or new file, as the property demands, but the exit status says the opposite
                    ctx.violation("C13:outcome:%s:%s" % ("success-without-output" if rc == 0 else "error-after-commit", sc.family),
                                  "%s: %s of %s #%d (%s) fails: exit status %d but the destination holds the %s content" % (sc.name, (pt[2] if len(pt) > 2 else ERRNO.get(pt[0])), pt[0], pt[1], desc["at"]["call"], rc, "previous" if cls != 2 else "new"), desc, False)
                if not input_ok:
                    ctx.violation("C13:spec:input-modified", "%s: input modified (%s #%d fails)" % (sc.name, pt[0], pt[1]), desc)
            # ---- model: fault n (not where the run already is a violation of the property: same root cause)
            bad = not exempt and sc.dest != "-" and (cls == 3 or (cls == 0 and sc.old is not None))
            if sc.name.startswith("stage-"):
                stats["staging"]["fault_points"] += 1
            if evs_ref[j]["k"] == 0 and sc.name in model_tf and m is not None and m["mode"] == 2 and m["natural"] < 0 and not bad:
                # the creation of the temporary fails (injected EACCES): the model evaluated in THAT environment says whether the open
                # phase ends there with an error or goes on, and what the directory looks like afterwards
                mt = model_tf[sc.name]
                stats["staging"]["env_compared"] += 1
                real = [cls, 1 if temps else 0, 1 if input_ok else 0, 1 if islink else 0]
                if sc.in_place_name:
                    real[2] = mt["final"][2]
                got_after = kinds_of(after)
                created = next((i for i, o in enumerate(mt["ops"]) if o[0] == 0), len(mt["ops"]))
                exp_after = kinds_of(mt["ops"][created + 1:]) if mt["natural"] < 0 else kinds_of(mt["ops"][created + 1:mt["natural"] + 1])
                if (rc == 0) != (mt["natural"] < 0) or real != mt["final"][:4] or got_after != exp_after:
                    ctx.violation("C13:correspondence:stage-failure:" + sc.strategy,
                                  "%s: creation of the temporary fails (%s #%d): real code exit %d, state %s, then calls %s; model in that environment: %s, state %s, then %s" %
                                  (sc.name, pt[0], pt[1], rc, real, [KIND_NAMES.get(k, k) for k in got_after], "goes on" if mt["went_on"] else "reports the error",
                                   mt["final"][:4], [KIND_NAMES.get(k, k) for k in exp_after]),
                                  dict(desc, real=real, model=mt["final"][:4], after=got_after, model_after=exp_after, trace=ph.get("raw"), broken="correspondence C13.Run (environment: temp_create_fails)"), False)
                continue
            if m is not None and m["mode"] == 2 and m["natural"] < 0 and not bad:
                fk = evs_ref[j]["k"]
                got = kinds_of([(e["k"], e["a"]) for e in evs_ref[:j + 1]])
                ns = [n for n in range(len(m["ops"])) if m["ops"][n][0] == fk and kinds_of(m["ops"][:n + 1]) == got]
                if not ns:
                    continue
                mf = m["faults"][ns[0]]
                ignored, mobs, mclean = mf[0], mf[1:5], mf[5]
                if ignored:
                    stats["ignored_failures"] += 1
                real = [cls, 1 if temps else 0, 1 if input_ok else 0, 1 if islink else 0]
                if sc.in_place_name:
                    real[2] = mobs[2]
                exp_after = kinds_of(m["ops"][ns[0] + 1:]) if ignored else kinds_of([(k, 0) for k in mclean])
                got_after = kinds_of(after)
                if not ignored and got_after != exp_after and got_after[len(got_after) - len(exp_after):] == exp_after \
                        and all(k in (1, 2, 8, 9, 10, 14, 15, 16) for k in got_after[:len(got_after) - len(exp_after)]):
                    # the callee went on touching the temporary for a while before the error surfaced (protocol_fault_delayed)
                    stats["delayed_giving_up"] = stats.get("delayed_giving_up", 0) + 1
                    got_after = exp_after
                if (rc == 0) != bool(ignored) or real != mobs or (not ignored and got_after != exp_after):
                    ctx.violation("C13:correspondence:fault:" + sc.strategy,
                                  "%s: %s #%d (%s) fails: real code exit %d, state %s, then calls %s; model: %s, state %s, then %s" %
                                  (sc.name, pt[0], pt[1], desc["at"]["call"], rc, real, [KIND_NAMES.get(k, k) for k in kinds_of(after)],
                                   "ignored" if ignored else "gives up", mobs, [KIND_NAMES.get(k, k) for k in exp_after]),
                                  dict(desc, real=real, model=mobs, after=kinds_of(after), model_after=exp_after, trace=ph.get("raw"), broken="correspondence C13.Run (fault)"), False)
    try:
        pe_fixup(ctx, st, base, stats)
    except Exception as e:
        stats["skipped"].append("pe-fixup: %s" % e)
    stats["distinct"] = len(stats["distinct"])
    return stats


def legacy(ctx, st):
    base = os.path.join(ctx.scratch, "c13")
    os.makedirs(base, exist_ok=True)
    model = {}
    if st["model_ok"]:
        res = ctx.run_model([[0, 3, 2, i] for i in range(len(STRATEGIES))])
        for i, (succ, err) in enumerate(res):
            model[STRATEGIES[i]] = (collapse(succ), collapse(err))
    evaluations, covered, kill_points = 0, set(), 0
    samples = []
    jobs = []
    refs = {}
    # reference (uninterrupted) runs, success and handled-error variants
    for s in STRATEGIES:
        for de in (1, 0, 2):
            d = os.path.join(base, "ref_%s_%d" % (s, de))
            inp = prepare(d, s, de)
            rc, lines, err = strace_run(d, s)
            snap = snapshot(d)
            calls = main_syscalls(lines)
            evaluations += 1
            if rc != 0 or "out.bin" not in snap:
                ctx.violation("C13:driver:" + s, "reference run failed rc=%s %s" % (rc, err), {"strategy": s, "dest_exists": de, "stderr": err}, False)
                continue
            if snap["in.bin"] != inp:
                ctx.violation("C13:spec:input-modified", "input modified by %s" % s, {"strategy": s, "dest_exists": de})
            left = [n for n in snap if ".tmp" in n]
            if left:
                ctx.violation("C13:spec:temp-left-after-success", "temporary file left after normal completion (%s): %s" % (s, left), {"strategy": s, "dest_exists": de})
            kinds = op_kinds(calls, d)
            refs[(s, de)] = (snap["out.bin"], calls, kinds)
            if s in model and kinds != model[s][0]:
                ctx.violation("C13:correspondence:" + s, "system-call sequence of the output phase %s differs from the model's op list %s" % (kinds, model[s][0]),
                              {"strategy": s, "dest_exists": de, "trace_ops": kinds, "model_ops": model[s][0], "broken": "correspondence C13.Run (trace vs success_ops)"}, False)
            if len(samples) < 3:
                samples.append({"strategy": s, "dest_exists": de, "output_phase_ops": kinds, "main_thread_syscalls": len(calls), "output_phase": [c[:70] for c in calls if "out.bin" in c][:8]})
        if s in FAILABLE:
            for de in (1, 0, 2):
                d = os.path.join(base, "err_%s_%d" % (s, de))
                inp = prepare(d, s, de)
                rc, lines, err = strace_run(d, s, fail=True)
                snap = snapshot(d)
                evaluations += 1
                kinds = op_kinds(main_syscalls(lines), d)
                if rc == 0:
                    ctx.notes.append("error variant of %s did not fail (rc 0)" % s)
                    continue
                left = [n for n in snap if ".tmp" in n]
                if left:
                    ctx.violation("C13:spec:temp-left-after-error", "temporary file left next to the output after a handled error (%s): %s" % (s, left), {"strategy": s, "dest_exists": de, "stderr": err})
                if snap.get("out.bin") != (OLD if de else None):
                    ctx.violation("C13:spec:dest-changed-on-error", "destination changed although the operation failed (%s)" % s, {"strategy": s, "dest_exists": de})
                if snap["in.bin"] != inp:
                    ctx.violation("C13:spec:input-modified", "input modified by failing %s" % s, {"strategy": s, "dest_exists": de})
                if s in model and kinds and [k for k in kinds if k != 1] != [k for k in model[s][1] if k != 1]:
                    ctx.violation("C13:correspondence-error:" + s, "error-path system calls %s differ from the model %s" % (kinds, model[s][1]),
                                  {"strategy": s, "trace_ops": kinds, "model_ops": model[s][1], "broken": "correspondence C13.Run (trace vs error_ops)"}, False)
    # crash points: SIGKILL injected at the entry of the k-th traced system call of the main thread
    def crash_job(s, de, k):
        d = os.path.join(base, "k_%s_%d_%s_%d" % (s, de, k[0], k[1]))
        inp = prepare(d, s, de)
        rc, lines, err = strace_run(d, s, kill_at=k)
        snap = snapshot(d)
        calls = main_syscalls(lines)
        killed_at = calls[-1] if calls else ""
        shutil.rmtree(d, ignore_errors=True)
        return s, de, k, rc, snap.get("out.bin"), snap.get("in.bin") == inp, killed_at, op_kinds(calls, d)
    for (s, de), (new, calls, kinds) in refs.items():
        # every system call from the creation of the temporary file to the end (thorough: from the very first call),
        # addressed as (name, ordinal of that name on the main thread); plus one ordinal past the end per name
        start = 0
        for i, c in enumerate(calls):
            if "out.bin.tmp" in c and c.startswith("openat"):
                start = i
                break
        if ctx.tier == "thorough":
            start = 0
        counts, pts = {}, []
        for i, c in enumerate(calls):
            name = c.split("(", 1)[0]
            counts[name] = counts.get(name, 0) + 1
            if i >= start:
                pts.append((name, counts[name]))
        for name in set(n for n, _ in pts):
            pts.append((name, counts[name] + 1))
        for k in pts:
            jobs.append((s, de, k))
    with concurrent.futures.ThreadPoolExecutor(max_workers=14) as ex:
        for s, de, k, rc, dest, input_ok, killed_at, kinds in ex.map(lambda j: crash_job(*j), jobs):
            evaluations += 1
            new = refs[(s, de)][0]
            old = OLD if de else None
            if rc in (-9, 137):
                kill_points += 1
                covered.add((s, de, tuple(kinds), re.sub(r"\(.*", "", killed_at)))
            if dest not in (old, new):
                what = "missing" if dest is None else "torn (%d bytes)" % len(dest)
                ctx.violation("C13:spec:crash:%s" % ("dest-missing" if dest is None else "dest-torn"),
                              "%s, destination %s: killed at %s #%d (%s): destination is %s" % (s, ["absent", "present", "a symlink"][int(de)], k[0], k[1], killed_at[:80], what),
                              {"strategy": s, "dest_exists": de, "kill_at": k, "killed_at": killed_at})
            if not input_ok:
                ctx.violation("C13:spec:input-modified", "input modified (%s, kill at %s)" % (s, k), {"strategy": s, "dest_exists": de, "kill_at": k})
    return evaluations, covered, kill_points, samples

def run(ctx, replay=None):
    st = ctx.prepare(["C13_gen"], ["C13"], "C13.Run")
    if not st["harness_ok"]:
        return ctx.finish("proof", ctx.proof_coverage([], FP), [])
    evaluations, covered, kill_points, samples = legacy(ctx, st)
    x = extended(ctx, st)
    ctx.proof_verdict()
    cov = ctx.proof_coverage(["srcgen (session 5): atomicfile.WriteAny and atomicfile.New as decision trees over their fallible calls (callee, target = destination / sibling temporary, open(2) flags, which variable receives handle and error, every branch on err / path / isSpecial, what is returned); inventory of os / ioutil calls in fileProducer.Apply, pgpTransformer.Apply, WriteFile",
                              "srcgen: ordered call tables of atomicfile.Commit/Close/New/WriteInPlace; scripts (call, error handling kind, loop depth, enclosing branches) of Commit, Close, New, WriteFile, WriteInPlace, fileProducer.Apply, applyRewrite, msiTransformer.Apply, pgpTransformer.Apply; decisions WriteAny / isSpecial / canOverwrite / hasLinks / Apply's eligibility conditions; arguments of TempFile, Rename, Remove, Lstat",
                              "harness: drv c13op / c13x run one output phase of the real code under strace; SIGKILL injected at syscall entry (strace -e inject=...:signal=SIGKILL:when=k), errors injected into single calls (…:error=ENOSPC|EIO|EACCES|EPERM:when=k)",
                              "what a Go library call does in system calls (io.Copy -> write / copy_file_range, File.Seek -> lseek, os.Rename -> lstat + renameat) is written by hand in C13/Strategies.v and compared with the trace on every run; comdoc's edits of the MSI copy and go-crypto's merge output are read off the trace (their content is the business of C18 / FmtPGP)",
                              "POSIX rename atomicity (the one assumed primitive); durability across power loss (fsync) is outside the property and the model"], FP)
    cov.update({"evaluations": evaluations + x.get("runs", 0), "distinct_nontrivial": len(covered) + x.get("distinct", 0),
                "rule": "first session: 5 output strategies (WriteFile, whole-file Apply, patch-by-rewrite, MSI copy-then-edit, PGP) x destination present / absent / symbolic link; SIGKILL at each traced system call of the output phase. "
                        "Session 4: %d scenarios = strategy (whole, WriteFile, patch by rewrite / in place / failing by itself, MSI copy-then-edit / in place, PGP detached / inline / clearsign) x destination (absent, regular, symbolic link, dangling link, other directory, through a linked directory, the input itself, symbolic / hard link to the input, '-', link to /dev/null) + sequential signings; per scenario an uninterrupted run, SIGKILL at every call of the output phase and an error injected into every call; each observation judged by the property text (model-free) and compared with the extracted model (plan, scrash k, fault n); distinct = (strategy, destination, injection, kind of call) actually hit" % x.get("scenarios", 0),
                "staging_rule": "session 5: %d scenarios in which the sibling temporary cannot be created or barely can - destination base names of 230 / 241 (fits) / 242 / 246 / 250 (the random suffix decides) / 251 / 255 bytes (ENAMETOOLONG), a directory without write permission around a writable destination (driver drops to uid %d: EACCES), RLIMIT_NOFILE exhausted (EMFILE) - x whole-file, WriteFile, PGP detached / clearsign / inline, patch by rewrite, MSI x destination present / absent; each: uninterrupted run, SIGKILL at every call of the output phase, an error injected into every call; in every ordinary scenario the creation of the temporary is also made to fail by injection and compared with the model evaluated in the environment temp_create_fails" % ((x.get("staging") or {}).get("scenarios", 0), NOBODY),
                "samples": samples + x.get("samples", []), "kill_points": kill_points + x.get("kill_points", 0), "exhaustive": ctx.tier == "thorough",
                "session4": {k: v for k, v in x.items() if k not in ("samples",)}})
    return ctx.finish("proof", cov, ["POSIX rename atomicity", "strace per-thread syscall counting on the locked main thread"])
