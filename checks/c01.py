# C01 — every signature relic produces verifies, for every format, key and digest (end-to-end half + Coq laws)
import concurrent.futures, json, os, shutil
from vlib import e2e, formats, c03_derive as D
from vlib.common import VERIF

HASHNAME = {"sha1": ("SHA-1", "SHA1"), "sha224": ("SHA-224", "SHA224"), "sha256": ("SHA-256", "SHA256"), "sha384": ("SHA-384", "SHA384"), "sha512": ("SHA-512", "SHA512")}
NOT_SIGNABLE = {"mach-o-fat"}     # verify-only types
EXPLICIT_REFUSAL = ("unsupported page hash", "unsupported hash", "unsupported public key", "no certificate of type", "invalid hash function", "unknown hash type",
                    "unsupported digest", "not supported")
BASELINE = os.path.join(VERIF, "corpus", "c01_unsupported.json")
# per-signer flags worth exercising (flag list, applies to sigtypes)
FLAGSETS = [([], None), (["--page-hashes"], {"pe-coff"}), (["--no-extended-sig"], {"msi"}), (["--inline-signature"], {"jar"}),
            (["--sections-only"], {"jar"}), (["--apk-v2-present"], {"jar"}), (["--detach-certs"], {"vsix"}), (["--role", "origin"], {"deb"}),
            (["--armor"], {"pgp"}), (["--clearsign"], {"pgp"}), (["--inline"], {"pgp"}), (["--textmode", "--armor"], {"pgp"}),
            (["--description", "d", "--desc-url", "http://x.example/"], {"pe-coff", "msi", "cab", "ps"})]
EXPLICIT_TYPE = {"pgp"}     # not auto-detected from these fixture names


def jobs_for(kit, tier):
    jobs = []
    for fx, (st, trust) in e2e.FIXTURES.items():
        if st in NOT_SIGNABLE:
            continue
        for key, k in kit.keys.items():
            if trust == "pgp" and not k.get("pgp"):
                digs = ["sha256"]            # refusal expected: no PGP certificate
            elif key in ("rsa2048", "p256") or tier == "thorough":
                digs = e2e.DIGESTS
            else:
                digs = ["sha256", "sha384"]
            for dg in digs:
                jobs.append((fx, st, key, dg, (), False))
        for flags, types in FLAGSETS[1:]:
            if st in types:
                jobs.append((fx, st, "rsa2048", "sha256", tuple(flags), False))
                jobs.append((fx, st, "p384" if trust == "x509" else "rsa2048", "sha384", tuple(flags), False))
        # client/server path
        for key, dg in (("rsa2048", "sha256"), ("p256", "sha512"), ("alias-rsa", "sha256")):
            if trust == "pgp" and key == "p256":
                continue
            jobs.append((fx, st, key, dg, (), True))
    return jobs


def run(ctx, replay=None):
    frag, units = formats.proof_part(ctx)
    kit = e2e.Kit(ctx, with_server=True)
    if kit.build_error:
        ctx.violation("C01:relic-build", "relic binary / probe does not build: " + kit.build_error[-400:], {"stderr": kit.build_error[-3000:]}, False)
        return ctx.finish("proof", dict(frag, evaluations=1, distinct_nontrivial=0, rule="build failed", samples=[]), [])
    base = json.load(open(BASELINE)) if os.path.exists(BASELINE) else {"unsupported": []}
    unsupported = set(tuple(x) for x in base["unsupported"])
    outdir = os.path.join(kit.dir, "c01")
    os.makedirs(outdir, exist_ok=True)
    jobs = jobs_for(kit, ctx.tier)
    # harness-written compound files (own CFB writer, shared with C03/C08): plain, 4096-byte sectors, free sectors, and inputs
    # that already carry a foreign signature stream sized at the mini-stream cutoff, so that signing REPLACES a stream stored
    # in the other allocation table — every signature relic produces on them must verify, too
    for name, vclass, blob in D.cfb_variants(ctx.tier):
        if vclass not in ("generated", "v4", "foreign-signature", "free-sectors"):
            continue
        gp = os.path.join(outdir, name + ".msi")
        with open(gp, "wb") as f:
            f.write(blob)
        jobs.append((gp, "msi", "rsa2048", "sha256", (), False))
        jobs.append((gp, "msi", "p256", "sha384", ("--no-extended-sig",), False))
    if replay:
        rp = json.load(open(replay))
        jobs = [tuple(j[:4]) + (tuple(j[4]), j[5]) for j in rp.get("jobs", [])]

    def one(i_job):
        i, (fx, st, key, dg, flags, remote) = i_job
        src = fx if os.path.isabs(fx) else kit.fixture(fx)
        work = os.path.join(outdir, "%04d_%s" % (i, os.path.basename(fx) if os.path.isabs(fx) else fx.replace("/", "_")))
        shutil.copyfile(src, work)           # sign in place on a private copy
        before = e2e.sha256_file(work)
        real_key = "rsa2048" if key == "alias-rsa" else key
        rc, txt = kit.sign(key, work, work, sigtype=st if st in EXPLICIT_TYPE else None, digest=dg, flags=flags, remote=remote)
        res = {"fixture": fx, "sigtype": st, "key": key, "digest": dg, "flags": list(flags), "remote": remote, "sign_exit": rc,
               "sign_msg": txt.strip().splitlines()[-1][:200] if txt.strip() else ""}
        if rc != 0:
            res["input_untouched"] = e2e.sha256_file(work) == before
            return res
        content = src if st == "pgp" and not set(flags) & {"--clearsign", "--inline"} else None
        v = kit.verifyjson([work], key=real_key, content=content, sigtype="pgp" if st == "pgp" else None)[0]
        res["verify"] = v
        vrc, vtxt = kit.verify(work, key=real_key, content=content) if (i % 5 == 0) else (0, "")
        res["cli_verify_exit"] = vrc
        os.remove(work)
        return res

    with concurrent.futures.ThreadPoolExecutor(max_workers=14) as ex:
        results = list(ex.map(one, enumerate(jobs)))
    kit_leaf = {k: kit.leaf_sha1(k) for k in kit.keys}
    kit.close()
    n_ok = 0
    distinct = set()
    new_unsupported = []
    per_type = {}
    for r in results:
        combo = (r["sigtype"], kit.keys["rsa2048" if r["key"] == "alias-rsa" else r["key"]]["type"] + ("" if r["key"] in ("rsa2048", "alias-rsa") else ":" + r["key"]), r["digest"], " ".join(r["flags"]))
        ident = {k: r[k] for k in ("fixture", "sigtype", "key", "digest", "flags", "remote")}
        cmdline = "relic %ssign -k %s -f %s%s --digest %s %s" % ("remote " if r["remote"] else "", r["key"], r["fixture"],
                                                               " -T " + r["sigtype"] if r["sigtype"] in EXPLICIT_TYPE else "", r["digest"], " ".join(r["flags"]))
        per_type.setdefault(r["sigtype"], [0, 0])
        if r["sign_exit"] != 0:
            per_type[r["sigtype"]][1] += 1
            explicit = any(p in r["sign_msg"].lower() for p in EXPLICIT_REFUSAL)
            if not r.get("input_untouched", True):
                ctx.violation("C01:spec:%s:refusal-modified-input" % r["sigtype"], "signing was refused (%s) but the input file was modified" % r["sign_msg"], {"jobs": [list(ident.values())], "cmd": cmdline})
            if combo[:3] + ("",) in unsupported or combo in unsupported:
                if not explicit and r["remote"]:
                    ctx.violation("C01:spec:remote-refusal-not-explicit", "through the server an unsupported combination (%s %s %s) is refused with a generic HTTP 500 and retried, not with an explicit error: %s" % (combo[0], combo[1], combo[2], r["sign_msg"]),
                                  {"jobs": [list(ident.values())], "cmd": cmdline})
                elif not explicit:
                    ctx.violation("C01:spec:%s:refusal-not-explicit" % r["sigtype"], "unsupported combination refused without an explicit error: %s" % r["sign_msg"], {"jobs": [list(ident.values())], "cmd": cmdline})
                continue
            if not os.path.exists(BASELINE):
                if explicit:
                    new_unsupported.append(list(combo))
                continue
            ctx.violation("C01:spec:%s:sign-failed" % r["sigtype"], "signing a well-formed %s with %s/%s failed: %s" % (r["fixture"], r["key"], r["digest"], r["sign_msg"]),
                          {"jobs": [list(ident.values())], "cmd": cmdline})
            continue
        v = r["verify"]
        per_type[r["sigtype"]][0] += 1
        distinct.add(json.dumps(list(combo) + [r["remote"]]))
        if not v.get("ok") or r.get("cli_verify_exit", 0) != 0:
            ctx.violation("C01:spec:%s:verify-failed" % r["sigtype"], "relic's own verifier rejects what relic just signed (%s %s/%s%s): %s" %
                          (r["fixture"], r["key"], r["digest"], " remote" if r["remote"] else "", v.get("err") or [s.get("chain_err") for s in v.get("sigs") or []]),
                          {"jobs": [list(ident.values())], "cmd": cmdline, "verify": v})
            continue
        n_ok += 1
        sigs = v.get("sigs") or []
        real_key = "rsa2048" if r["key"] == "alias-rsa" else r["key"]
        if e2e.FIXTURES.get(r["fixture"], (None, "x509"))[1] == "x509":
            if not any(s.get("leaf_sha1") == kit_leaf[real_key] for s in sigs):
                ctx.violation("C01:spec:%s:wrong-certificate" % r["sigtype"], "accepted signature does not name the configured certificate of %s" % real_key, {"jobs": [list(ident.values())], "cmd": cmdline, "verify": v})
        elif not any(s.get("pgp_keyid") for s in sigs):
            ctx.violation("C01:spec:%s:no-pgp-identity" % r["sigtype"], "accepted signature names no PGP key", {"jobs": [list(ident.values())], "cmd": cmdline, "verify": v})
        hashes = set(s.get("hash") for s in sigs)
        if not set(HASHNAME[r["digest"]]) & hashes:
            ctx.violation("C01:spec:%s:wrong-digest" % r["sigtype"], "requested digest %s but the accepted signature reports %s" % (r["digest"], sorted(h or "?" for h in hashes)),
                          {"jobs": [list(ident.values())], "cmd": cmdline, "verify": v})
    if new_unsupported and not os.path.exists(BASELINE):
        ctx.notes.append("no baseline table of unsupported combinations; observed explicit refusals: %d" % len(new_unsupported))
        os.makedirs(os.path.dirname(BASELINE), exist_ok=True)
        if os.environ.get("C01_WRITE_BASELINE") == "1":
            json.dump({"unsupported": sorted(set(tuple(x) for x in new_unsupported))}, open(BASELINE, "w"), indent=0)
    cov = dict(frag)
    cov.update({"evaluations": len(results), "distinct_nontrivial": len(distinct),
                "rule": "every fixture of functest/packages (21 files, 19 signature types) x keys {RSA-2048, RSA-3072, P-256, P-384, P-521; PGP via the RSA-2048 OpenPGP certificate} x digests (all five for two keys, two for the rest; all in thorough) x per-signer flag sets x {standalone `relic sign`, `relic remote sign` against `relic serve`, alias key}; each signed copy verified by relic's verifier (integrity + chain against the key's own certificate) and checked for leaf certificate and digest; refusals must be explicit, listed in corpus/c01_unsupported.json, and leave the input untouched; distinct = (type, key, digest, flags, path) combinations signed successfully",
                "samples": [{k: r[k] for k in ("fixture", "key", "digest", "flags", "remote", "sign_exit")} for r in results[:3]],
                "signed_and_verified": n_ok, "per_type_signed_refused": per_type})
    return ctx.finish("proof", cov, ["symbolic cryptography in the Coq laws", "fixture-derived inputs only in this half; generated layouts come from the format modules"])
