# C09 — upload stream, chunking and transport never change what gets signed
import base64, concurrent.futures, hashlib, io, json, os, struct, tarfile, zipfile
from vlib.common import Hex

MB = 1 << 20


# ---------------------------------------------------------------------------------------------------------------------
# harness-owned reference implementations, written from the format descriptions (nothing here comes from relic)
def sha256(b):
    return hashlib.sha256(b).digest()


def gen_data(seed, size):
    out = bytearray()
    i = 0
    while len(out) < size:
        out += hashlib.sha256(struct.pack("<QQ", seed, i)).digest()
        i += 1
    return bytes(out[:size])


def chunks(b, B):
    return [b[i:i + B] for i in range(0, len(b), B)]


def apk_v2(sections):
    """Android APK signature scheme v2, integrity-protected contents: 1 MB chunks per section, two-level digest"""
    digs = []
    for s in sections:
        for c in chunks(s, MB):
            digs.append(sha256(b"\xa5" + struct.pack("<I", len(c)) + c))
    return sha256(b"\x5a" + struct.pack("<I", len(digs)) + b"".join(digs)), digs


def zip_sections(z):
    """(entries, central directory, end of central directory) of a plain zip without comment games"""
    e = z.rfind(b"PK\x05\x06")
    cdsize, cdoff = struct.unpack("<II", z[e + 12:e + 20])
    return z[:cdoff], z[cdoff:cdoff + cdsize], z[e:], cdoff


def pe_reference(img):
    """Authenticode image digest (SHA-256) and page hash table of a PE image without an existing certificate table"""
    pe = struct.unpack("<I", img[0x3c:0x40])[0]
    machine, nsec = struct.unpack("<HH", img[pe + 4:pe + 8])
    optsize = struct.unpack("<H", img[pe + 20:pe + 22])[0]
    opt = pe + 24
    magic = struct.unpack("<H", img[opt:opt + 2])[0]
    dd4 = opt + (128 if magic == 0x10b else 144)
    size_of_headers = struct.unpack("<I", img[opt + 60:opt + 64])[0]
    cert_off, cert_size = struct.unpack("<II", img[dd4:dd4 + 8])
    if cert_size != 0:
        return None
    pagesz = 8192 if machine in (0x200, 0x184, 0x284) else 4096
    sectab = opt + optsize
    secs = []
    for i in range(nsec):
        raw, ptr = struct.unpack("<II", img[sectab + 40 * i + 16:sectab + 40 * i + 24])
        if raw:
            secs.append((ptr, raw))
    secs.sort()
    if secs and secs[0][0] < size_of_headers:
        size_of_headers = secs[0][0]
    hdr = img[:opt + 64] + img[opt + 68:dd4] + img[dd4 + 8:size_of_headers]
    h = hashlib.sha256(hdr)
    pages = [(0, sha256(hdr + bytes(pagesz - size_of_headers)))] if size_of_headers <= pagesz else None
    pos = size_of_headers
    last = 0
    for ptr, raw in secs:
        if ptr > pos:
            h.update(img[pos:ptr])
        data = img[ptr:ptr + raw]
        if len(data) != raw:
            return None
        h.update(data)
        if pages is not None:
            for k, pg in enumerate(chunks(data, pagesz)):
                pages.append((ptr + k * pagesz, sha256(pg + bytes(pagesz - len(pg)))))
        pos = ptr + raw
        last = pos
    h.update(img[pos:])
    if len(img) % 8:
        h.update(bytes(8 - len(img) % 8))
    table = None
    if pages is not None:
        pages.append((last, bytes(32)))
        table = b"".join(struct.pack("<I", o) + d for o, d in pages)
    return {"imprint": h.digest(), "pages": table, "secs": secs, "pagesz": pagesz, "orig": len(img), "cert_start": (len(img) + 7) // 8 * 8}


def pe_checksum(data, pe_start):
    """PE image checksum: 16-bit little-endian words with end-around carry, CheckSum field taken as zero, plus file length"""
    b = bytearray(data)
    if pe_start > 0:
        p = pe_start + 88
        for i in range(p, min(p + 4, len(b))):
            b[i] = 0
    if len(b) % 2:
        b.append(0)
    s = 0
    for (w,) in struct.iter_unpack("<H", bytes(b)):
        s += w
        if s > 0xffff:
            s -= 0xffff
    return (s + len(data)) & 0xffffffff


def expand(sizes):
    sizes = sizes or []
    if len(sizes) == 3 and sizes[0] == -1:
        return [sizes[1]] * sizes[2]
    return sizes


def cut(sizes, d):
    out = []
    for s in sizes:
        s = min(s, len(d))
        out.append(d[:s])
        d = d[s:]
    if d:
        out.append(d)
    return out


# ---------------------------------------------------------------------------------------------------------------------
class Eval:
    """collects model inputs so that they can be evaluated in one parallel batch"""

    def __init__(self, ctx, model_ok):
        self.ctx, self.model_ok = ctx, model_ok
        self.items = []   # (val, callback)

    def add(self, val, cb):
        if self.model_ok:
            self.items.append((val, cb))

    def run(self):
        if not self.items:
            return 0
        vals = [v for v, _ in self.items]

        def one(v):
            return self.ctx.run_model([v], timeout=900)[0]
        with concurrent.futures.ThreadPoolExecutor(max_workers=14) as ex:
            outs = list(ex.map(one, vals))
        for (_, cb), out in zip(self.items, outs):
            cb(out)
        return len(vals)


def short(c, i=None):
    d = {k: c[k] for k in ("id", "kind", "seed", "size", "params", "file") if k in c}
    if i is not None:
        d["script"] = c["scripts"][i]
        d["observed"] = c["obs"][i]
    d["reproduce"] = "drv-c09 -seed <seed> -scratch DIR c09hash  (case id %s); data = sha256(le64(seed)||le64(i)) stream" % c.get("id")
    return d


def check_hashers(ctx, cases, ev, stats):
    for c in cases:
        kind = c["kind"]
        obs, scripts = c["obs"], c["scripts"]
        stats["evaluations"] += len(obs)
        stats["kinds"][kind] = stats["kinds"].get(kind, 0) + len(obs)
        bad = [i for i, o in enumerate(obs) if o.get("panic")]
        if kind != "pechecksum":
            bad += [i for i, o in enumerate(obs) if o.get("err")]
        for i in bad[:1]:
            ctx.violation("C09:%s:error" % kind, "digester failed under split %s: %s" % (scripts[i]["name"], obs[i].get("panic") or obs[i].get("err")),
                          {"cases": [short(c, i)]})
        if bad:
            continue
        if kind == "merkle":
            data = gen_data(c["seed"], c["size"])
            cdir, eocd = bytes.fromhex(c["extra"]["cdir"]), bytes.fromhex(c["extra"]["eocd"])
            want, digs = apk_v2([data, cdir, eocd])
            for i, o in enumerate(obs):
                if o["digest"] != want.hex() or o["count"] != len(digs) or o["blocks"] != b"".join(digs).hex():
                    ctx.violation("C09:merkle:split-dependent", "APK v2 digest of %d bytes under write split %s differs from the reference (chunks of 1 MiB per section)" %
                                  (c["size"], scripts[i]["name"]), {"cases": [short(c, i)], "expected": want.hex()})
                    break
            stats["nontrivial"] += sum(1 for s in scripts if s["name"] != "single")
            msel = [i for i, s in enumerate(scripts) if s["model"]]
            if ctx.tier != "thorough" and c["size"] > 1000:
                keep = ("single", "B-1,1", "1,B", "zero-writes", "2B-1,2", "random0") if c["size"] <= MB + 1 else ("B-1,1", "2B-1,2")
                msel = [i for i in msel if scripts[i]["name"] in keep]

            def cb(out, c=c, i=None, obs=obs):
                status, pre, top, same, spec_eq = out
                if status != 0:
                    ctx.violation("C09:correspondence:merkle", "model status %d where the implementation succeeded" % status,
                                  {"cases": [short(c, i)], "broken": "correspondence C09.Run.run_merkle"}, False)
                    return
                md = sha256(bytes.fromhex(top) + b"".join(sha256(bytes.fromhex(p)) for p in pre)).hex()
                if obs[i]["digest"] != md:
                    ctx.violation("C09:correspondence:merkle", "model and implementation disagree on the merkle digest (split %s)" % c["scripts"][i]["name"],
                                  {"cases": [short(c, i)], "model_digest": md, "broken": "correspondence C09.Run.run_merkle"}, False)
                elif spec_eq != 1:
                    ctx.violation("C09:model-vs-spec:merkle", "model blocks differ from the Android v2 chunking", {"cases": [short(c, i)]}, False)
            for i in msel:   # one item per split so that the evaluations run in parallel
                ev.add([1, [data, cdir, eocd, [expand(scripts[i]["sizes"])]]], lambda out, cb=cb, i=i: cb(out, i=i))
        elif kind == "apkstream":
            z = open(c["file"], "rb").read()
            entries, cd, eo, cdoff = zip_sections(z)
            want, _ = apk_v2([entries, cd, eo])
            for i, o in enumerate(obs):
                if o["digest"] != want.hex() or o["sig_loc"] != cdoff:
                    ctx.violation("C09:apkstream:split-dependent", "APK content digest of the uploaded tar stream under read split %s differs from the v2 digest of the file" % scripts[i]["name"],
                                  {"cases": [short(c, i)], "expected": want.hex(), "expected_sig_loc": cdoff})
                    break
            stats["nontrivial"] += len(obs) - 1
        elif kind == "blockmap":
            zf = zipfile.ZipFile(c["file"])
            want = []
            datas = []
            for zi in zf.infolist():
                d = zf.read(zi.filename)
                datas.append(d)
                want.append({"name": zi.filename, "size": len(d), "hashes": [base64.b64encode(sha256(x)).decode() for x in chunks(d, 65536)], "listed": True})
            for i, o in enumerate(obs):
                got = [dict(m, hashes=m["hashes"] or []) for m in o["members"] or []]
                if got != want:
                    k = next((j for j in range(min(len(got), len(want))) if got[j] != want[j]), min(len(got), len(want)))
                    ctx.violation("C09:blockmap:split-dependent", "AppX block map under read split %s differs from 64 KiB blocks of the member data (member #%d)" % (scripts[i]["name"], k),
                                  {"cases": [dict(short(c, i), observed=(got[k] if k < len(got) else None))], "expected": want[k] if k < len(want) else None})
                    break
            stats["nontrivial"] += len(obs) - 1
            msc = [expand(s["sizes"])[:6000] for s in scripts]
            for j, d in enumerate(datas):
                def cb(out, c=c, j=j, w=want[j]):
                    blocks, same, spec_eq = out
                    hs = [base64.b64encode(sha256(bytes.fromhex(b))).decode() for b in blocks]
                    if hs != w["hashes"] or any(s != 1 for s in same) or spec_eq != 1:
                        ctx.violation("C09:correspondence:blockmap", "model blocks for member %s differ from the implementation's" % w["name"],
                                      {"cases": [short(c)], "broken": "correspondence C09.Run.run_loop addfile_blocks"}, False)
                ev.add([2, [d, msc]], cb)
        elif kind == "codepages":
            data = gen_data(c["seed"], c["size"])
            pages = chunks(data, 4096)
            want = b"".join(sha256(p) for p in pages).hex()
            for i, o in enumerate(obs):
                if (o["slots"] or "") != want or o["count"] != len(pages) or o["limit"] != len(data):
                    ctx.violation("C09:codepages:split-dependent", "code page hashes of %d bytes under read split %s differ from 4 KiB pages" % (c["size"], scripts[i]["name"]),
                                  {"cases": [short(c, i)], "expected": want[:128]})
                    break
            stats["nontrivial"] += len(obs) - 1

            def cb(out, c=c, want=want):
                blocks, same, spec_eq = out
                if "".join(sha256(bytes.fromhex(b)).hex() for b in blocks) != want or any(s != 1 for s in same) or spec_eq != 1:
                    ctx.violation("C09:correspondence:codepages", "model pages differ from the implementation's", {"cases": [short(c)], "broken": "correspondence C09.Run.run_loop hashpages"}, False)
            ev.add([3, [data, [expand(s["sizes"]) for s in scripts if s["model"]]]], cb)
        elif kind == "pedigest":
            img = open(c["file"], "rb").read()
            ref = pe_reference(img)
            if ref is None or ref["pages"] is None:
                stats["skipped"].append("pedigest case %s: no reference (existing certificate table or header larger than a page)" % c["id"])
                continue
            for i, o in enumerate(obs):
                if o["imprint"] != ref["imprint"].hex() or o["page_hashes"] != ref["pages"].hex() or o["orig_size"] != ref["orig"] or o["cert_start"] != ref["cert_start"]:
                    what = "imprint" if o["imprint"] != ref["imprint"].hex() else "page hashes" if o["page_hashes"] != ref["pages"].hex() else "sizes"
                    ctx.violation("C09:pedigest:split-dependent", "Authenticode %s of the PE image under read split %s differ from the reference" % (what, scripts[i]["name"]),
                                  {"cases": [short(c, i)], "expected_imprint": ref["imprint"].hex()})
                    break
            stats["nontrivial"] += len(obs) - 1
            # model: pages of every section
            table = bytes.fromhex(obs[0]["page_hashes"])
            ents = [(struct.unpack("<I", table[k:k + 4])[0], table[k + 4:k + 36]) for k in range(0, len(table), 36)]
            k = 1
            msc = [expand(s["sizes"])[:3000] for s in scripts[:6]]
            for ptr, raw in ref["secs"]:
                n = (raw + ref["pagesz"] - 1) // ref["pagesz"]

                def cb(out, c=c, mine=ents[k:k + n], ptr=ptr):
                    status, pages, same, spec_eq, last = out
                    got = [(o, sha256(bytes.fromhex(p))) for o, p in pages]
                    if status != 0 or got != mine or any(s != 1 for s in same) or spec_eq != 1:
                        ctx.violation("C09:correspondence:pedigest", "model pages of the section at 0x%x differ from the implementation's" % ptr,
                                      {"cases": [short(c)], "broken": "correspondence C09.Run.run_pe_section"}, False)
                ev.add([4, [ref["pagesz"], img[ptr:], ptr, raw, msc]], cb)
                k += n
        elif kind == "pechecksum":
            data = gen_data(c["seed"], c["size"])
            pe_start = c["params"]["pe_start"]
            want = pe_checksum(data, pe_start)
            P = pe_start + 88 if pe_start > 0 else -1
            for i, o in enumerate(obs):
                ws = cut(expand(scripts[i]["sizes"]), data)
                even_mid = all(len(w) % 2 == 0 for w in ws[:-1])
                if o.get("err"):
                    if even_mid:
                        ctx.violation("C09:pechecksum:error", "checksum refused a stream whose writes are all even but the last (%s): %s" % (scripts[i]["name"], o["err"]), {"cases": [short(c, i)]})
                    continue
                got = struct.unpack("<I", bytes.fromhex(o["sum"]))[0]
                if got != want and P % 2 == 1:
                    # odd e_lfanew: outside the PE format (NT headers are 4-byte aligned); recorded, not counted
                    note = "C09:pechecksum:odd-field-offset: with an odd CheckSum offset (e_lfanew %d) the field is never zeroed (got %08x, published algorithm %08x)" % (pe_start, got, want)
                    if note not in stats["notes"]:
                        stats["notes"].append(note)
                    continue
                if got != want:
                    pos, hit = 0, False
                    for w in ws[:-1]:
                        pos += len(w)
                        hit = hit or pos in (P, P + 2)
                    key = "C09:pechecksum:split-at-field" if hit else "C09:pechecksum:split-dependent"
                    ctx.violation(key, "PE checksum of %d bytes (e_lfanew %d) under write split %s is %08x, reference %08x" % (c["size"], pe_start, scripts[i]["name"], got, want),
                                  {"cases": [short(c, i)], "expected": "%08x" % want})
            stats["nontrivial"] += len(obs) - 1
            ex = c.get("extra") or {}
            if ex.get("fix_field"):
                img = bytearray(data)
                img[0:2] = b"MZ"
                img[0x3c:0x40] = struct.pack("<I", pe_start)
                wantf = pe_checksum(bytes(img), pe_start)
                gotf = struct.unpack("<I", bytes.fromhex(ex["fix_field"]))[0]
                stats["evaluations"] += 1
                if P % 2 == 1:
                    pass
                elif ex.get("fix_err") or ex.get("fix_only_field_changed") != "true" or gotf != wantf:
                    ctx.violation("C09:pechecksum:fixup-file", "FixPEChecksum on a %d-byte file with e_lfanew %d wrote %08x, reference %08x (%s)" %
                                  (c["size"], pe_start, gotf, wantf, ex.get("fix_err") or "io.Copy splits the file at 32 KiB"),
                                  {"cases": [short(c)], "expected": "%08x" % wantf, "fix": ex})
            msel = [i for i, s in enumerate(scripts) if s["model"]]

            def cb(out, c=c, msel=msel, obs=obs, want=want):
                per, spec = out
                if spec != want:
                    ctx.violation("C09:model-vs-reference:pechecksum", "Coq specification of the checksum differs from the python reference", {"cases": [short(c)]}, False)
                for k, i in enumerate(msel):
                    status, s, ok = per[k]
                    o = obs[i]
                    impl = None if o.get("err") else struct.unpack("<I", bytes.fromhex(o["sum"]))[0]
                    if (status != 0) != (impl is None) or (impl is not None and impl != s):
                        ctx.violation("C09:correspondence:pechecksum", "model and implementation disagree on the checksum (split %s)" % c["scripts"][i]["name"],
                                      {"cases": [short(c, i)], "model": [status, s], "broken": "correspondence C09.Run.run_cksum"}, False)
                        return
                    if ok == 1 and (P % 2 == 0 or P < 0) and (status != 0 or s != spec):
                        ctx.violation("C09:model-vs-spec:pechecksum", "model differs from the specification on a split inside the proved domain", {"cases": [short(c, i)]}, False)
                        return
            ev.add([5, [pe_start, data, [expand(scripts[i]["sizes"]) for i in msel]]], cb)


# ---------------------------------------------------------------------------------------------------------------------
def tar_members(stream):
    tf = tarfile.open(fileobj=io.BytesIO(stream), mode="r:")
    out = []
    for m in tf:
        out.append((m.name, tf.extractfile(m).read() if m.isfile() else b""))
    return out


ZIP_MODULES = ("jar", "apk", "appx", "vsix", "xap")


def check_readers(ctx, cases, ev, stats):
    for c in cases:
        stats["kinds"]["reader"] = stats["kinds"].get("reader", 0) + 1
        rep = {"module": c["module"], "input": os.path.basename(c["input"]), "len": c["len"],
               "reproduce": "drv-c09 -scratch DIR c09reader (module %s, input #%d)" % (c["module"], c["id"])}
        if c.get("err"):
            ctx.violation("C09:getreader:error", "transform of %s failed: %s" % (rep["input"], c["err"]), {"cases": [dict(rep, err=c["err"])]})
            continue
        reads = [("again", -1, h) for h in c["again"] or []] + [("after abandoned read of %d bytes" % k, k, h) for k, h in zip(c["partial"] or [], c["after"] or [])]
        stats["evaluations"] += 1 + len(reads) + c["races"]
        stats["nontrivial"] += len(c["partial"] or []) + c["races"]
        for what, k, h in reads:
            if h != c["sha"]:
                ctx.violation("C09:getreader:not-repeatable", "GetReader of the %s transform yields different bytes %s" % (c["module"], what),
                              {"cases": [dict(rep, abandoned_after=k, first_sha=c["sha"], later_sha=h)]})
                break
        if c["race_bad"]:
            ctx.violation("C09:replay:abandoned-reader-race",
                          "%s transform: a reader abandoned at a producer chunk boundary corrupts the next GetReader stream (%d of %d repetitions): %s" %
                          (c["module"], c["race_bad"], c["races"], c.get("race_detail", "")),
                          {"cases": [dict(rep, schedule=c.get("race_detail"), repetitions=c["races"], corrupted=c["race_bad"])]})
        # independent reading of the first stream
        stream = open(c["stream"], "rb").read()
        data = open(c["input"], "rb").read()
        mod = c["module"]
        want = None
        try:
            if mod in ("pe-coff", "pgp"):
                ok = stream == data
                want = "the file itself"
            elif mod in ZIP_MODULES:
                cdoff = zipfile.ZipFile(io.BytesIO(data)).start_dir
                want = [("zipdir.bin", data[cdoff:]), ("contents.zip", data)]
                ok = tar_members(stream) == want
            elif mod == "mach-o":
                want = [("exec", data)]
                ok = tar_members(stream) == want
            elif mod == "dmg":
                want = [("udifheader.bin", data[-512:]), ("contents.dmg", data)]
                ok = tar_members(stream) == want
            elif mod == "msi":
                ok = c.get("tar_digest") == c.get("file_digest") and len(c.get("tar_digest", "")) == 64
                want = "DigestMsiTar(stream) == DigestMSI(file)"
            else:
                ok = True
        except Exception as e:   # unreadable tar
            ok, want = False, "readable tar (%s)" % e
        if not ok:
            ctx.violation("C09:getreader:content", "the %s transform's stream is not %s" % (mod, want if isinstance(want, str) else [n for n, _ in want]),
                          {"cases": [dict(rep, tar_digest=c.get("tar_digest"), file_digest=c.get("file_digest"))]})
        if mod in ZIP_MODULES and len(data) <= 40000 and ok:
            def cb(out, c=c, want=want, rep=rep):
                got = [(bytes.fromhex(n).decode(), bytes.fromhex(b)) for n, b in out]
                if got != want:
                    ctx.violation("C09:correspondence:tarzip", "model tar framing differs from ZipToTar's", {"cases": [rep], "broken": "correspondence C09.Run.run_tar"}, False)
            ev.add([8, [cdoff, data]], cb)


TEMP_STATUS = (500, 502, 503, 504, 507)


def enc_on(c, a):
    """did relic offer/use compression on this attempt?  (Go's transport adds its own `Accept-Encoding: gzip` when relic sets
    none, so the header alone does not tell)"""
    if py_select(c["advertised"]):
        return a["content_enc"] != ""
    return c["advertised"] != "" and a["accept_enc"] == c["advertised"]


def py_select(advertised):
    toks = [t.split(";")[0].strip() for t in advertised.split(",")]
    return "x-snappy-framed" if "x-snappy-framed" in toks else "gzip" if "gzip" in toks else ""


def check_transport(ctx, cases, ev, stats):
    for c in cases:
        atts = c["attempts"] or []
        stats["kinds"][c["kind"]] = stats["kinds"].get(c["kind"], 0) + 1
        stats["evaluations"] += 1
        if len(atts) > 1:
            stats["nontrivial"] += 1
        rep = {k: c[k] for k in ("id", "kind", "module", "nhosts", "retries", "advertised", "script", "upload_len", "result")}
        rep["attempts"] = atts
        rep["reproduce"] = "drv-c09 -seed <seed> -scratch DIR c09%s (scenario #%d)" % ("stress" if c["kind"] == "stress" else "transport", c["id"])
        if c.get("err") and c["result"] != "error":
            ctx.violation("C09:transport:harness", "scenario could not run: %s" % c["err"], {"cases": [rep]}, False)
            continue
        nb, L = c["nhosts"], c["nhosts"]
        if nb < c["retries"]:
            L = -(-c["retries"] // nb) * nb
        # 1. every attempt whose body a host read to the end carries the complete standalone stream
        for k, a in enumerate(atts):
            early = a["behaviour"].endswith("-early")
            if a.get("body_sha") and a["body_sha"] != c["upload_sha"]:
                key = "C09:replay:abandoned-reader-race" if k > 0 and any(x["behaviour"].endswith("-early") for x in atts[:k]) else "C09:transport:body-differs"
                ctx.violation(key, "attempt %d (host %d, Content-Encoding %r) received %d bytes that differ from the %d-byte upload stream of the %s transform" %
                              (k, a["host"], a["content_enc"], a["body_len"], c["upload_len"], c["module"]), {"cases": [rep]})
                break
            if not early and not a.get("body_sha") and a["behaviour"] not in ("reset", "eof"):
                ctx.violation("C09:transport:body-unreadable", "attempt %d: the host could not decode the request body: %s" % (k, a.get("body_err")), {"cases": [rep]})
                break
            want_enc = (py_select(c["advertised"]), "")
            if a["content_enc"] not in want_enc:
                ctx.violation("C09:transport:encoding-choice", "attempt %d used Content-Encoding %r where the advertised %r calls for %r" %
                              (k, a["content_enc"], c["advertised"], want_enc), {"cases": [rep]})
                break
        # 2. an accepted response is one a host actually sent with a status below 300, unchanged
        if c["result"] == "ok":
            ra = c.get("resp_attempt", -1)
            if ra < 0 or ra >= len(atts) or c["status"] >= 300:
                ctx.violation("C09:transport:accepted-response", "the client returned a response that no host sent with a status below 300", {"cases": [rep]})
        # 3. bounded attempts, no compression after a 406
        if len(atts) > 2 * L:
            ctx.violation("C09:transport:attempts", "%d attempts for %d servers" % (len(atts), L), {"cases": [rep]})
        seen406 = False
        for k, a in enumerate(atts):
            if seen406 and enc_on(c, a):
                ctx.violation("C09:transport:encoding-after-406", "attempt %d still negotiates compression after a 406" % k, {"cases": [rep]})
                break
            code = a["behaviour"].split("-")[0]
            if (code == "406" or (code == "406enc" and a["content_enc"])) and enc_on(c, a):
                seen406 = True
        # 4. model: deterministic histories only (a host that answers before reading the body, or drops the connection, is
        #    seen by the client either as its status or as a connection error depending on timing)
        det = all(a["behaviour"] in ("ok", "406", "406enc") or a["behaviour"].isdigit() for a in atts)
        if det and c["kind"] == "transport":
            outs = []
            for a in atts:
                b = a["behaviour"]
                outs.append(200 if b == "ok" else (406 if a["content_enc"] else 200) if b == "406enc" else int(b))

            def cb(out, c=c, atts=atts, rep=rep):
                matt, res = out
                obs = [[a["host"], 1 if enc_on(c, a) else 0] for a in atts]
                kind = 0 if c["result"] == "ok" else 1
                if matt != obs or res[0] != kind:
                    ctx.violation("C09:correspondence:dorequest", "model of doRequest and the real client disagree: model attempts %s result %s, observed %s %s" %
                                  (matt, res, obs, c["result"]), {"cases": [rep], "broken": "correspondence C09.Run.run_request"}, False)
            ev.add([6, [nb, c["retries"], c["advertised"] != "", outs]], cb)


# ---------------------------------------------------------------------------------------------------------------------
# error path of an upload: sources that fail after k bytes, writers that fail, refused encodings
def adv_items(advertised):
    return [t.split(";")[0].strip().encode() for t in advertised.split(",")] if advertised else []


def fault_repro(c, cmd):
    d = {k: v for k, v in c.items() if k not in ("attempts",)}
    d["reproduce"] = "drv-c09 -seed <seed> -scratch DIR %s (case id %s); plain data = sha256(le64(seed)||le64(i)) stream of `size` bytes" % (cmd, c.get("id"))
    return d


class Picker:
    """buffers candidate reports per key and files the most telling one: a concrete failing input before a mechanism-only
    observation, then the highest score (e.g. the longest accepted prefix)"""

    def __init__(self, ctx):
        self.ctx, self.best = ctx, {}

    def add(self, key, detail, replay, found=True, score=0):
        rank = (1 if found else 0, score)
        if key not in self.best or rank > self.best[key][0]:
            self.best[key] = (rank, detail, replay, found)
        self.best.setdefault(key + "#n", [0])[0] += 1

    def flush(self):
        for key, v in self.best.items():
            if key.endswith("#n"):
                continue
            _, detail, replay, found = v
            n = self.best[key + "#n"][0]
            self.ctx.violation(key, detail + (" [%d cases under this key]" % n if n > 1 else ""), dict(replay, cases_under_key=n), found)


ERR_CLASS = {0: "nil", 5: "source", 901: "writer", 415: "unacceptable"}


def check_faults(ctx, cases, stats, model_ok):
    """cases of drv-c09 c09fault: compress / pipe / middleware.  Returns the number of model evaluations."""
    mvals, mcbs = [], []
    pk, pk2 = Picker(ctx), Picker(ctx)     # pk2: filled by the model callbacks, flushed by the caller after evaluation

    def madd(v, cb):
        if model_ok:
            mvals.append(v)
            mcbs.append(cb)
    for c in cases:
        kind = c["kind"]
        stats["kinds"][kind] = stats["kinds"].get(kind, 0) + 1
        stats["evaluations"] += 1
        if kind == "compress":
            faulted = c["src_fired"] or c["wr_fired"] or not c["known"]
            if faulted:
                stats["nontrivial"] += 1
            clean_dec = c["known"] and c["dec_err"] == ""
            where = "after %d of %d bytes" % (c["src_fault"], c["size"])
            if c["src_fired"] and c["ret"] == "nil":
                prefix = clean_dec and c["dec_sha"] != c["full_sha"]
                pk.add("C09:compress:read-error-swallowed",
                              "compress(%r) returned nil although reading the source failed %s (%s); the %d bytes it wrote %s" %
                              (c["enc"], where, c["src_kind"], c["written"],
                               "decode cleanly to %d bytes that are not the stream: a server would digest and sign them" % c["dec_len"] if prefix
                               else "do not decode to a different clean stream"),
                              {"cases": [fault_repro(c, "c09fault")]}, bool(prefix), (c["dec_len"] if prefix else 0) + (10 ** 9 if c["enc"] in ("gzip", "x-snappy-framed") else 0))
            if c["wr_fired"] and c["ret"] == "nil":
                pk.add("C09:compress:write-error-swallowed", "compress(%r) returned nil although the writer failed during %s (after %d bytes)" %
                              (c["enc"], c["wr_phase"], c["wr_limit"]), {"cases": [fault_repro(c, "c09fault")]}, False)
            if not c["known"] and c["ret"] != "unacceptable":
                pk.add("C09:compress:unknown-encoding", "compress(%r) did not refuse the encoding: %s" % (c["enc"], c["ret"]),
                              {"cases": [fault_repro(c, "c09fault")]}, False)
            if c["ret"] == "nil" and not faulted and not (clean_dec and c["dec_sha"] == c["full_sha"]):
                pk.add("C09:compress:roundtrip", "compress(%r) of %d healthy bytes does not decode back to them (%s)" %
                              (c["enc"], c["size"], c["dec_err"] or "different bytes"), {"cases": [fault_repro(c, "c09fault")]})
            outs = [0 if c["known"] else 415,
                    5 if c["src_fired"] else 901 if (c["wr_fired"] and c["wr_phase"] == "copy") else 0,
                    901 if (c["wr_phase"] == "close" and c["wr_limit"] >= 0) else 0]
            if c["src_fired"] and c["wr_fired"]:
                continue

            def cb(out, c=c, outs=outs):
                want = ERR_CLASS.get(out[0], "other:%d" % out[0])
                if want != c["ret"]:
                    pk2.add("C09:correspondence:compress", "model of compress (translated program) returns %s where the implementation returned %s (effects setup/copy/close = %s)" %
                                  (want, c["ret"], outs), {"cases": [fault_repro(c, "c09fault")], "model": out, "broken": "correspondence C09.Run.run_errflow compress_prog"}, False)
            madd([9, [0, outs, []]], cb)
        elif kind == "pipe":
            if c.get("err"):
                ctx.violation("C09:upload:harness", "pipe case could not run: %s" % c["err"], {"cases": [fault_repro(c, "c09fault")]}, False)
                continue
            if c["src_fired"]:
                stats["nontrivial"] += 1
            what = "a %d-byte %s stream whose source fails %s (after %d bytes, %s), advertised %r, Content-Encoding %r" % (
                c["full_len"], c["stream"], c["what"], c["src_fault"], c["src_kind"], c["advertised"], c["content_enc"])
            if c["dec_clean"] and c["dec_sha"] != c["full_sha"]:
                pk.add("C09:upload:prefix-accepted",
                              "%s: the request body ends cleanly (%d wire bytes) and the server side decodes %d bytes that differ from the client-side stream — it would digest and sign them" %
                              (what, c["wire_len"], c["dec_len"]), {"cases": [fault_repro(c, "c09fault")]}, True, c["dec_len"])
            elif c["src_fired"] and (c["wire_term"] == "clean" or c["dec_clean"]):
                pk.add("C09:upload:read-error-clean-end",
                              "%s: the request body ends cleanly although reading the stream failed; standalone signing of the same stream fails, the remote path signs" % what,
                              {"cases": [fault_repro(c, "c09fault")]})
            elif not c["src_fired"] and not c["dec_clean"]:
                pk.add("C09:upload:healthy-rejected", "a healthy %d-byte stream under Content-Encoding %r is not delivered: wire %s, decoder %s" %
                              (c["full_len"], c["content_enc"], c["wire_term"], c["dec_open_err"] or c["dec_err"]), {"cases": [fault_repro(c, "c09fault")]})
            data = open(c["file"], "rb").read() if c["stream"] != "plain" else gen_data(c["seed"], c["size"])
            k = c["src_fault"]
            fires = 0 <= k <= len(data)

            def cb(out, c=c):
                ce, wlen, term, view, spec, alone, cerr = out
                m_clean = term == 0
                m_ok = view[0] == 1
                same = (bytes.fromhex(ce).decode() == c["content_enc"] and m_clean == (c["wire_term"] == "clean") and m_ok == c["dec_clean"]
                        and (not m_ok or sha256(bytes.fromhex(view[1])).hex() == c["dec_sha"]))
                if not same:
                    pk2.add("C09:correspondence:upload",
                                  "model of the upload attempt and the implementation disagree: model encoding %r, body ends %s, server view %s; observed %r, %s, %s" %
                                  (bytes.fromhex(ce).decode(), "cleanly" if m_clean else "with error %d" % term, "digests %d bytes" % (len(view[1]) // 2) if m_ok else "nothing",
                                   c["content_enc"], c["wire_term"], "digests %d bytes" % c["dec_len"] if c["dec_clean"] else "nothing"),
                                  {"cases": [fault_repro(c, "c09fault")], "broken": "correspondence C09.Run.run_upload"}, False)
                elif view != spec or alone != spec:
                    pk2.add("C09:model-vs-spec:upload", "model server view differs from the specification / standalone view", {"cases": [fault_repro(c, "c09fault")]}, False)
            madd([10, [adv_items(c["advertised"]), data[:k] if fires else data, 5 if fires else 0, c["script"] or [], -1]], cb)
        elif kind == "middleware":
            known = c["content_enc"] in ("", "identity", "gzip", "x-snappy-framed")
            if not known:
                stats["nontrivial"] += 1
            if not known and c["calls"] > 0:
                pk.add("C09:middleware:undecodable-reached-handler", "a request with Content-Encoding %r reached the signing handler (status %d): it digests bytes that are not the client-side stream" %
                              (c["content_enc"], c["status"]), {"cases": [fault_repro(c, "c09fault")]})
            if known and c["body"] == "valid" and (c["calls"] != 1 or c["seen_sha"] != c["plain_sha"] or c["seen_err"] or c["status"] != 200):
                pk.add("C09:middleware:decoded-body-differs", "a valid %r body was not handed to the handler decoded (calls %d, status %d, %s)" %
                              (c["content_enc"], c["calls"], c["status"], c["seen_err"] or "digest differs"), {"cases": [fault_repro(c, "c09fault")]})
            if c["body"] == "valid" or not known:
                def cb(out, c=c, known=known):
                    ran, decoded, refused, dk, sk = out
                    if ran != c["calls"] or (dk >= 0) != known or sk != dk:
                        pk2.add("C09:correspondence:middleware", "model of the middleware: handler calls %d, codec kinds %d/%d; implementation: %d calls, status %d" %
                                      (ran, dk, sk, c["calls"], c["status"]), {"cases": [fault_repro(c, "c09fault")], "broken": "correspondence C09.Run.run_middleware"}, False)
                madd([11, [c["content_enc"].encode(), [0 if known else 1, 1 if py_select(c["accept_enc"]) == "" else 0, 0]]], cb)
    pk.flush()
    return mvals, mcbs, pk2


def check_fault_http(ctx, cases, stats, model_ok):
    mvals, mcbs = [], []
    pk, pk2 = Picker(ctx), Picker(ctx)
    for c in cases:
        stats["kinds"]["faulthttp"] = stats["kinds"].get("faulthttp", 0) + 1
        stats["evaluations"] += 1
        atts = c["attempts"] or []
        rep = fault_repro(c, "c09faulthttp")
        rep["attempts"] = atts
        if c.get("err") and c["result"] != "error":
            ctx.violation("C09:transport:harness", "fault scenario could not run: %s" % c["err"], {"cases": [rep]}, False)
            continue
        k, n = c["fault_at"], c["upload_len"]
        fires = 0 <= k <= n
        calls = c["fault_calls"] or []
        if fires:
            stats["nontrivial"] += 1
        what = "%s upload of %d bytes, advertised %r, source failing %s (after %d bytes, %s) on %s" % (
            c["module"], n, c["advertised"], c["what"], k, c["fault_kind"], "GetReader call(s) %s" % calls if calls else "every attempt")
        bad = False
        for i, a in enumerate(atts):
            if a.get("body_sha") and a["body_sha"] != c["upload_sha"]:
                pk.add("C09:transport:body-differs",
                              "%s: host %d (Content-Encoding %r) read a request body of %d bytes to a clean end that differs from the %d-byte client-side stream" %
                              (what, a["host"], a["content_enc"], a["body_len"], n), {"cases": [rep]}, True, a["body_len"])
                bad = True
                break
        if not bad and c["result"] == "ok" and c["signed_sha"] != c["upload_sha"]:
            pk.add("C09:transport:fault-signed", "%s: the client accepted a signature over a digest that is not the stream's" % what, {"cases": [rep]})
            bad = True
        if not bad and c["result"] == "ok" and fires and not calls:
            pk.add("C09:transport:fault-signed", "%s: remote signing succeeds where standalone signing of the same failing stream fails" % what, {"cases": [rep]})
        # model: one entry per client attempt
        enc = c["advertised"] != ""          # what doRequest tests: encodings != ""
        compressing = py_select(c["advertised"]) != ""
        ins, enc_now = [], enc
        for i in range(max(c["calls"], 1) + 2):
            beh = c["script"][i] if i < len(c["script"]) else "ok"
            code = 200 if beh == "ok" else (406 if (enc_now and compressing) else 200) if beh == "406enc" else int(beh)
            faulty = fires and (not calls or (i + 1) in calls)
            ins.append([code, 5 if faulty else 0, 1 if c["fault_kind"] == "ueof" else 0])
            if code == 406 and enc_now and not faulty:
                enc_now = False

        def cb(out, c=c, rep=rep):
            matt, res = out
            kind = 0 if c["result"] == "ok" else 1
            if len(matt) != c["calls"] or res[0] != kind:
                pk2.add("C09:correspondence:dorequest-faults", "model of doRequest with failing sources: %d attempts, result %s; the real client made %d attempts, result %s" %
                              (len(matt), res, c["calls"], c["result"]), {"cases": [rep], "broken": "correspondence C09.Run.run_attempts"}, False)
        if model_ok:
            mvals.append([12, [c["nhosts"], c["retries"], enc, ins]])
            mcbs.append(cb)
    pk.flush()
    return mvals, mcbs, pk2


def check_select(ctx, ev, stats):
    """selectEncoding's token handling against the python rule, through the model"""
    heads = ["", "gzip", "x-snappy-framed", "gzip, x-snappy-framed", "x-snappy-framed, gzip", "identity", "br", "gzip, gzip", "deflate, gzip, br", "x-snappy-framed, x-snappy-framed, gzip"]
    for h in heads:
        toks = [t.strip().encode() for t in h.split(",")] if h else [b""]

        def cb(out, h=h):
            got, spec = bytes.fromhex(out[0]).decode(), bytes.fromhex(out[1]).decode()
            if got != py_select(h) or spec != got:
                ctx.violation("C09:model-vs-reference:select", "selectEncoding model %r, Coq spec %r, python rule %r for %r" % (got, spec, py_select(h), h), {"cases": [{"header": h}]}, False)
        ev.add([7, toks], cb)


def raise_stack_limit():
    """the extracted model recurses over multi-megabyte lists (non-tail-recursive app/firstn); children inherit the limit"""
    import resource
    soft, hard = resource.getrlimit(resource.RLIMIT_STACK)
    want = hard if hard != resource.RLIM_INFINITY else resource.RLIM_INFINITY
    try:
        resource.setrlimit(resource.RLIMIT_STACK, (want, hard))
    except (ValueError, OSError):
        pass


def run(ctx, replay=None):
    raise_stack_limit()
    if replay:
        # the drivers are deterministic functions of (seed, tier): a replay re-runs them with the recorded pair and the
        # recorded case is re-evaluated together with the rest (schedule-dependent findings are re-explored, not replayed)
        rp = json.load(open(replay))
        ctx.seed, ctx.tier = int(rp.get("seed", ctx.seed)), rp.get("tier", ctx.tier)
    st = ctx.prepare(["C09_gen"], ["C09"], "C09.Run")
    fp_prefixes = ["signers/apk", "lib/signappx", "lib/authenticode", "lib/fruit/csblob", "lib/zipslicer", "signers:", "signers/zipbased", "signers/msi",
                   "signers/macho", "signers/dmg", "cmdline/remotecmd", "lib/compresshttp", "internal/httperror:.FromResponse"]
    if not st["harness_ok"]:
        return ctx.finish("proof", ctx.proof_coverage([], fp_prefixes), [])
    stats = {"evaluations": 0, "nontrivial": 0, "kinds": {}, "skipped": [], "notes": []}
    ev = Eval(ctx, st["model_ok"])
    rc, out, err = ctx.drv(["c09hash"], timeout=900)
    if rc != 0:
        ctx.violation("C09:driver-crash", "driver c09hash failed: " + err[-400:], {"stderr": err[-2000:]}, False)
    hcases = [json.loads(l) for l in out.splitlines() if l.strip()]
    check_hashers(ctx, hcases, ev, stats)
    rc, out, err = ctx.drv(["c09reader"], timeout=600)
    if rc != 0:
        ctx.violation("C09:driver-crash", "driver c09reader failed: " + err[-400:], {"stderr": err[-2000:]}, False)
    rcases = [json.loads(l) for l in out.splitlines() if l.strip()]
    check_readers(ctx, rcases, ev, stats)
    rc, out, err = ctx.drv(["c09transport"], timeout=900)
    if rc != 0:
        ctx.violation("C09:driver-crash", "driver c09transport failed: " + err[-400:], {"stderr": err[-2000:]}, False)
    tcases = [json.loads(l) for l in out.splitlines() if l.strip()]
    stress_n = "200" if ctx.tier == "thorough" else "3"
    rc, out, err = ctx.drv(["-n", stress_n, "c09stress"], timeout=1800)
    tcases += [json.loads(l) for l in out.splitlines() if l.strip()]
    check_transport(ctx, tcases, ev, stats)
    check_select(ctx, ev, stats)
    # error path of an upload
    rc, out, err = ctx.drv(["c09fault"], timeout=600)
    if rc != 0:
        ctx.violation("C09:driver-crash", "driver c09fault failed: " + err[-400:], {"stderr": err[-2000:]}, False)
    fcases = [json.loads(l) for l in out.splitlines() if l.strip()]
    mv1, mc1, pka = check_faults(ctx, fcases, stats, st["model_ok"])
    rc, out, err = ctx.drv(["c09faulthttp"], timeout=900)
    if rc != 0:
        ctx.violation("C09:driver-crash", "driver c09faulthttp failed: " + err[-400:], {"stderr": err[-2000:]}, False)
    hcases2 = [json.loads(l) for l in out.splitlines() if l.strip()]
    mv2, mc2, pkb = check_fault_http(ctx, hcases2, stats, st["model_ok"])
    if len(fcases) < 500 or len(hcases2) < 100:
        ctx.violation("C09:driver-crash", "fault drivers produced too few cases (%d, %d)" % (len(fcases), len(hcases2)), {"stderr": err[-2000:]}, False)
    try:
        nmodel = ev.run()
        outs = ctx.run_model(mv1 + mv2, timeout=900, jobs=14)
        for cb, o in zip(mc1 + mc2, outs):
            cb(o)
        pka.flush()
        pkb.flush()
        nmodel += len(outs)
    except RuntimeError as e:
        nmodel = 0
        ctx.violation("C09:model-eval", str(e)[-300:], {"output": str(e)}, False)
    ctx.proof_verdict()
    cov = ctx.proof_coverage(["srcgen translator (constants, branch conditions, call tables of the anchored functions)",
                              "correspondence harness cmd/drv-c09 (real relic digesters under scripted splits)",
                              "python reference digests in checks/c09.py (hashlib)"], fp_prefixes)
    cov.update({"evaluations": stats["evaluations"] + nmodel, "distinct_nontrivial": stats["nontrivial"],
                "rule": "digesters: every block hasher x data sizes around its block size x split scripts {single, B-1, B, B+1, 2B±1, zero-length, primes, all-ones, random}, "
                        "non-trivial = a split other than one single write/read (PE images whose SizeOfHeaders exceeds the page size are excluded: DigestPE panics on them, reported to C11); "
                        "readers: every transform x abandoned reads at {0,1,511,512,513,1024,32K,32K+512,64K+512,half,len-1,len} + chunk-boundary schedule repetitions, non-trivial = a read after an abandoned one; "
                        "transport: all failover histories of length <= 2 over 16 host behaviours + random histories (1-3 hosts, retries 0-5, 6 advertised encodings), non-trivial = more than one attempt; "
                        "error path: compress x {'', identity, gzip, x-snappy-framed, 3 refused names} x sizes {0,1,1000,32K,64K,64K+1,200000} x source failing (EIO / EIO with the last bytes / wrapped unexpected EOF) after "
                        "k in {0,1,half,len-1,len,32K,64K-1,64K,64K+1} x writer failing during the copy or during Close; CompressRequest+pipe+DecompressRequest x 6 advertised lists x the same fault points "
                        "plus every tar boundary of a jar upload (inside/after headers, inside/at the end of members, between members, before/inside the end-of-archive marker); Middleware x 8 Content-Encoding values x "
                        "{valid, garbage, truncated} bodies; real client x 5 advertised lists x {every attempt fails, first attempt only, after a 406 fallback, after failover}; non-trivial = a fault actually fired",
                "samples": [short(c, 1) for c in hcases[2:4]] + [{k: c[k] for k in ("module", "nhosts", "retries", "advertised", "script", "result")} for c in tcases[20:22]]
                + [{k: c[k] for k in ("kind", "enc", "size", "src_fault", "src_kind", "wr_phase", "ret")} for c in fcases[10:12]]
                + [{k: c[k] for k in ("kind", "advertised", "stream", "size", "src_fault", "what", "wire_term", "dec_clean")} for c in fcases if c["kind"] == "pipe"][5:7]
                + [{k: c[k] for k in ("kind", "module", "advertised", "script", "fault_at", "fault_kind", "fault_calls", "what", "calls", "result")} for c in hcases2[3:5]],
                "input_distribution": stats["kinds"], "model_evaluations": nmodel, "skipped": stats["skipped"]})
    ctx.notes.extend(stats["notes"])
    return ctx.finish("proof", cov, ["io.ReadFull/io.CopyN/io.Copy loop semantics (Go library)", "gzip/snappy round trip of complete streams (library; premise codec_roundtrip of the upload theorems; every accepted attempt's decoded body is compared with the standalone stream)",
                                     "net/http: a request whose body reader fails is aborted and the handler's body read fails; a body that ends normally is delivered completely (observed on every fault case)",
                                     "SHA-2 (hashlib and crypto/sha256 agree)", "goroutine/pipe scheduling is not modelled: observed by repetition only",
                                     "net/http transport behaviour for early responses is observed, not modelled"])
