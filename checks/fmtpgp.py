# FMTPGP — format module: what relic itself contributes to OpenPGP artefacts.
#  (1) the packet framing of the inline signer (lib/pgptools/inline.go serializeHeader / serializeLiteral);
#  (2) the cleartext signature path (lib/pgptools/clearsign.go ClearSign / DetachClearSign / tailClearSign / MergeClearSign /
#      headClearSign): how the encoder's stream is split into lines and put together again.
# Serves C01 C03 C05 (and C11: no hang) through body(ctx); run(ctx) is the standalone entry (bin/check FMTPGP).
# The oracles are written here from RFC 4880 (4.2.2 / 5.9 packet reader; 5.2.4 / 6.2 / 7 / 7.1 cleartext framework, text
# canonicalisation, v4 signature hashing, PKCS#1 v1.5 RSA check); they never look at the model.  gpgv is a second, external opinion.
import base64, hashlib, json, os, re, shutil, subprocess
from vlib.common import Hex, REPO

ASPECT_THEOREMS = {
    "C01": ["pgp_len_roundtrip", "pgp_tag_roundtrip", "pgp_cs_sign_then_verify", "pgp_cs_roundtrip", "pgp_cs_refuses_long_line", "pgp_cs_signs_short_lines"],
    "C03": ["pgp_literal_roundtrip", "pgp_cs_text_preserved"],
    "C05": ["pgp_len_roundtrip", "pgp_tag_roundtrip", "pgp_literal_roundtrip", "pgp_cs_hashed_eq_spec", "pgp_cs_body_eq_spec", "pgp_cs_roundtrip", "pgp_cs_sign_then_verify"],
    "C11": ["pgp_cs_no_hang", "pgp_cs_refuses_long_line"],
    "C02": [], "C08": [],
}

SCAN_LIMIT = 65536      # bufio.MaxScanTokenSize: relic refuses (explicit error) documents with an emitted line of this many bytes or more
GPG_LINE_LIMIT = 19900  # GnuPG cannot read cleartext lines of about 20000 characters (its own limit; such files are judged by the reference only)


def splitmix(seed, n):
    out, s, M = bytearray(), seed, (1 << 64) - 1
    for _ in range(n):
        s = (s + 0x9e3779b97f4a7c15) & M
        z = s
        z = ((z ^ (z >> 30)) * 0xbf58476d1ce4e5b9) & M
        z = ((z ^ (z >> 27)) * 0x94d049bb133111eb) & M
        out.append((z ^ (z >> 31)) & 0xff)
    return bytes(out)


def rfc_new_len(b):
    """RFC 4880 4.2.2: returns ('definite', n, consumed) | ('partial', chunk, consumed) | None"""
    if not b:
        return None
    o1 = b[0]
    if o1 < 192:
        return ("definite", o1, 1)
    if o1 < 224:
        if len(b) < 2:
            return None
        return ("definite", ((o1 - 192) << 8) + b[1] + 192, 2)
    if o1 < 255:
        return ("partial", 1 << (o1 & 0x1f), 1)
    if len(b) < 5:
        return None
    return ("definite", int.from_bytes(b[1:5], "big"), 5)


# ------------------------------------------------------------------ RFC 4880 reference for cleartext signatures (model-free)
def dearmor(data):
    """6.2: (type, header lines, binary)"""
    lines = [l.rstrip(b" \t\r") for l in data.split(b"\n")]
    i = 0
    while i < len(lines) and not lines[i].startswith(b"-----BEGIN "):
        i += 1
    if i == len(lines):
        raise ValueError("no armor header line")
    typ = lines[i][11:-5]
    i += 1
    hdrs = []
    while i < len(lines) and lines[i] != b"":
        hdrs.append(lines[i])
        i += 1
    i += 1
    b64 = b""
    while i < len(lines) and not lines[i].startswith(b"=") and not lines[i].startswith(b"-----END "):
        b64 += lines[i]
        i += 1
    if i >= len(lines):
        raise ValueError("armor tail line missing")
    return typ, hdrs, base64.b64decode(b64, validate=True)


def packets(b):
    """4.2: (tag, body) of each packet; definite lengths only"""
    i = 0
    while i < len(b):
        t = b[i]
        i += 1
        if not t & 0x80:
            raise ValueError("bad packet tag octet")
        if t & 0x40:
            tag = t & 0x3f
            d = rfc_new_len(b[i:i + 5])
            if not d or d[0] != "definite":
                raise ValueError("partial or truncated length")
            n = d[1]
            i += d[2]
        else:
            tag, lt = (t >> 2) & 0xf, t & 3
            if lt == 3:
                raise ValueError("indeterminate length")
            k = 1 << lt
            n = int.from_bytes(b[i:i + k], "big")
            i += k
        yield tag, b[i:i + n]
        i += n


def mpi(b, i):
    k = (int.from_bytes(b[i:i + 2], "big") + 7) // 8
    return int.from_bytes(b[i + 2:i + 2 + k], "big"), i + 2 + k


def rsa_pubkeys(keybin):
    out = []
    for tag, body in packets(keybin):
        if tag in (6, 14) and body[0] == 4 and body[5] in (1, 3):
            n, i = mpi(body, 6)
            e, i = mpi(body, i)
            out.append((n, e))
    return out


HASHES = {8: ("SHA256", hashlib.sha256, "3031300d060960864801650304020105000420"),
          9: ("SHA384", hashlib.sha384, "3041300d060960864801650304020205000430"),
          10: ("SHA512", hashlib.sha512, "3051300d060960864801650304020305000440"),
          2: ("SHA1", hashlib.sha1, "3021300906052b0e03021a05000414")}


def verify_text_sig(sigbin, text, keys):
    """5.2.4: a v4 signature over `text` (already canonical); RSA PKCS#1 v1.5. returns (ok, info dict)"""
    for tag, body in packets(sigbin):
        if tag != 2:
            continue
        if body[0] != 4:
            return False, {"why": "signature version %d" % body[0]}
        sigtype, pkalg, halg = body[1], body[2], body[3]
        hl = int.from_bytes(body[4:6], "big")
        hashed = body[:6 + hl]
        i = 6 + hl
        i += 2 + int.from_bytes(body[i:i + 2], "big")
        left16 = body[i:i + 2]
        i += 2
        if halg not in HASHES:
            return False, {"why": "hash algorithm %d" % halg}
        name, hf, prefix = HASHES[halg]
        prefix = bytes.fromhex(prefix)
        h = hf(text + hashed + b"\x04\xff" + len(hashed).to_bytes(4, "big")).digest()
        info = {"sigtype": sigtype, "hash": name, "pkalg": pkalg}
        if h[:2] != left16:
            return False, dict(info, why="the digest of the canonical text does not match the signature (left 16 bits differ)")
        if pkalg not in (1, 3):
            return False, dict(info, why="not an RSA signature")
        s, _ = mpi(body, i)
        for n, e in keys:
            k = (n.bit_length() + 7) // 8
            want = b"\x00\x01" + b"\xff" * (k - 3 - len(prefix) - len(h)) + b"\x00" + prefix + h
            if pow(s, e, n).to_bytes(k, "big") == want:
                return True, info
        return False, dict(info, why="RSA verification failure")
    return False, {"why": "no signature packet"}


BLANK = b" \t\r"


def doc_lines(doc):
    ls = doc.split(b"\n")
    if ls[-1] == b"":
        ls.pop()
    return ls


def canon_text(doc):
    """5.2.4 + 7.1: lines end at LF; trailing blanks (and the CR of a CR LF ending) removed; joined with CR LF; no final line ending"""
    return b"\r\n".join(l.rstrip(BLANK) for l in doc_lines(doc))


def emitted_line_lengths(doc):
    """length of every line of the dash-escaped cleartext any RFC 4880 7.1 writer emits for doc"""
    out = []
    for l in doc_lines(doc):
        l = l.rstrip(BLANK)
        out.append(len(l) + (2 if l[:1] == b"-" else 0))
    return out


def read_cleartext(msg):
    """7: (hash names, canonical text, armored signature bytes, cleartext lines)"""
    ls = msg.split(b"\n")
    if ls[0].rstrip(BLANK) != b"-----BEGIN PGP SIGNED MESSAGE-----":
        raise ValueError("missing cleartext header line")
    i = 1
    hashes = []
    while i < len(ls) and ls[i].rstrip(BLANK) != b"":
        m = re.match(rb"^Hash: *(.*)$", ls[i].rstrip(BLANK))
        if not m:
            raise ValueError("armor header other than Hash: %r" % ls[i][:40])
        hashes += [x.strip().decode("latin1") for x in m.group(1).split(b",")]
        i += 1
    if i >= len(ls):
        raise ValueError("no empty line after the armor headers")
    i += 1
    body = []
    while i < len(ls) and ls[i].rstrip(BLANK) != b"-----BEGIN PGP SIGNATURE-----":
        l = ls[i]
        if l[:2] == b"- ":
            l = l[2:]
        body.append(l.rstrip(BLANK))
        i += 1
    if i >= len(ls):
        raise ValueError("signature armor not found")
    return hashes, b"\r\n".join(body), b"\n".join(ls[i:]), body


def first_diff(a, b):
    n = min(len(a), len(b))
    for i in range(n):
        if a[i] != b[i]:
            return i
    return n


class Gpgv:
    """capability-probed gpgv with a keyring made from the armored public key (dearmored here)"""

    def __init__(self, scratch, keybin):
        self.exe = shutil.which("gpgv")
        self.home = os.path.join(scratch, "gpgv-home")
        if self.exe:
            os.makedirs(self.home, exist_ok=True)
            os.chmod(self.home, 0o700)
            self.keyring = os.path.join(self.home, "keyring.gpg")
            open(self.keyring, "wb").write(keybin)

    def verify(self, path):
        p = subprocess.run([self.exe, "--homedir", self.home, "--keyring", self.keyring, "--status-fd", "1", path],
                           stdout=subprocess.PIPE, stderr=subprocess.PIPE, timeout=60)
        st = p.stdout.decode(errors="replace")
        return p.returncode == 0 and "GOODSIG" in st and "VALIDSIG" in st, (st + p.stderr.decode(errors="replace"))[-400:]


def err_class(s):
    if not s:
        return 0
    if "token too long" in s:
        return 2
    if "signature block not found" in s:
        return 3
    return 9


# ------------------------------------------------------------------ cleartext signatures: oracle + correspondence
def clearsign_part(ctx, st, res, viol, replay_obj=None):
    keydir = os.path.join(REPO, "functest", "testkeys")
    keybin = dearmor(open(os.path.join(keydir, "rsa2048.pgp"), "rb").read())[2]
    keys = rsa_pubkeys(keybin)
    args = ["fmtpgp-cs", keydir]
    if replay_obj is not None:
        p = os.path.join(ctx.scratch, "replay.doc")
        open(p, "wb").write(bytes.fromhex(replay_obj["doc_hex"]))
        args += ["replay", replay_obj.get("hash", "SHA256"), p]
    rc, out, err = ctx.drv(args, timeout=600)
    if rc != 0:
        viol("C05", "driver-crash", "cleartext driver failed: " + err[-400:], {"stderr": err[-2000:]}, False)
        return
    recs = [json.loads(l) for l in out.splitlines() if l.strip()]
    CS = [r for r in recs if r["kind"] == "cs"]
    HK = [r for r in recs if r["kind"] == "hook"]
    gpgv = Gpgv(ctx.scratch, keybin)
    cov = {"documents": len(CS), "raw_streams": len(HK), "signed": 0, "refused_over_limit": 0, "reference_verified": 0, "gpgv_good": 0,
           "gpgv_skipped_line_limit": 0, "gpgv_skipped_nul_line": 0, "lib_verified": 0, "max_line": 0}
    if not gpgv.exe:
        res["notes"].append("gpgv not installed: cleartext signatures judged by the RFC 4880 reference computation only")
    distinct = res["_distinct"]

    def rep(r, doc, **kw):
        o = {"cases": [{k: v for k, v in r.items() if k not in ("sig",)}], "hash": r["hash"], "doc_len": len(doc),
             "how": "bin/check FMTPGP --replay <this file> signs doc_hex again with the real DetachClearSign + MergeClearSign and judges the result"}
        o["doc_hex"] = doc.hex()
        o.update(kw)
        return o
    for r in CS:
        res["evaluations"] += 1
        doc = open(r["doc"], "rb").read()
        lens = emitted_line_lengths(doc)
        maxline = max(lens) if lens else 0
        cov["max_line"] = max(cov["max_line"], maxline)
        shape = (min(maxline, 70001) if maxline >= 4000 else maxline // 500, doc[-1:] == b"\n", b"\r\n" in doc, any(l[:1] == b"-" for l in doc_lines(doc)), r["hash"])
        distinct.add(("cs",) + shape)
        what = "%s (%d bytes, longest emitted line %d, %s)" % (r["name"], len(doc), maxline, r["hash"])
        if r.get("hang"):
            key = "clearsign-long-line-hang" if maxline >= SCAN_LIMIT else "clearsign-hang"
            viol("C01+C05+C11", key, "%s did not return within the wall-clock limit on document %s: no error, no output" % (r["hang"], what), rep(r, doc))
            continue
        e = r.get("detach_err") or r.get("merge_err") or r.get("stream_err")
        if not r.get("detach_err") and not r.get("stream_err") and not bytes.fromhex(r.get("sig") or "").startswith(b"-----BEGIN PGP SIGNATURE-----"):
            viol("C01+C05", "clearsign-no-signature-block", "DetachClearSign reports success for %s but returns %d bytes that are not an armored signature (the client then fails with: %s)"
                 % (what, len(r.get("sig") or "") // 2, r.get("merge_err")), rep(r, doc))
            continue
        if e:
            if maxline >= SCAN_LIMIT and err_class(e) == 2:
                cov["refused_over_limit"] += 1      # explicit refusal of a line the reader cannot hold: allowed
            else:
                viol("C01", "clearsign-refused", "relic refuses to clear-sign the well-formed document %s: %s" % (what, e), rep(r, doc))
            continue
        cov["signed"] += 1
        art = open(r["out"], "rb").read()
        want = canon_text(doc)
        try:
            hashes, text, sigarm, lines = read_cleartext(art)
            sigbin = dearmor(sigarm)[2]
        except Exception as ex:
            viol("C01+C03+C05", "clearsign-unreadable", "the cleartext message relic wrote for %s does not parse per RFC 4880 section 7: %s" % (what, ex), rep(r, doc))
            continue
        ok, info = verify_text_sig(sigbin, text, keys)
        if text != want:
            k = first_diff(text, want)
            nl, nw = len(lines), len(doc_lines(doc))
            viol("C01+C03+C05", "clearsign-text-changed",
                 "the cleartext relic emitted for %s is not the document: an RFC 4880 7.1 reader recovers %d lines / %d bytes, the canonical document has %d lines / %d bytes (first difference at byte %d); signature over the emitted text: %s"
                 % (what, nl, len(text), nw, len(want), k, "verifies" if ok else "BAD (%s)" % info.get("why")), rep(r, doc, emitted_text_lines=nl, document_lines=nw))
            continue
        if not ok:
            viol("C01+C05", "clearsign-bad-signature", "the signature in relic's cleartext message for %s does not verify over the RFC 4880 canonical text: %s" % (what, info.get("why")), rep(r, doc))
            continue
        cov["reference_verified"] += 1
        if info["sigtype"] != 1:
            viol("C05", "clearsign-sig-class", "cleartext signature for %s has signature type 0x%02x, RFC 4880 7 requires 0x01" % (what, info["sigtype"]), rep(r, doc))
        if hashes != [info["hash"]] or info["hash"] != r["hash"]:
            viol("C01+C05", "clearsign-hash-header", "Hash header %s / signature digest %s / requested %s for %s" % (hashes, info["hash"], r["hash"], what), rep(r, doc))
        if r.get("lib_verify") == "ok":
            cov["lib_verified"] += 1
        else:
            viol("C01", "clearsign-lib-verify", "go-crypto's cleartext reader rejects relic's output for %s: %s" % (what, r.get("lib_verify")), rep(r, doc))
        if gpgv.exe:
            if maxline >= GPG_LINE_LIMIT:
                cov["gpgv_skipped_line_limit"] += 1
            elif any(l[:1] == b"\0" for l in doc_lines(doc)):
                cov["gpgv_skipped_nul_line"] += 1     # gpg treats a line that starts with NUL as empty (C string); not text
            else:
                good, txt = gpgv.verify(r["out"])
                if good:
                    cov["gpgv_good"] += 1
                else:
                    viol("C05", "clearsign-gpgv-rejects", "gpgv rejects relic's cleartext signature for %s: %s" % (what, txt[-200:].replace("\n", " | ")), rep(r, doc))
    for r in HK:
        res["evaluations"] += 1
        distinct.add(("hook", r["name"]))
        if r.get("hang"):
            viol("C11", "clearsign-reader-hang", "%s did not return on raw stream %s" % (r["hang"], r["name"]), {"cases": [r], "stream_hex": open(r["stream"], "rb").read().hex()})
    # ---------------- correspondence with the Coq model
    mism, predicted = [], []
    if st["model_ok"]:
        fake = b"-----BEGIN PGP SIGNATURE-----\n\nZmFrZSBzaWduYXR1cmUgaGVyZQ==\n=AAAA\n-----END PGP SIGNATURE-----"
        vals, idx = [], []
        for r in CS:
            if r.get("hang") or not r.get("stream"):
                continue
            doc = open(r["doc"], "rb").read()
            stream = open(r["stream"], "rb").read()
            k = stream.find(b"\n-----BEGIN PGP SIGNATURE-----\n")
            if k < 0 or stream[-2:] != b"\r\n":
                mism.append(("cs-stream-shape", r["name"], "the stream of pgptools.ClearSign has no signature armor at a line start / no final CR LF"))
                continue
            armor = stream[k + 1:-2]
            sig = bytes.fromhex(r["sig"]) if r.get("sig") else b"-----BEGIN PGP SIGNATURE-----\r\n\r\nAAAA\r\n-----END PGP SIGNATURE-----\r\n"
            vals.append([2, r["hash"].encode(), doc, armor, fake, sig])
            idx.append((r, doc, stream, sig))
        hvals = [[3, open(r["stream"], "rb").read()] for r in HK if not r.get("hang")]
        try:
            outv = run_model_big(ctx, vals + hvals)
        except RuntimeError as e:
            viol("C05", "model-eval", str(e)[-300:], {"output": str(e)}, False)
            outv = []
        for (r, doc, stream, sig), m in zip(idx, outv[:len(idx)]):
            mstream, dst, dout, mst, mout, hashed, canon_eq, read_ok = m
            name = r["name"]
            if bytes.fromhex(mstream) != stream:
                mism.append(("cs-stream", name, "encoder stream differs at byte %d" % first_diff(bytes.fromhex(mstream), stream)))
            if dst != err_class(r.get("detach_err")) or (dst == 0 and dout != (r.get("sig") or "")):
                mism.append(("cs-detach", name, "model status %d, real %r" % (dst, r.get("detach_err") or "ok")))
            if bytes.fromhex(r.get("sig") or "").startswith(b"-----BEGIN PGP SIGNATURE-----"):   # (configFromSig is not modelled: merge is compared for armored blocks only)
                real = open(r["out"], "rb").read() if r.get("out") else None
                if mst != err_class(r.get("merge_err")) or (mst == 0 and bytes.fromhex(mout) != real):
                    mism.append(("cs-merge", name, "model status %d, real %r%s" % (mst, r.get("merge_err") or "ok",
                                                                                  "" if real is None or mst != 0 else ", outputs differ at byte %d" % first_diff(bytes.fromhex(mout), real))))
                # the model's hashed text is what the library signed: the real signature verifies over it
                try:
                    okh, _ = verify_text_sig(dearmor(sig)[2], bytes.fromhex(hashed), keys)
                except Exception:
                    okh = False
                if not okh:
                    mism.append(("cs-hashed", name, "the real signature does not verify over the model's hashed text"))
                if mst == 0 and not read_ok:
                    predicted.append(name)      # the MODEL of the current code says: an RFC reader does not get (Hash header, canonical text, signature lines) back
            if not canon_eq:
                predicted.append(name)
        for r, m in zip([r for r in HK if not r.get("hang")], outv[len(idx):]):
            hs, ho, ts, to = m
            rh, rt = open(r["head_out"], "rb").read(), open(r["tail_out"], "rb").read()
            if hs != err_class(r.get("head_err")) or bytes.fromhex(ho) != rh:
                mism.append(("hook-head", r["name"], "model status %d / %d bytes, real %r / %d bytes" % (hs, len(ho) // 2, r.get("head_err") or "ok", len(rh))))
            if ts != err_class(r.get("tail_err")) or (ts == 0 and bytes.fromhex(to) != rt):
                mism.append(("hook-tail", r["name"], "model status %d / %d bytes, real %r / %d bytes" % (ts, len(to) // 2, r.get("tail_err") or "ok", len(rt))))
        if mism:
            viol("C05", "clearsign-correspondence", "cleartext model and implementation disagree on %d observation(s) (first: %s)" % (len(mism), " / ".join(str(x) for x in mism[0])),
                 {"mismatches": [list(m) for m in mism[:20]], "by_kind": {k: sum(1 for m in mism if m[0] == k) for k in set(m[0] for m in mism)},
                  "broken": "correspondence FmtPGP.Run (kinds 2, 3)"}, False)
    res["cs_mismatches"] = len(mism)
    cov["model_predicts_violation_on"] = predicted[:10]
    res["cs_coverage"] = cov
    if CS:
        res["samples"].append({k: CS[min(30, len(CS) - 1)].get(k) for k in ("name", "hash", "doc_len", "out_len", "detach_ms", "merge_ms", "lib_verify")})


def run_model_big(ctx, vals):
    """ctx.run_model with a larger stack for the extracted OCaml (recursion depth = document length, up to 150 000)"""
    import resource
    soft, hard = resource.getrlimit(resource.RLIMIT_STACK)
    want = 1 << 30
    try:
        resource.setrlimit(resource.RLIMIT_STACK, (want if hard == resource.RLIM_INFINITY or hard >= want else hard, hard))
    except (ValueError, OSError):
        pass
    try:
        return ctx.run_model(vals, timeout=900)
    finally:
        try:
            resource.setrlimit(resource.RLIMIT_STACK, (soft, hard))
        except (ValueError, OSError):
            pass


def body(ctx, replay=None):
    pid = ctx.pid
    rel = (lambda a: pid.startswith("FMT") or pid == a)
    st = ctx.prepare(["FmtPGP_gen"], ["FmtPGP"], "FmtPGP.Run")
    res = {"unit": "fmtpgp", "status": st, "evaluations": 0, "distinct": 0, "samples": [], "notes": [], "_distinct": set()}
    if not st["harness_ok"]:
        res.pop("_distinct")
        return res

    def viol(aspect, what, detail, obj, found=True):
        # aspect may name several properties: an unreadable packet breaks C01 (the signature cannot verify), C03 (payload) and C05 (RFC reader)
        if any(rel(a) for a in aspect.split("+")):
            ctx.violation("%s:pgp:%s" % (pid, what), detail, obj, found)
    robj = json.load(open(replay)) if replay else None
    if robj is not None and "doc_hex" in robj:
        clearsign_part(ctx, st, res, viol, robj)
        res["distinct"] = len(res.pop("_distinct"))
        return res
    if replay:
        recs = robj.get("cases", [])
    else:
        rc, out, err = ctx.drv(["fmtpgp"], timeout=300)
        if rc != 0:
            viol("C05", "driver-crash", "driver failed: " + err[-400:], {"stderr": err[-2000:]}, False)
            res.pop("_distinct")
            return res
        recs = [json.loads(l) for l in out.splitlines() if l.strip()]
    H = [r for r in recs if r["kind"] == "hdr"]
    L = [r for r in recs if r["kind"] == "lit"]
    distinct = res["_distinct"]
    # ---------------- model-free oracle: an RFC 4880 reader must get the definite length / the payload back
    for r in H:
        b = bytes.fromhex(r["octets"])
        res["evaluations"] += 1
        if r.get("err"):
            continue
        d = rfc_new_len(b[1:])
        distinct.add(("hdr", len(b)))
        if not b or b[0] != 0xc0 | r["ptype"] or d is None or d[0] != "definite" or d[1] != r["length"] or d[2] != len(b) - 1:
            viol("C01+C03+C05", "packet-length-encoding", "serializeHeader(%d, %d) wrote %s: an RFC 4880 reader sees %s" % (r["ptype"], r["length"], r["octets"], d), {"cases": [r]})
    for r in L:
        res["evaluations"] += 1
        if r.get("err"):
            continue
        pkt = bytes.fromhex(r["packet"])
        name = bytes.fromhex(r["name"])[:255]
        content = bytes.fromhex(r["content"]) if r.get("content") else splitmix(r["seed"], r["size"])
        d = rfc_new_len(pkt[1:])
        ok = False
        if pkt and pkt[0] == 0xcb and d and d[0] == "definite":
            bodyb = pkt[1 + d[2]:]
            if len(bodyb) == d[1] and len(bodyb) >= 2 and bodyb[0] == 0x62 and bodyb[1] == len(name):
                ok = bodyb[2:2 + len(name)] == name and bodyb[2 + len(name):6 + len(name)] == b"\0\0\0\0" and bodyb[6 + len(name):] == content
        distinct.add(("lit", len(name), d[2] if d else -1))
        if not ok:
            viol("C01+C03+C05", "literal-packet-unreadable", "serializeLiteral(name %d bytes, content %d bytes): an RFC 4880 reader does not get the payload back (length octets %s -> %s)" %
                 (len(name), r["size"], pkt[1:6].hex(), d), {"cases": [dict(r, packet=r["packet"][:120])]})
    # ---------------- correspondence with the Coq model
    mism = []
    if st["model_ok"]:
        vals = [[0, r["ptype"], r["length"]] for r in H] + [[1, Hex(bytes.fromhex(r["name"]).hex()), Hex((bytes.fromhex(r["content"]) if r.get("content") else splitmix(r["seed"], r["size"])).hex())] for r in L if r["size"] <= 25000]
        try:
            out = ctx.run_model(vals)
        except RuntimeError as e:
            viol("C05", "model-eval", str(e)[-300:], {"output": str(e)}, False)
            out = []
        for r, m in zip(H, out[:len(H)]):
            if not r.get("err") and m[0] != r["octets"]:
                mism.append(("hdr", r, m[0]))
        for r, m in zip([r for r in L if r["size"] <= 25000], out[len(H):]):
            if (m[0] != 0) != bool(r.get("err")) or (m[0] == 0 and m[1] != r["packet"]):
                mism.append(("lit", dict(r, packet=r["packet"][:120]), str(m[1])[:120]))
        if mism:
            viol("C05", "correspondence", "model and implementation disagree on %d case(s) (first: %s %s)" % (len(mism), mism[0][0], json.dumps(mism[0][1])[:200]),
                 {"cases": [m[1] for m in mism[:5]], "broken": "correspondence FmtPGP.Run"}, False)
    res["samples"] = [H[5], H[len(H) // 2]] + [dict(L[3], packet=L[3]["packet"][:60])] if len(H) > 5 and len(L) > 3 else []
    res["mismatches"] = len(mism)
    res["cases"] = {"headers": len(H), "literals": len(L)}
    # ---------------- cleartext signatures
    if not replay:
        clearsign_part(ctx, st, res, viol)
        res["cases"].update({"cleartext_documents": res.get("cs_coverage", {}).get("documents"), "raw_streams": res.get("cs_coverage", {}).get("raw_streams")})
        res["mismatches"] += res.get("cs_mismatches", 0)
    res["distinct"] = len(res.pop("_distinct"))
    return res


def run(ctx, replay=None):
    ctx.unit = "fmtpgp"
    cb = body(ctx, replay)
    ctx.proof_verdict()
    cov = ctx.proof_coverage(["srcgen translator (thresholds and octet expressions of serializeHeader incl. byte() wrap-around, shifts; guards of serializeLiteral; "
                              "clearsign.go: line reader kind and limits of headClearSign / tailClearSign, loop bodies as step lists, marker test, terminators, error returns, "
                              "pipe closing of the two goroutines; bufio.MaxScanTokenSize / defaultBufSize / Scanner's buffer-full test from GOROOT; whitespace, dash, LF tests and "
                              "escape prefix of go-crypto's dashEscaper from the module cache)",
                              "correspondence harness cmd/drv-fmtpgp (real serializeHeader / serializeLiteral, real ClearSign / DetachClearSign / MergeClearSign, real headClearSign / tailClearSign through verif hooks)",
                              "hand-modelled from the Go standard library and go-crypto sources, tied by correspondence only: bufio.Scanner + ScanLines, bufio.Reader.ReadLine, io.Pipe blocking, dashEscaper.Write/Close"],
                             ["lib/pgptools:.serializeHeader", "lib/pgptools:.serializeLiteral", "lib/pgptools:.ClearSign", "lib/pgptools:.DetachClearSign", "lib/pgptools:.tailClearSign",
                              "lib/pgptools:.MergeClearSign", "lib/pgptools:.headClearSign"])
    cov.update({"evaluations": cb["evaluations"], "distinct_nontrivial": cb["distinct"],
                "rule": "packet lengths at every RFC 4880 / implementation threshold +-3 (0, 191/192, 223/224, 255, 8383/8384, 16383, 65535, 2^24, 2^31, 2^32-1) and 400 random lengths x 4 packet tags; "
                        "literal data packets whose body length sits on each threshold for file name lengths 0,1,11,255,256,300; oracle: RFC 4880 reader written in the check. "
                        "Cleartext signatures: documents with one line of 1000..70000 bytes incl. 4094..4098, 8191..8193, 65533..65537 in three positions, dash lines on the limits, trailing blanks, "
                        "CR LF, lone CR (also where a 4096-byte buffer ends), missing final newline, empty / newline-only documents, 40 random documents; SHA-256 and SHA-512; every emitted file is read "
                        "by an RFC 4880 section 7 reader written in the check, its signature verified by a hand-written v4 / PKCS#1 computation, its text compared with the canonical document, "
                        "and by gpgv where installed and within GnuPG's own line limit; raw streams through the real headClearSign / tailClearSign for the model comparison",
                "samples": cb["samples"], "case_counts": cb.get("cases"), "model_mismatches": cb.get("mismatches"), "clearsign": cb.get("cs_coverage"), "aspect_theorems": ASPECT_THEOREMS})
    return ctx.finish("proof", cov, ["only what relic writes itself is modelled at the byte level: the packet framing of the inline signer and the line splitting / re-joining of the cleartext path; "
                                     "one-pass signature and signature packets and the ASCII armor are written by ProtonMail/go-crypto (the armor is an arbitrary byte string in the theorems)",
                                     "documents with an emitted line of 65536 bytes or more are refused by relic with an explicit error (bufio.Scanner limit): proved and tested as the allowed refusal class",
                                     "GnuPG cannot read cleartext lines of about 20000 characters and treats a line starting with NUL as empty: such outputs are judged by the reference computation only"])
