# FMTPGP — format module: OpenPGP packet framing written by relic's inline signer (lib/pgptools/inline.go serializeHeader /
# serializeLiteral).  Serves C01 C03 C05 through body(ctx); run(ctx) is the standalone entry (bin/check FMTPGP).
# The oracle is an RFC 4880 (4.2.2 / 5.9) packet reader written here; it never looks at the model.
import hashlib, json
from vlib.common import Hex

ASPECT_THEOREMS = {
    "C01": ["pgp_len_roundtrip", "pgp_tag_roundtrip"],
    "C03": ["pgp_literal_roundtrip"],
    "C05": ["pgp_len_roundtrip", "pgp_tag_roundtrip", "pgp_literal_roundtrip"],
    "C02": [], "C08": [],
}


def splitmix(seed, n):
    out, s, M = bytearray(), seed, (1 << 64) - 1
    for _ in range(n):
        s = (s + 0x9e3779b97f4a7c15) & M
        z = s
        z = ((z ^ (z >> 30)) * 0xbf58476d1ce4e5b9) & M
        z = ((z ^ (z >> 27)) * 0x94d049bb133111eb) & M
        out.append((z ^ (z >> 31)) & 0xff)
    return bytes(out)


def rfc_new_len(b):
    """RFC 4880 4.2.2: returns ('definite', n, consumed) | ('partial', chunk, consumed) | None"""
    if not b:
        return None
    o1 = b[0]
    if o1 < 192:
        return ("definite", o1, 1)
    if o1 < 224:
        if len(b) < 2:
            return None
        return ("definite", ((o1 - 192) << 8) + b[1] + 192, 2)
    if o1 < 255:
        return ("partial", 1 << (o1 & 0x1f), 1)
    if len(b) < 5:
        return None
    return ("definite", int.from_bytes(b[1:5], "big"), 5)


def body(ctx, replay=None):
    pid = ctx.pid
    rel = (lambda a: pid.startswith("FMT") or pid == a)
    st = ctx.prepare(["FmtPGP_gen"], ["FmtPGP"], "FmtPGP.Run")
    res = {"unit": "fmtpgp", "status": st, "evaluations": 0, "distinct": 0, "samples": [], "notes": []}
    if not st["harness_ok"]:
        return res

    def viol(aspect, what, detail, obj, found=True):
        # aspect may name several properties: an unreadable packet breaks C01 (the signature cannot verify), C03 (payload) and C05 (RFC reader)
        if any(rel(a) for a in aspect.split("+")):
            ctx.violation("%s:pgp:%s" % (pid, what), detail, obj, found)
    if replay:
        recs = json.load(open(replay)).get("cases", [])
    else:
        rc, out, err = ctx.drv(["fmtpgp"], timeout=300)
        if rc != 0:
            viol("C05", "driver-crash", "driver failed: " + err[-400:], {"stderr": err[-2000:]}, False)
            return res
        recs = [json.loads(l) for l in out.splitlines() if l.strip()]
    H = [r for r in recs if r["kind"] == "hdr"]
    L = [r for r in recs if r["kind"] == "lit"]
    distinct = set()
    # ---------------- model-free oracle: an RFC 4880 reader must get the definite length / the payload back
    for r in H:
        b = bytes.fromhex(r["octets"])
        res["evaluations"] += 1
        if r.get("err"):
            continue
        d = rfc_new_len(b[1:])
        distinct.add(("hdr", len(b)))
        if not b or b[0] != 0xc0 | r["ptype"] or d is None or d[0] != "definite" or d[1] != r["length"] or d[2] != len(b) - 1:
            viol("C01+C03+C05", "packet-length-encoding", "serializeHeader(%d, %d) wrote %s: an RFC 4880 reader sees %s" % (r["ptype"], r["length"], r["octets"], d), {"cases": [r]})
    for r in L:
        res["evaluations"] += 1
        if r.get("err"):
            continue
        pkt = bytes.fromhex(r["packet"])
        name = bytes.fromhex(r["name"])[:255]
        content = bytes.fromhex(r["content"]) if r.get("content") else splitmix(r["seed"], r["size"])
        d = rfc_new_len(pkt[1:])
        ok = False
        if pkt and pkt[0] == 0xcb and d and d[0] == "definite":
            bodyb = pkt[1 + d[2]:]
            if len(bodyb) == d[1] and len(bodyb) >= 2 and bodyb[0] == 0x62 and bodyb[1] == len(name):
                ok = bodyb[2:2 + len(name)] == name and bodyb[2 + len(name):6 + len(name)] == b"\0\0\0\0" and bodyb[6 + len(name):] == content
        distinct.add(("lit", len(name), d[2] if d else -1))
        if not ok:
            viol("C01+C03+C05", "literal-packet-unreadable", "serializeLiteral(name %d bytes, content %d bytes): an RFC 4880 reader does not get the payload back (length octets %s -> %s)" %
                 (len(name), r["size"], pkt[1:6].hex(), d), {"cases": [dict(r, packet=r["packet"][:120])]})
    # ---------------- correspondence with the Coq model
    mism = []
    if st["model_ok"]:
        vals = [[0, r["ptype"], r["length"]] for r in H] + [[1, Hex(bytes.fromhex(r["name"]).hex()), Hex((bytes.fromhex(r["content"]) if r.get("content") else splitmix(r["seed"], r["size"])).hex())] for r in L if r["size"] <= 25000]
        try:
            out = ctx.run_model(vals)
        except RuntimeError as e:
            viol("C05", "model-eval", str(e)[-300:], {"output": str(e)}, False)
            out = []
        for r, m in zip(H, out[:len(H)]):
            if not r.get("err") and m[0] != r["octets"]:
                mism.append(("hdr", r, m[0]))
        for r, m in zip([r for r in L if r["size"] <= 25000], out[len(H):]):
            if (m[0] != 0) != bool(r.get("err")) or (m[0] == 0 and m[1] != r["packet"]):
                mism.append(("lit", dict(r, packet=r["packet"][:120]), str(m[1])[:120]))
        if mism:
            viol("C05", "correspondence", "model and implementation disagree on %d case(s) (first: %s %s)" % (len(mism), mism[0][0], json.dumps(mism[0][1])[:200]),
                 {"cases": [m[1] for m in mism[:5]], "broken": "correspondence FmtPGP.Run"}, False)
    res["distinct"] = len(distinct)
    res["samples"] = [H[5], H[len(H) // 2]] + [dict(L[3], packet=L[3]["packet"][:60])] if len(H) > 5 and len(L) > 3 else []
    res["mismatches"] = len(mism)
    res["cases"] = {"headers": len(H), "literals": len(L)}
    return res


def run(ctx, replay=None):
    ctx.unit = "fmtpgp"
    cb = body(ctx, replay)
    ctx.proof_verdict()
    cov = ctx.proof_coverage(["srcgen translator (thresholds and octet expressions of serializeHeader incl. byte() wrap-around, shifts; guards of serializeLiteral)",
                              "correspondence harness cmd/drv-fmtpgp (real serializeHeader / serializeLiteral through verif hooks)"],
                             ["lib/pgptools:.serializeHeader", "lib/pgptools:.serializeLiteral"])
    cov.update({"evaluations": cb["evaluations"], "distinct_nontrivial": cb["distinct"],
                "rule": "packet lengths at every RFC 4880 / implementation threshold +-3 (0, 191/192, 223/224, 255, 8383/8384, 16383, 65535, 2^24, 2^31, 2^32-1) and 400 random lengths x 4 packet tags; "
                        "literal data packets whose body length sits on each threshold for file name lengths 0,1,11,255,256,300; oracle: RFC 4880 reader written in the check",
                "samples": cb["samples"], "case_counts": cb.get("cases"), "model_mismatches": cb.get("mismatches"), "aspect_theorems": ASPECT_THEOREMS})
    return ctx.finish("proof", cov, ["only the packet framing relic writes itself is modelled; one-pass signature and signature packets are written by ProtonMail/go-crypto"])
