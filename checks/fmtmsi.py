# FMTMSI — format module: the MSI Authenticode digest layer (lib/authenticode msiverify.go msitar.go msisign.go msinames.go;
# signers/msi).  Serves C01 C02 C03 C05 C08 C11 through body(ctx); run(ctx) is the standalone entry (bin/check FMTMSI).
# A compound file is taken as a tree of directory entries with stream contents (the sector layer is unit C18).
# The oracle below is written from the format description and never looks at the Coq model or at relic:
#   [MS-CFB] 2.6.1 entry layout; children of a storage are digested in the order given by memcmp of the raw UTF-16LE names over
#   the shorter NameLength (terminator included), longer name first on a tie; stream contents, storages recursively, then the
#   storage's CLSID; the two signature streams (\5DigitalSignature, \5MsiDigitalSignatureEx: STREAMS of the ROOT storage, names
#   compared as [MS-CFB] 2.6.4 compares names) are left out; MsiDigitalSignatureEx = digest over, per entry, name without
#   terminator (not root) / CLSID (root, storage) / low 32 bits of the size (stream) / state bits / both times (not root),
#   parent first, children in the same order; imprint = H(content part) or H(H(metadata part) + content part).
import collections, functools, hashlib, json, struct
from vlib.common import Hex

ASPECT_THEOREMS = {
    "C01": ["msi_law_extract", "msi_law_hashin", "msi_sign_then_verify", "msi_verifier_mode", "msi_embed_defined", "msi_refuses_clean", "msi_signature_named_storage",
            "msi_tar_eq_direct", "msi_tar_exmeta_refuted", "msi_tar_decoded_sig_refuted"],
    "C08": ["msi_law_hashin", "msi_resign_history", "msi_is_signed_spec", "msi_signature_named_storage", "msi_wf_preserved"],
    "C03": ["msi_law_payload", "msi_only_signature_streams_differ"],
    "C02": ["msi_protect", "msi_hash_is_concat_pieces", "msi_protect_ex", "msi_protect_boundary_refuted", "msi_protect_names_refuted",
            "msi_protect_ex_ambiguity_refuted"],
    "C05": ["msi_layout_is_mscfb", "msi_less_eq_spec", "msi_less_embedded_nul_refuted", "msi_sort_is_spec_sort", "msi_sort_unique",
            "msi_digest_order_spec", "msi_ex_prehash_spec", "msi_ex_prehash_fields", "msi_hashin_eq_spec", "msi_digest_tree_shape_independent"],
    "C11": ["msi_less_no_panic", "msi_prehash_no_panic", "msi_decode_total"],
}
ASPECTS = ("C01", "C02", "C03", "C05", "C08", "C11")

SIG, SIGEX = "\x05DigitalSignature", "\x05MsiDigitalSignatureEx"


def sha(b):
    return hashlib.sha256(b).digest()


# ---------------------------------------------------------------------------------------------------- the specification reader
class Ent:
    __slots__ = ("raw", "name", "nlen", "type", "clsid", "state", "times", "size4", "units")

    def __init__(self, raw):
        self.raw = raw
        self.name = raw[:64]
        self.nlen = struct.unpack_from("<H", raw, 0x40)[0]
        self.type = raw[0x42]
        self.clsid = raw[0x50:0x60]
        self.state = raw[0x60:0x64]
        self.times = raw[0x64:0x74]
        self.size4 = raw[0x78:0x7C]
        self.units = struct.unpack_from("<32H", raw, 0)

    def wf_name(self):
        if self.nlen % 2 or not 4 <= self.nlen <= 64:
            return False
        k = self.nlen // 2 - 1
        return all(u != 0 for u in self.units[:k]) and self.units[k] == 0

    def name_units(self):
        return self.units[:max(0, self.nlen // 2 - 1)]


class Node:
    def __init__(self, j):
        self.e = Ent(bytes.fromhex(j["raw"]))
        d = j.get("data", "")
        self.cut = d.startswith("sha:")
        if self.cut:      # signature blob of a signed file: only digest and length are kept
            self.data = b"\0" * int(d.split(":")[2])
            self.data_sha = d.split(":")[1]
        else:
            self.data = bytes.fromhex(d)
            self.data_sha = hashlib.sha256(self.data).hexdigest()
        self.kids = [Node(k) for k in j.get("kids", [])]


def cfb_upper(u):
    """[MS-CFB] 2.6.4: simple upper-casing of one UTF-16 code unit (surrogates and multi-unit results left alone)"""
    if 0xD800 <= u <= 0xDFFF:
        return u
    s = chr(u).upper()
    return ord(s) if len(s) == 1 and ord(s) < 0x10000 else u


def same_name(units, text):
    return len(units) == len(text) and all(cfb_upper(u) == cfb_upper(ord(c)) for u, c in zip(units, text))


def is_sig_name(e):
    return same_name(e.name_units(), SIG) or same_name(e.name_units(), SIGEX)


def is_sig_stream(e, is_root):
    return is_root and e.type == 2 and is_sig_name(e)


def spec_cmp(a, b):
    n = min(a.e.nlen, b.e.nlen)
    x, y = a.e.name[:n], b.e.name[:n]
    if x != y:
        return -1 if x < y else 1
    return -1 if a.e.nlen > b.e.nlen else 1


def spec_sorted(kids):
    return sorted(kids, key=functools.cmp_to_key(spec_cmp))


def spec_wf(t):
    """the class on which the specification is unambiguous; returns (ok, reason)"""
    if t.e.type != 5:
        return False, "root type"

    def rec(n, root):
        seen = set()
        for k in n.kids:
            if k.e.type not in (1, 2):
                return "child type %d" % k.e.type
            if not k.e.wf_name():
                return "name"
            key = k.e.name[:k.e.nlen]
            if key in seen:
                return "duplicate name"
            seen.add(key)
            if k.e.type == 2 and struct.unpack("<I", k.e.size4)[0] != len(k.data):
                return "size"
            if k.e.type == 1:
                r = rec(k, False)
                if r:
                    return r
        return None
    r = rec(t, True)
    return (r is None), r


def spec_body(n, is_root=True):
    out = b""
    for k in spec_sorted(n.kids):
        if is_sig_stream(k.e, is_root):
            continue
        if k.e.type == 2:
            out += k.data
        elif k.e.type == 1:
            out += spec_body(k, False)
    return out + n.e.clsid


def spec_pre_entry(e):
    out = b""
    if e.type != 5:
        out += e.name[:e.nlen - 2]
    if e.type in (5, 1):
        out += e.clsid
    if e.type == 2:
        out += e.size4
    out += e.state
    if e.type != 5:
        out += e.times
    return out


def spec_pre(n, is_root=True):
    out = spec_pre_entry(n.e)
    for k in spec_sorted(n.kids):
        if is_sig_stream(k.e, is_root):
            continue
        if k.e.type == 2:
            out += spec_pre_entry(k.e)
        elif k.e.type == 1:
            out += spec_pre(k, False)
    return out


def spec_imprint(t, extended):
    b = spec_body(t)
    return sha(sha(spec_pre(t)) + b).hex() if extended else sha(b).hex()


def root_streams(t, text):
    return [k for k in t.kids if k.e.type == 2 and same_name(k.e.name_units(), text)]


def payload(t):
    """everything that is not one of the two signature streams, order-insensitive: path -> (type, content digest, metadata)"""
    out = {}

    def rec(n, path, root):
        for k in n.kids:
            if is_sig_stream(k.e, root):
                continue
            p = path + (k.e.name[:k.e.nlen],)
            out[p] = (k.e.type, k.data_sha if k.e.type == 2 else "", k.e.clsid.hex(), k.e.state.hex(), k.e.times.hex(), k.e.size4.hex() if k.e.type == 2 else "")
            if k.e.type == 1:
                rec(k, p, False)
    rec(t, (), True)
    out[()] = (5, "", t.e.clsid.hex(), t.e.state.hex(), "", "")
    return out


def features(t):
    """exotic inputs with a known effect on the tar route (msiDecodeName is relic's own member naming)"""
    f = set()
    for k in t.kids:
        if k.e.type == 2 and not is_sig_name(k.e):
            d = decode_name(k.e.name_units())
            if d == "__exmeta":
                f.add("exmeta-name")
            if same_name([ord(c) for c in d], SIG) or same_name([ord(c) for c in d], SIGEX):
                f.add("decoded-signature-name")
        if k.e.type != 2 and is_sig_name(k.e):
            f.add("signature-name-taken-by-storage")
    return f


def decode_name(units):
    """lib/authenticode/msinames.go as documented there (only used to CLASSIFY inputs, never to judge)"""
    tab = "0123456789ABCDEFGHIJKLMNOPQRSTUVWXYZabcdefghijklmnopqrstuvwxyz._"
    out = ""
    for x in units:
        if 0x3800 <= x < 0x4800:
            out += tab[(x - 0x3800) & 0x3f] + tab[(x - 0x3800) >> 6]
        elif 0x4800 <= x < 0x4840:
            out += tab[x - 0x4800]
        elif x == 0x4840:
            out += "Table."
        else:
            out += chr(x) if not 0xD800 <= x <= 0xDFFF else "�"
    return out


# ---------------------------------------------------------------------------------------------------- model input
def ent_val(raw):
    u = list(struct.unpack_from("<32H", raw, 0))
    nlen, ty, col, left, right, sroot = struct.unpack_from("<HBBIII", raw, 64)
    flags, ct, mt, nxt, size, pad = struct.unpack_from("<IQQIII", raw, 96)
    return [u, nlen, ty, col, left, right, sroot, Hex(raw[80:96].hex()), flags, ct, mt, nxt, size, pad]


def tree_val(n):
    return [ent_val(n.e.raw), Hex(n.data.hex()), [tree_val(k) for k in n.kids]]


def runes_utf8(runes):
    return "".join(chr(r) if not 0xD800 <= r <= 0xDFFF else "�" for r in runes).encode("utf-8")


def flatten(segs):
    return b"".join(sha(bytes.fromhex(b)) if k else bytes.fromhex(b) for k, b in segs)


def body(ctx, replay=None):
    pid = ctx.pid
    rel = (lambda a: pid.startswith("FMT") or pid == a)
    st = ctx.prepare(["FmtMSI_gen"], ["FmtMSI"], "FmtMSI.Run")
    res = {"unit": "fmtmsi", "status": st, "evaluations": 0, "distinct": 0, "samples": [], "notes": [], "cases": {}}
    if not st["harness_ok"]:
        return res

    def viol(aspect, what, detail, obj, found=True):
        """aspect may name several properties (a+b).  A finding recorded in known_findings.json under another unit's id with the same
        suffix (the C18 check met the same defect through the sector layer) is reported as known, not raised again."""
        if not any(rel(a) for a in aspect.split("+")):
            return
        key = "%s:msi:%s" % (pid, what)
        if found:
            for k in ctx.known:
                if k.get("status") == "finding" and k["key"].endswith(":digest:" + what):
                    if key not in [h[0] for h in ctx.known_hits]:
                        ctx.known_hits.append((key, "same defect as %s: %s" % (k["key"], k.get("what", ""))))
                    return
        ctx.violation(key, detail, obj, found)

    if replay:
        recs = json.load(open(replay)).get("cases", [])
    else:
        rc, out, err = ctx.drv(["fmtmsi"], timeout=900)
        if rc != 0:
            viol("C01+C05", "driver-crash", "driver failed: " + err[-400:], {"stderr": err[-2000:]}, False)
            return res
        recs = [json.loads(l) for l in out.splitlines() if l.strip()]
    T = [r for r in recs if r["kind"] == "tree"]
    S = [r for r in recs if r["kind"] == "sign"]
    M = [r for r in recs if r["kind"] == "tamper"]
    CMP = [r for r in recs if r["kind"] == "cmp"]
    DE = [r for r in recs if r["kind"] == "dirent"]
    DN = [r for r in recs if r["kind"] == "dname"]
    res["cases"] = {"trees": len(T), "sign_histories": len(S), "sign_rounds": sum(len(s["rounds"]) for s in S), "tamper": len(M),
                    "comparisons": len(CMP), "dirents": len(DE), "decoded_names": len(DN)}
    distinct = set()

    def slim(r):
        """replayable but small: the tree with long contents replaced by length markers is NOT replayable, so keep everything up to 64 KiB"""
        s = json.dumps(r)
        return r if len(s) < 65536 else dict(r, tree="(omitted: %d bytes of JSON)" % len(s))

    trees = {}
    for r in T:
        if r["reader"] == "ok":
            trees[r["id"]] = Node(r["tree"])

    def panics(o):
        return [(k, v) for k, v in o.items() if isinstance(v, str) and v.startswith("panic:")] + \
               [("imprint", v) for v in o.get("imprint", []) if v.startswith("panic:")] + [("tarsum", v) for v in o.get("tarsum", []) if v.startswith("panic:")]

    # ================================================================ model-free oracle: trees
    by_base = collections.defaultdict(list)
    tree_ok = {}
    for r in T:
        res["evaluations"] += 1
        o = r["obs"]
        # ---- C11: malformed or not, nothing may panic
        for where, msg in panics(o):
            viol("C11", "panic:" + where, "%s panics on a compound file (class %s %s): %s" % (where, r["class"], r.get("note", ""), msg[:160]), {"cases": [slim(r)]})
        if r["reader"] != "ok" or o["open"] != "ok":
            continue
        t = trees[r["id"]]
        ok, why = spec_wf(t)
        tree_ok[r["id"]] = ok
        feats = features(t)
        distinct.add((r["class"], ok, len(t.kids), tuple(sorted(feats)), o["verify"][:8]))
        # harness self-check: the reader's order of the root's children is the order relic's ListDir gives
        if o.get("root_order") is not None and [k.e.raw[:66].hex() for k in t.kids] != o["root_order"]:
            res["notes"].append("reader/ListDir order differs for case %d (%s)" % (r["id"], r["class"]))
        if not ok:
            continue
        by_base[r["base"]].append(r)
        rp = {"cases": [slim(r)]}
        sb, sp = spec_body(t), spec_pre(t)
        imp = [sha(sb).hex(), sha(sha(sp) + sb).hex()]
        # ---- C05: the direct digest is the specification's
        if o["body"] != "ok" or o["body_sha"] != sha(sb).hex():
            viol("C05", "content-digest-ne-spec", "hashMsiDir does not feed the specification's byte string (class %s %s; %s)" % (r["class"], r.get("note", ""), o["body"][:80]), rp)
        if o["pre"] != "ok" or o["pre_hex"] != sp.hex():
            viol("C05", "prehash-ne-spec", "prehashMsiDir does not feed the specification's metadata (class %s %s; %s)" % (r["class"], r.get("note", ""), o["pre"][:80]), rp)
        if o["prehash"] != sha(sp).hex() or o["imprint"] != imp:
            viol("C05", "imprint-ne-spec", "DigestMSI / PrehashMSI differ from the specification's imprint (class %s %s)" % (r["class"], r.get("note", "")), rp)
        # ---- C01 / C05: the tar route (what the server digests) gives the same imprint
        if o["tar"] != "ok":
            if "signature-name-taken-by-storage" not in feats and not any(k.e.name_units()[-1:] == (47,) for k in all_nodes(t)):
                viol("C01", "tar-refused", "MsiToTar refuses a well-formed tree: %s" % o["tar"][:120], rp)
        elif o["tarsum"] != imp:
            cause = sorted(feats & {"exmeta-name", "decoded-signature-name"})
            viol("C01+C05", cause[0] if cause else "tar-digest-ne-direct",
                 "DigestMsiTar(MsiToTar(file)) differs from the specification's imprint and from DigestMSI (class %s %s): tar %s direct %s" %
                 (r["class"], r.get("note", ""), o["tarsum"], o["imprint"]), rp)
        # ---- C08: the is-signed probe
        sigs = root_streams(t, SIG)
        want_unsigned = not any(len(k.data) > 0 for k in sigs)
        if (o["verify"] == "unsigned") != want_unsigned and "signature-name-taken-by-storage" in feats:
            viol("C08", "signature-name-storage:verify-error", "a STORAGE of the root named like a signature stream: VerifyMSI / the is-signed probe fail with '%s' instead of reporting the file unsigned "
                 "(isMsiSignatureStream treats only streams as signature streams, the lookup loop of VerifyMSI does not check the type)" % o["verify"][:60], rp)
        elif (o["verify"] == "unsigned") != want_unsigned:
            viol("C08", "is-signed-ne-spec", "NotSignedError does not coincide with 'no non-empty \\5DigitalSignature stream in the root' (class %s): %s" % (r["class"], o["verify"][:80]), rp)
    # ---- C05: the digest does not depend on the shape of the sibling trees / the order of the directory entries
    for b, group in by_base.items():
        if len(group) > 1:
            res["evaluations"] += 1
            keys = set((g["obs"]["body_sha"], g["obs"].get("pre_hex"), tuple(g["obs"]["imprint"]), tuple(g["obs"]["tarsum"])) for g in group)
            if len(keys) != 1:
                viol("C05+C01", "digest-depends-on-tree-shape", "the same tree stored with different sibling trees / entry order has different digests (base case %d)" % b,
                     {"cases": [slim(g) for g in group[:3]]})

    # ================================================================ model-free oracle: signing histories
    T_by_id = {r["id"]: r for r in T}
    signed_trees = {}
    for s in S:
        res["evaluations"] += len(s["rounds"])
        src = T_by_id.get(s["of"])
        t0 = trees.get(s["of"])
        if t0 is None or not tree_ok.get(s["of"]):
            continue
        feats = features(t0)
        signable = "signature-name-taken-by-storage" not in feats
        prev = t0
        for i, rd in enumerate(s["rounds"]):
            rp = {"cases": [slim(src)], "history": {k: s[k] for k in ("id", "of", "class")}, "round": i,
                  "rounds": [{k: v for k, v in x.items() if k not in ("tree", "obs")} for x in s["rounds"][:i + 1]]}
            distinct.add(("sign", s["class"], rd["extended"], rd["status"][:12], rd.get("verify", "")[:6], i))
            for where, msg in panics(rd.get("obs") or {}) + ([("sign", rd["status"])] if rd["status"].startswith("panic:") else []):
                viol("C11", "panic:" + where, "%s panics while signing / verifying (class %s): %s" % (where, s["class"], msg[:160]), rp)
            if rd["status"] != "ok":
                if not rd["input_unchanged"] and "signature-name-taken-by-storage" in feats:
                    viol("C01+C03", "signature-name-storage:refusal-modifies-file", "in-place signing with the extended digest of a file whose root has a STORAGE named \\5DigitalSignature is refused (%s) "
                         "AFTER InsertMSISignature has written the MsiDigitalSignatureEx stream's sectors: the input file is modified" % rd["status"][:60], rp)
                elif not rd["input_unchanged"]:
                    viol("C01+C03", "refusal-not-clean", "signing failed (%s) and the file was modified" % rd["status"][:100], rp)
                if "negative offset" in rd["status"] or "writeat" in rd["status"]:
                    res["notes"].append("msi: sector writer refused (%s) — unit C18's matter (class %s)" % (rd["status"][:80], s["class"]))
                elif signable and not any(k.e.name_units()[-1:] == (47,) for k in all_nodes(t0)) and not rd["status"].startswith("panic:"):
                    viol("C01", "wellformed-refused", "signing a well-formed tree is refused: %s (class %s)" % (rd["status"][:120], s["class"]), rp)
                break
            ext = rd["extended"]
            if rd["reader"] != "ok":
                viol("C03", "output-unreadable", "the harness-owned reader cannot read the signed file: %s" % rd["reader"], rp)
                break
            t1 = Node(rd["tree"])
            signed_trees[(s["id"], i)] = (t1, ext)
            ok1, why1 = spec_wf(t1)
            # ---- C03
            if not ok1:
                viol("C03", "output-not-wellformed", "signed file is not a well-formed tree (%s)" % why1, rp)
                break
            if payload(t1) != payload(t0):
                p0, p1 = payload(t0), payload(t1)
                diff = [str(k)[:60] for k in set(p0) | set(p1) if p0.get(k) != p1.get(k)][:4]
                viol("C03", "payload-changed", "streams / storages other than the signature streams changed by signing (class %s): %s" % (s["class"], diff), rp)
            sg, sx = root_streams(t1, SIG), root_streams(t1, SIGEX)
            if len(sg) != 1 or sg[0].data_sha != rd["blob_sha"]:
                viol("C01+C08", "signature-stream", "the signed file does not carry exactly one \\5DigitalSignature stream holding the new blob", rp)
            if ext:
                if len(sx) != 1 or sx[0].data.hex() != rd["exsig"] or rd["exsig"] != sha(spec_pre(t1)).hex():
                    viol("C01+C05", "exsig-ne-spec", "MsiDigitalSignatureEx is not the digest of the specification's metadata of the output", rp)
            elif sx:
                viol("C08", "stale-exsig", "an earlier MsiDigitalSignatureEx stream survived signing without the extended digest", rp)
            # ---- C05: what was signed is the specification's imprint OF THE OUTPUT
            if rd["imprint"] != spec_imprint(t1, ext):
                cause = sorted(feats & {"exmeta-name", "decoded-signature-name"})
                viol("C05+C01", cause[0] if cause else "signed-imprint-ne-spec",
                     "the imprint relic signed (%s) is not the specification's imprint of the signed file (%s) (class %s)" % (rd["imprint"][:16], spec_imprint(t1, ext)[:16], s["class"]), rp)
            # ---- C01
            if rd["verify"] != "ok" or rd["hash"] != "SHA-256":
                cause = sorted(feats & {"exmeta-name", "decoded-signature-name"})
                viol("C01", cause[0] if cause else "signed-does-not-verify",
                     "VerifyMSI rejects the signature relic just made (class %s, extended=%s, round %d): %s" % (s["class"], ext, i, rd["verify"][:120]), rp)
            # ---- C08: digests ignore the signature
            o0 = src["obs"] if i == 0 else s["rounds"][i - 1]["obs"]
            o1 = rd["obs"]
            if o1["body_sha"] != o0.get("body_sha") or o1.get("pre_hex") != o0.get("pre_hex") or o1["imprint"] != o0["imprint"]:
                viol("C08", "digest-changed-by-signing", "hashMsiDir / prehashMsiDir / DigestMSI differ before and after signing (class %s round %d)" % (s["class"], i), rp)
            prev = t1

    # ================================================================ model-free oracle: tampering (C02)
    inherent = collections.Counter()
    for m in M:
        res["evaluations"] += 1
        base = signed_trees.get((m["of"], m["round"]))
        if base is None or m["reader"] != "ok":
            continue
        t0, ext = base
        t1 = Node(m["tree"])
        ok1, _ = spec_wf(t1)
        for where, msg in ([("verify", m["verify"])] if m["verify"].startswith("panic:") else []):
            viol("C11", "panic:verify", "VerifyMSI panics on a tampered file: %s" % msg[:160], {"cases": [slim(m)]})
        if not ok1:
            continue
        sx0, sx1 = root_streams(t0, SIGEX), root_streams(t1, SIGEX)
        ext1 = len(sx1) > 0
        spec_accept = spec_imprint(t1, ext1) == spec_imprint(t0, ext) and (not ext1 or sx1[-1].data == sha(spec_pre(t1)))
        distinct.add(("tamper", m["mut"], ext, spec_accept, m["verify"][:6]))
        rp = {"cases": [slim(m)], "mutation": m["mut"], "extended": ext}
        if m["verify"] == "ok" and not spec_accept:
            viol("C02", "tamper-accepted:" + m["mut"], "VerifyMSI accepts a modified file whose specification imprint differs from the signed one (mutation %s, extended=%s)" % (m["mut"], ext), rp)
        elif m["verify"] != "ok" and spec_accept:
            viol("C05+C01", "equal-imprint-rejected:" + m["mut"], "VerifyMSI rejects a file with the signed imprint (mutation %s): %s" % (m["mut"], m["verify"][:100]), rp)
        elif m["verify"] == "ok" and m["mut"] != "identity":
            inherent[(m["mut"], "extended" if ext else "plain")] += 1
    res["format_inherent_accepted"] = {"%s/%s" % k: v for k, v in sorted(inherent.items())}

    # ================================================================ model-free oracle: the ordering and the entry metadata
    for c in CMP:
        res["evaluations"] += 1
        for w in ("less_ab", "less_ba"):
            if c[w].startswith("panic:"):
                viol("C11", "panic:sortMsiFiles", "sortMsiFiles panics comparing two directory entries: %s" % c[w][:120], {"cases": [c]})
        a, b = Ent(bytes.fromhex(c["a"]) + bytes(62)), Ent(bytes.fromhex(c["b"]) + bytes(62))
        if a.wf_name() and b.wf_name() and a.name[:a.nlen] != b.name[:b.nlen] and c["less_ab"] in "01":
            na, nb = Node({"raw": a.raw.hex()}), Node({"raw": b.raw.hex()})
            want = "1" if spec_cmp(na, nb) < 0 else "0"
            distinct.add(("cmp", a.nlen < b.nlen, want))
            if c["less_ab"] != want:
                viol("C05", "order-ne-spec", "sortMsiFiles orders two well-formed names differently from the documented comparison", {"cases": [c]})
    for d in DE:
        res["evaluations"] += 1
        if d["status"].startswith("panic:"):
            viol("C11", "panic:prehashMsiDirent", "prehashMsiDirent panics: %s" % d["status"][:120], {"cases": [d]})
        e = Ent(bytes.fromhex(d["raw"]))
        if e.type in (1, 2, 5) and (e.type == 5 or 2 <= e.nlen <= 64) and d["status"] == "ok":
            distinct.add(("dirent", e.type, e.nlen))
            if d["out"] != spec_pre_entry(e).hex():
                viol("C05", "entry-metadata-ne-spec", "prehashMsiDirent does not write the documented fields (type %d NameLength %d)" % (e.type, e.nlen), {"cases": [d]})

    # ================================================================ correspondence with the Coq model
    mism = []
    if st["model_ok"]:
        vals, tags = [], []
        for r in T:
            if r["reader"] == "ok" and r["obs"]["open"] == "ok":
                vals.append([0, tree_val(trees[r["id"]])]); tags.append(("tree", r))
        for c in CMP:
            ra, rb = bytes.fromhex(c["a"]) + bytes(62), bytes.fromhex(c["b"]) + bytes(62)
            vals.append([1, ent_val(ra), ent_val(rb)]); tags.append(("cmp", c))
            vals.append([1, ent_val(rb), ent_val(ra)]); tags.append(("cmp-rev", c))
        for d in DN:
            vals.append([2, d["in"]]); tags.append(("dname", d))
        for d in DE:
            vals.append([3, ent_val(bytes.fromhex(d["raw"]))]); tags.append(("dirent", d))
        for s in S:
            t0 = trees.get(s["of"])
            if t0 is None:
                continue
            for i, rd in enumerate(s["rounds"][:1]):
                vals.append([4, tree_val(t0), Hex("00" * rd["blob_len"]), 1 if rd["extended"] else 0, Hex(rd.get("exsig") or "")]); tags.append(("sign", (s, rd)))
        for r in T[:12]:
            if r["reader"] == "ok":
                vals.append([5, tree_val(trees[r["id"]])]); tags.append(("code", r))
        try:
            outs = ctx.run_model(vals, timeout=900)
        except RuntimeError as e:
            viol("C05", "model-eval", str(e)[-300:], {"output": str(e)}, False)
            outs = []
        for (kind, r), m in zip(tags, outs):
            res["evaluations"] += 1
            if kind == "tree":
                mism += cmp_view(r, m, trees[r["id"]], tree_ok.get(r["id"], False))
            elif kind in ("cmp", "cmp-rev"):
                real = r["less_ab"] if kind == "cmp" else r["less_ba"]
                mv = "panic" if m[0][0] >= 90 else str(m[0][1])
                rv = "panic" if real.startswith("panic:") else real
                if mv != rv:
                    mism.append(("less", {"a": r["a"], "b": r["b"], "dir": kind}, "model %s real %s" % (mv, rv)))
                # the Coq specification's comparison against this file's
                a, b = Ent(bytes.fromhex(r["a"]) + bytes(62)), Ent(bytes.fromhex(r["b"]) + bytes(62))
                if kind == "cmp-rev":
                    a, b = b, a
                if a.wf_name() and b.wf_name() and a.name[:a.nlen] != b.name[:b.nlen]:
                    want = 1 if spec_cmp(Node({"raw": a.raw.hex()}), Node({"raw": b.raw.hex()})) < 0 else 0
                    if m[1] != want:
                        mism.append(("spec-less", {"a": r["a"], "b": r["b"]}, "Coq spec %s python spec %s" % (m[1], want)))
            elif kind == "dname":
                if list(m) != r["out"]:
                    mism.append(("dname", r, "model %s" % (list(m),)))
            elif kind == "dirent":
                stm, outm = m[0][0], m[0][1]
                cls = "ok" if stm == 0 else ("panic" if stm >= 90 else "err")
                rcls = "ok" if r["status"] == "ok" else ("panic" if r["status"].startswith("panic:") else "err")
                if cls != rcls or (cls == "ok" and outm != r["out"]):
                    mism.append(("dirent", r, "model %s %s" % (cls, outm)))
                e = Ent(bytes.fromhex(r["raw"]))
                if e.type in (1, 2, 5) and (e.type == 5 or 2 <= e.nlen <= 64):
                    if m[1][0] != 1 or m[1][1] != spec_pre_entry(e).hex():
                        mism.append(("spec-entry", r, "Coq spec %s" % (m[1],)))
            elif kind == "sign":
                s, rd = r
                if (m[0] == 0) != (rd["status"] == "ok"):
                    if not ("negative offset" in rd["status"] or "writeat" in rd["status"] or rd["status"].startswith("refused:tar")):
                        mism.append(("embed-status", {"history": s["id"], "class": s["class"]}, "model %s real %s" % (m[0], rd["status"][:60])))
                elif m[0] != 0 and rd["status"].startswith("refused:apply") and "writeat" not in rd["status"]:
                    # refusal by InsertMSISignature: the model's count of streams written so far against "file unchanged"
                    if (m[1][0] == 0) != bool(rd["input_unchanged"]):
                        mism.append(("embed-writes", {"history": s["id"], "class": s["class"]}, "model: %d stream(s) written before the refusal; real file unchanged: %s" % (m[1][0], rd["input_unchanged"])))
                elif m[0] == 0:
                    v, o1 = m[1], rd["obs"]
                    got = (hashlib.sha256(bytes.fromhex(v[0])).hexdigest(), v[1][1] if v[1][0] == 0 else None)
                    names_m = sorted(tuple(x) for x in v[9])
                    names_r = sorted(tuple(k.e.name_units()) for k in Node(rd["tree"]).kids) if rd["reader"] == "ok" else None
                    if got != (o1["body_sha"], o1.get("pre_hex")) or names_m != names_r or v[7][1] != (1 if rd["extended"] else 0):
                        mism.append(("embed", {"history": s["id"], "class": s["class"]}, "digest view of the model's signed tree differs from the real signed file"))
            elif kind == "code":
                if m != 1:
                    mism.append(("tree-code", {"case": r["id"]}, "decode (encode tree) is not the tree"))
        if mism:
            viol("C05", "correspondence", "model and implementation disagree on %d case(s); first: %s %s" % (len(mism), mism[0][0], str(mism[0][2])[:200]),
                 {"cases": [slim(x[1]) if isinstance(x[1], dict) else x[1] for x in mism[:4]], "what": [(x[0], str(x[2])[:300]) for x in mism[:12]],
                  "broken": "correspondence FmtMSI.Run"}, False)
    res["distinct"] = len(distinct)
    res["mismatches"] = len(mism)
    samp = [r for r in T if r["class"] in ("fixture", "gen")][:2]
    res["samples"] = [{k: (v if k != "tree" else "(tree of %d root children)" % len(v.get("kids", []))) for k, v in r.items()} for r in samp] + \
                     [{k: v for k, v in s.items() if k != "rounds"} for s in S[:1]] + CMP[:1]
    return res


def all_nodes(t):
    out = []

    def rec(n):
        for k in n.kids:
            out.append(k)
            rec(k)
    rec(t)
    return out


def cmp_view(r, m, t, wf):
    """model view (Run.view_of) against the real observation of one file"""
    out = []
    o = r["obs"]
    tag = {"case": r["id"], "class": r["class"], "note": r.get("note", "")}

    def bad(what, msg):
        out.append((what, dict(r), msg))
    # 0 hashMsiDir
    if o["body"] == "ok":
        if hashlib.sha256(bytes.fromhex(m[0])).hexdigest() != o["body_sha"]:
            bad("hash", "model preimage sha %s len %d, real %s len %d" % (hashlib.sha256(bytes.fromhex(m[0])).hexdigest()[:12], len(m[0]) // 2, o["body_sha"][:12], o["body_len"]))
    elif not o["body"].startswith("panic:"):
        bad("hash-status", "real %s" % o["body"][:80])
    # 1 prehashMsiDir
    stm = m[1][0]
    cls = "ok" if stm == 0 else ("panic" if stm >= 90 else "err")
    rcls = "ok" if o["pre"] == "ok" else ("panic" if o["pre"].startswith("panic:") else "err")
    if cls != rcls or (cls == "ok" and m[1][1] != o["pre_hex"]):
        bad("prehash", "model %s real %s" % (cls, o["pre"][:60]))
    # 2,3 the Coq specification against this file's specification (well-formed trees)
    if wf:
        if m[2] != spec_body(t).hex():
            bad("spec-body", "Coq s_hash differs from the python specification")
        if m[3][0] != 1 or m[3][1] != spec_pre(t).hex():
            bad("spec-pre", "Coq s_pre differs from the python specification")
        if m[4][0] != 1:
            bad("wf", "python says well-formed, Coq wf_tree says no")
    # 5 tar route
    tm = m[5]
    tcls = "ok" if tm[0] == 0 else ("panic" if tm[0] >= 90 else "err")
    trcls = "ok" if o["tar"] == "ok" else ("panic" if o["tar"].startswith("panic:") else "err")
    if tcls != trcls:
        bad("tar-status", "model %s real %s" % (tcls, o["tar"][:80]))
    elif tcls == "ok":
        names_m = [(runes_utf8(n).hex(), sz) for n, sz in tm[1]]
        names_r = [(x["name"], x["size"]) for x in (o.get("members") or [])]
        if names_m != names_r:
            bad("tar-members", "model %s real %s" % (names_m[:6], names_r[:6]))
        for k in (0, 1):
            if hashlib.sha256(flatten(tm[2 + k])).hexdigest() != o["tarsum"][k]:
                bad("tar-digest", "extended=%d: model %s real %s" % (k, hashlib.sha256(flatten(tm[2 + k])).hexdigest()[:12], o["tarsum"][k][:24]))
    # 6 what the verifier finds
    ex = m[6]
    if ex[0] == 0:
        if (ex[1] == 0) != (o["verify"] == "unsigned"):
            bad("extract", "model %s real %s" % (ex[:2], o["verify"][:60]))
    elif "not a stream" not in o["verify"]:
        bad("extract", "model error %s real %s" % (ex[0], o["verify"][:60]))
    return out


def run(ctx, replay=None):
    ctx.unit = "fmtmsi"
    cb = body(ctx, replay)
    ctx.proof_verdict()
    ctx.notes.extend(sorted(set(cb.get("notes") or []))[:20])
    cov = ctx.proof_coverage(
        ["srcgen translator (comparison closure of sortMsiFiles, exclusion test / type dispatch / statement order of hashMsiDir prehashMsiDir msiToTarDir, guard and slice list of prehashMsiDirent, "
         "tests of DigestMsiTar, msiDecodeName / msiDecodeRune, VerifyMSI, InsertMSISignature, RawDirEnt layout, upper-case images from unicode.ToUpper)",
         "correspondence harness cmd/drv-fmtmsi (real functions through verif hooks; compound files written by the harness-owned writer p/c18/gen.go and read back by the harness-owned reader p/fmtmsi/cfbread.go)",
         "lib/comdoc (sector layer, ListDir, AddFile/DeleteFile) is unit C18; sort.Slice is modelled by the insertion sort the Go runtime uses up to 12 elements, beyond that by msi_digest_tree_shape_independent on strict total orders",
         "archive/tar round-trips member names and contents (checked on every case: member list and digest of the real tarball against the model's)"],
        ["lib/authenticode:.VerifyMSI", "lib/authenticode:.DigestMSI", "lib/authenticode:.PrehashMSI", "lib/authenticode:.hashMsiDir", "lib/authenticode:.prehashMsiDir",
         "lib/authenticode:.prehashMsiDirent", "lib/authenticode:.sortMsiFiles", "lib/authenticode:.MsiToTar", "lib/authenticode:.DigestMsiTar", "lib/authenticode:.msiToTarDir",
         "lib/authenticode:.InsertMSISignature", "lib/authenticode:.msiDecodeName", "lib/authenticode:.isMsiSignature", "lib/comdoc:.SameName", "lib/comdoc:.lessDirEnt",
         "lib/comdoc:ComDoc.DeleteFile", "lib/comdoc:ComDoc.AddFile", "signers/msi"])
    cov.update({"evaluations": cb["evaluations"], "distinct_nontrivial": cb["distinct"],
                "rule": "dummy.msi + generated trees (MSI-encoded / ASCII / prefix-related / byte-order-sensitive names, nested storages, stream sizes across the mini-stream "
                        "and sector boundaries, already signed) each stored in 4 shapes (balanced, two random search trees, permuted entries); hand-made classes "
                        "(signature names nested / as storage / in other letter case / reachable through msiDecodeName, __exmeta, '/', empty and lone signature streams, framing "
                        "ambiguities); malformed entries patched into the directory; pairs of entries for the comparison; entries for prehashMsiDirent; sign / re-sign histories with both "
                        "digest modes; signatures grafted onto 16 kinds of modified trees.  Oracle: the specification written in this file",
                "samples": cb["samples"], "case_counts": cb.get("cases"), "model_mismatches": cb.get("mismatches"),
                "format_inherent_accepted": cb.get("format_inherent_accepted"), "aspect_theorems": ASPECT_THEOREMS})
    return ctx.finish("proof", cov, ["the compound file is a tree of directory entries with stream contents; sectors, FAT, directory red-black trees are unit C18",
                                       "streams below 4 GiB (relic ignores the high half of the [MS-CFB] v4 stream size)",
                                       "PKCS#7 / SpcIndirectDataContent encoding is unit C16 / C07; here the blob is opaque"])
