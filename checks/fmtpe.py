# FMTPE — format module: PE/COFF Authenticode (lib/authenticode pedigest/pesign/peverify/checksum, signers/pecoff).
# Serves C01 C02 C03 C05 C08 through body(ctx); run(ctx) is the standalone entry (bin/check FMTPE).
import hashlib, json, collections
from vlib.common import Hex

ASPECT_THEOREMS = {
    "C01": ["pe_digest_no_panic", "pe_law_extract", "pe_law_extract_aligned", "pe_law_hashin", "pe_format_laws", "pe_sign_then_verify", "pe_refuses_clean",
            "pe_accepts_wf", "pe_accepts_all_contiguous_refuted", "pe_embed_defined"],
    "C08": ["pe_law_hashin", "pe_format_laws", "pe_resign_history", "pe_is_signed_spec", "pe_refuses_trailing_garbage"],
    "C03": ["pe_law_payload", "pe_format_laws", "pe_only_these_ranges_differ"],
    "C02": ["pe_protect", "pe_protect_bytes", "pe_protect_exact_refuted", "pe_tamper_rejected"],
    "C05": ["pe_hashin_eq_spec", "pe_embedded_digest_is_spec_digest_of_output", "pe_hashin_is_linear", "pe_checksum_eq_spec",
            "pe_embed_checksum_is_spec", "pe_checksum_odd_lfanew_refuted"],
}
ASPECTS = ("C01", "C02", "C03", "C05", "C08")

CLS = {0: "ok", 1: "EOF", 2: "not a PE file", 3: "optional header magic", 4: "no room for signature", 5: "section table overlaps headers",
       6: "section overlaps section table", 7: "section not contiguous", 8: "gap read failed", 9: "signature overlaps sections",
       10: "trailing garbage after certificate", 11: "too big", 12: "invalid certificate table", 13: "not signed",
       14: "e_lfanew < 64", 20: "entry rejected", 21: "digest mismatch", 90: "other", 99: "panic"}


def _h(alg, hexs):
    return hashlib.new(alg, bytes.fromhex(hexs)).hexdigest()


def body(ctx):
    """assumes ctx.unit == 'fmtpe'.  Returns {unit,status,evaluations,distinct,samples,notes}."""
    pid = ctx.pid
    rel = (lambda a: pid.startswith("FMT") or pid == a)
    st = ctx.prepare(["FmtPE_gen", "C12_gen"], ["FmtPE"], "FmtPE.Run")   # C12_gen: the patch is applied with the C12 model of lib/binpatch
    res = {"unit": "fmtpe", "status": st, "evaluations": 0, "distinct": 0, "samples": [], "notes": [], "kinds": {}}
    if not st["harness_ok"]:
        return res

    def viol(aspect, what, detail, obj, found=True):
        if rel(aspect):
            ctx.violation("%s:pe:%s" % (pid, what), detail, obj, found)

    rc, out, err = ctx.drv(["fmtpe"], timeout=900)
    if rc != 0:
        viol("C01", "driver-crash", "driver failed: " + err[-400:], {"stderr": err[-2000:]}, False)
        return res
    recs = [json.loads(l) for l in out.splitlines() if l.strip()]
    F = {r["id"]: r for r in recs if r["t"] == "F"}
    E = [r for r in recs if r["t"] == "E"]
    R = [r for r in recs if r["t"] == "R"]

    def slim(r):
        return {k: r[k] for k in ("id", "kind", "note", "spec", "len", "dig", "find", "walk", "ver", "file") if k in r}

    # ================================================================ model-free oracles on the implementation
    n_oracle = 0
    for r in F.values():
        d, sp = r["dig"], r["sp"]
        # C05: the digest relic computes is the specification's digest wherever the document's algorithm is defined
        if d["cls"] == 0 and sp["parsed"]:
            n_oracle += 1
            if sp["contig"] and sp["litpad256"] and sp["litpad256"] != d["imp256"]:
                viol("C05", "digest-ne-spec", "DigestPE differs from the Authenticode algorithm on a contiguous image (kind %s)" % r["kind"], {"cases": [slim(r)]})
        # sha1 and sha256 walk the same bytes: acceptance must not depend on the algorithm
        if d["cls"] != d["cls1"]:
            viol("C01", "digest-alg-dependent", "DigestPE outcome depends on the hash algorithm", {"cases": [slim(r)]})
    for e in E:
        i = F[e["in"]]
        if e["out"] < 0:
            # an input DigestPE accepted must be embeddable (C01) — refusal here is only legitimate for > 4 GiB
            viol("C01", "embed-refused", "embedding refused (%s) although DigestPE accepted the input" % e.get("err"), {"cases": [slim(i)], "embed": e})
            continue
        o = F[e["out"]]
        n_oracle += 1
        rp = {"cases": [slim(i)], "embed": {k: e[k] for k in ("mode", "hash", "blob", "samepath", "pagehash")}, "output": slim(o)}
        fi, fo = bytes.fromhex(i["file"]), bytes.fromhex(o["file"])
        # ---- C08 / C01 (L2): the digest ignores the signature that was just embedded
        if o["dig"]["cls"] != 0 or o["dig"]["imp256"] != i["dig"]["imp256"] or o["dig"]["imp1"] != i["dig"]["imp1"]:
            viol("C08", "digest-changed-by-signing", "DigestPE of the signed output differs from DigestPE of the input (%s)" % i["kind"], rp)
        # ---- C01 (L1): the verifier locates exactly one entry: the embedded blob (zero padded to 8)
        blob = bytes.fromhex(e["blob"])
        padded = blob + b"\0" * (-len(blob) % 8)
        fnd = o["find"]
        if fnd["cls"] != 0 or fnd["certsize"] != 8 + len(padded) or fo[fnd["certstart"] + 8:fnd["certstart"] + fnd["certsize"]] != padded \
           or fnd["certstart"] + fnd["certsize"] != len(fo):
            viol("C01", "table-not-found", "findSignatures does not locate the embedded blob at the end of the output", rp)
        if e["mode"] in ("signed", "pipeline"):
            v = o["ver"]
            want = "SHA-256" if e["hash"] == "SHA-256" else "SHA-1"
            if v["cls"] != 0 or v["n"] != 1 or v["hashes"] != [want]:
                viol("C01", "signed-does-not-verify", "VerifyPE rejects relic's own signature: %s" % (v.get("err") or v), rp)
            elif v["imprints"][0] != (i["dig"]["imp256"] if want == "SHA-256" else i["dig"]["imp1"]):
                viol("C01", "wrong-imprint", "the embedded imprint is not the digest of the input", rp)
        else:
            if o["walk"]["cls"] not in (20,) and len(blob) > 0:
                viol("C01", "walk", "certificate table walk of the output: class %s" % o["walk"]["cls"], rp, False)
        # ---- C03: only the checksum, directory entry 4 and the tail from origSize on differ; the spec reader's sections are intact
        si, so = i["sp"], o["sp"]
        if si["parsed"] and so["parsed"]:
            pend = si["certva"] if si["certsize"] else len(fi)
            ck, dd = si["cksum"], si["dd4"]
            bad = [k for k in range(min(pend, len(fo))) if fi[k] != fo[k] and not (ck <= k < ck + 4 or dd <= k < dd + 8)]
            if bad or len(fo) < pend:
                viol("C03", "payload-bytes-changed", "signing changed bytes outside checksum/dir-entry/certificate table at %s" % bad[:8], rp)
            if (so["cksum"], so["dd4"], so["secs"], so["soh"]) != (si["cksum"], si["dd4"], si["secs"], si["soh"]):
                viol("C03", "headers-changed", "section table / header geometry changed by signing", rp)
            for (p, s) in (si["secs"] or []):
                if s and fi[p:p + s] != fo[p:p + s]:
                    viol("C03", "section-changed", "raw data of a section changed by signing", rp)
            pad = fo[pend:so["certva"]]
            if so["certva"] % 8 != 0 or len(pad) > 7 or any(pad) or so["certva"] + so["certsize"] != len(fo):
                viol("C03", "bad-table-placement", "certificate table is not 8-aligned / zero padded / at the end", rp)
        # ---- C05: the checksum written is the documented one (even e_lfanew; odd is the separately keyed observation)
        if so["parsed"] and so["specsum"] != so["filesum"]:
            if so["cksum"] % 2 == 0:
                viol("C05", "checksum-ne-spec", "FixPEChecksum wrote %08x, CheckSumMappedFile gives %08x" % (so["filesum"], so["specsum"]), rp)
            else:
                res["notes"].append("pe:checksum-odd-lfanew: checksum field at odd offset %d is not zeroed by peChecksum (output id %d)" % (so["cksum"], o["id"]))
        # ---- C05: the imprint embedded for the input is the specification digest OF THE OUTPUT
        if so["parsed"] and so["lin256"] and e["hash"] == "SHA-256" and so["lin256"] != i["dig"]["imp256"]:
            viol("C05", "imprint-ne-spec-of-output", "sha256 over the output minus the three excluded regions differs from the imprint relic embeds", rp)
        if not e["in_same"]:
            viol("C03", "input-modified", "input file modified although the output went elsewhere", rp)
        if e["tmp_left"]:
            viol("C03", "tmp-left", "temporary file left behind", rp)
    # ---- refusals: explicit error, input untouched, nothing left behind (C01 L5)
    for rr in R:
        i = F[rr["in"]]
        if rr["cls"] == 0:
            viol("C01", "pipeline-accepts-what-digest-rejects", "the signers pipeline signed an input DigestPE rejects", {"cases": [slim(i)]})
        if not rr["in_same"] or rr["tmp_left"]:
            viol("C01", "refusal-not-clean", "refused input was modified or a temporary file was left (class %s)" % rr["cls"], {"cases": [slim(i)], "refusal": rr})
        if rr["cls"] == 99:
            res["notes"].append("pe:panic-on-malformed (C11 matter): %s on kind %s" % (rr.get("err"), i["kind"]))
    # ---- is_signed / unsigned inputs
    for r in F.values():
        if r["sp"]["parsed"] and r["find"]["cls"] == 0:
            signed_spec = r["sp"]["certsize"] != 0
            if (r["ver"]["cls_nd"] == 13) != (not signed_spec):
                viol("C08", "is-signed-ne-spec", "NotSignedError does not coincide with an empty certificate-table directory entry", {"cases": [slim(r)]})

    # ================================================================ correspondence with the model
    evaluated = 0
    mism = collections.Counter()
    first = {}
    if st["model_ok"]:
        fl = list(F.values())
        try:
            mres = ctx.run_model([[0, Hex(r["file"])] for r in fl], timeout=900)
            eres = ctx.run_model([[1, Hex(F[e["in"]]["file"]), Hex(e["blob"])] for e in E if e["mode"] == "raw" or e["out"] >= 0], timeout=900)
        except RuntimeError as ex:
            viol("C01", "model-eval", str(ex)[-300:], {"output": str(ex)}, False)
            mres, eres = [], []
        def bad(key, r, extra=None):
            mism[key] += 1
            first.setdefault(key, {"cases": [slim(r)], "model": extra})
        for r, m in zip(fl, mres):
            evaluated += 1
            (dst, orig, cs, posdd, oldsz, pre, fst_, signed, fcs, fsz, wst, ents, xst, xp, xb, swf, scontig, shash, pend, prot, sck) = m
            d = r["dig"]
            if dst != d["cls"]:
                bad("digest-status", r, [dst, d["cls"]])
            elif dst == 0:
                if (orig, cs, posdd, oldsz) != (d["orig"], d["certstart"], d["posdd"], d["oldsize"]):
                    bad("digest-markers", r, [orig, cs, posdd, oldsz])
                if _h("sha256", pre) != d["imp256"] or _h("sha1", pre) != d["imp1"]:
                    bad("digest-preimage", r)
            fd = r["find"]
            if fst_ != fd["cls"]:
                bad("find-status", r, [fst_, fd["cls"]])
            elif fst_ == 0 and (fcs, fsz) != (fd["certstart"], fd["certsize"]):
                bad("find-values", r, [fcs, fsz])
            w = r["walk"]
            if w["cls"] == -1:
                if wst == 0 and ents:
                    bad("walk-na", r, [wst, len(ents)])
            elif w["cls"] == 12:
                if wst != 12:
                    bad("walk-badtable", r, [wst, len(ents)])
            elif w["cls"] == 0:
                if wst != 0 or len(ents) != w["n"]:
                    bad("walk-count", r, [wst, len(ents)])
            elif w["cls"] in (20, 21):
                if len(ents) == 0:
                    bad("walk-entry", r, [wst, len(ents)])
            # the model's specification side against the harness' independent Go transcription
            sp = r["sp"]
            if swf and sp["parsed"]:
                if bool(scontig) != sp["contig"]:
                    bad("spec-contig", r, [scontig, sp["contig"]])
                if sp["lit256"] and _h("sha256", shash) != sp["lit256"]:
                    bad("spec-hashin", r)
                if sck != sp["specsum"]:
                    bad("spec-checksum", r, [sck, sp["specsum"]])
        k = 0
        for e in E:
            if not (e["mode"] == "raw" or e["out"] >= 0):
                continue
            m = eres[k] if k < len(eres) else None
            k += 1
            if m is None:
                break
            evaluated += 1
            status, gb = m
            i = F[e["in"]]
            if e["out"] < 0:
                if status == 0:
                    bad("embed-status", i, [status, e["cls"]])
            elif status != 0 or gb != F[e["out"]]["file"]:
                bad("embed-bytes", i, {"status": status, "blob": e["blob"], "mode": e["mode"]})
        for key, n in mism.items():
            viol("C01", "correspondence:" + key, "model and implementation disagree on %d case(s): %s" % (n, key),
                 dict(first[key], broken="correspondence FmtPE.Run (" + key + ")"), False)
    # ================================================================ mutation sweep (C02)
    mut_stats = {}
    if rel("C02"):
        rc, out, err = ctx.drv(["fmtpe-mut"], timeout=900)
        if rc != 0:
            viol("C02", "driver-crash", "mutation driver failed: " + err[-400:], {"stderr": err[-2000:]}, False)
        else:
            mvals, mexp = [], []
            for m in [json.loads(l) for l in out.splitlines() if l.strip()]:
                mut_stats[m["sample"]] = {"len": m["len"], "counts": m["counts"], "accepted_other": m["accepted_other"], "appended_accepted": m["appended_accepted"]}
                if m["accepted_protected"]:
                    ctx.violation("%s:pe:mutation-accepted" % pid, "VerifyPE accepts %s with a changed byte at protected offset(s) %s" % (m["sample"], m["accepted_protected"][:8]),
                                  {"sample": m["sample"], "file": m["file"], "offsets": m["accepted_protected"][:50]})
                if m["appended_accepted"]:
                    ctx.violation("%s:pe:append-accepted" % pid, "VerifyPE accepts %s with bytes appended after the certificate table" % m["sample"], {"sample": m["sample"], "file": m["file"]})
                g = bytes.fromhex(m["file"])
                for off, x, acc, cl in (m["mutants"] or []):
                    mg = bytearray(g)
                    mg[off] ^= x
                    mvals.append([2, Hex(m["file"]), Hex(mg.hex())])
                    mexp.append((m["sample"], off, acc, cl))
            if st["model_ok"] and mvals:
                try:
                    mr = ctx.run_model(mvals, timeout=900)
                    # outside the signature blob (class 4, CMS layer) the verifier accepts exactly the mutants that keep
                    # the model's digest input and extracted blob
                    dis = [(s, off, acc, a, b) for (s, off, acc, cl), (a, b) in zip(mexp, mr) if cl != 4 and bool(acc) != bool(a and b)]
                    evaluated += len(mvals)
                    mut_stats["model_mutants"] = len(mvals)
                    if dis:
                        ctx.violation("%s:pe:correspondence:mutants" % pid, "verifier verdict on a mutant differs from the model (sample, offset, accepted, same_hashin, same_extract): %s" % (dis[:3],),
                                      {"mutants": dis[:20], "broken": "correspondence FmtPE.Run.run_mutant"}, False)
                except RuntimeError as ex:
                    ctx.violation("%s:pe:model-eval" % pid, str(ex)[-300:], {"output": str(ex)}, False)
    # ================================================================ coverage
    kinds = collections.Counter(r["kind"] + "/" + CLS.get(r["dig"]["cls"], "?") for r in F.values())
    accepted_inputs = [r for r in F.values() if r["from"] < 0 and r["dig"]["cls"] == 0]
    res.update({"evaluations": evaluated + n_oracle, "distinct": len(accepted_inputs) + len([e for e in E if e["out"] >= 0]),
                "kinds": dict(kinds), "mutations": mut_stats, "mismatches": dict(mism),
                "samples": [{k: r.get(k) for k in ("kind", "spec", "len", "dig")} for r in [x for x in F.values() if x.get("spec")][3:6]],
                "files": len(F), "embeddings": len(E), "refusals": len(R)})
    res["notes"] = sorted(set(res["notes"]))
    return res


def run(ctx, replay=None):
    ctx.unit = "fmtpe"
    cov_body = body(ctx)
    ctx.proof_verdict()
    cov = ctx.proof_coverage(["srcgen translator (constants, offsets, widths, branch conditions of DigestPE/readOptHeader/readSections/readTrailer/MakePatch/checkSignatures/peChecksum)",
                              "correspondence harness cmd/drv-fmtpe (real authenticode.DigestPE / MakePatch / VerifyPE / FixPEChecksum, binpatch Apply on temp files, functest RSA key)",
                              "C12 model of lib/binpatch for the patch application",
                              "debug/pe struct layouts (Go standard library) taken as the PE/COFF field offsets; io.Copy write boundaries even"],
                             ["lib/authenticode", "signers/pecoff"])
    cov.update({"evaluations": cov_body["evaluations"], "distinct_nontrivial": cov_body["distinct"],
                "rule": "harness-owned PE generator (PE32/PE32+, 0-6 sections, alignments 1..512, aligned slots vs raw sizes, header padding, gap, overlay, empty sections, "
                        "generator-written certificate tables incl. 2 entries / unaligned / bad lengths) + 21 single-defect malformed classes + fixtures ClassLibrary1.dll, "
                        "WindowsFormsApplication1.exe; each accepted input embedded with raw blobs of lengths 0..257 (x3 rounds), really signed with the functest key (sha256, re-signed sha1, "
                        "signers pipeline with/without page hashes); non-trivial = inputs DigestPE accepts + successful embeddings (measured)",
                "samples": cov_body["samples"], "input_distribution": cov_body.get("kinds"), "mutation_sweep": cov_body.get("mutations"),
                "files": cov_body.get("files"), "embeddings": cov_body.get("embeddings"), "refusals": cov_body.get("refusals"),
                "model_mismatches": cov_body.get("mismatches"), "aspect_theorems": ASPECT_THEOREMS, "format_notes": cov_body["notes"]})
    for n in cov_body["notes"]:
        ctx.notes.append(n)
    return ctx.finish("proof", cov, ["symbolic cryptography (section variables) in pe_sign_then_verify / pe_resign_history; PKCS#7 parser ignores trailing zero bytes (pkcs7.Unmarshal)",
                                     "page hashes are exercised by the harness only (not modelled in Coq)",
                                     "files < 4 GiB; binpatch application as proved in C12"])
