# FMTVSIX — format module: Visual Studio extension packages / Open Packaging Conventions digital signatures (signers/vsix: mangle.go,
# contenttypes.go, rels.go, oxmlsig.go, signer.go; content type table of lib/signappx).  Packages are treated as lists of ZIP members
# (name, content); the ZIP container is C17's, XML canonicalisation and XML-DSig signing are C19's.
# Serves C01 C02 C03 C05 C08 C11 through body(ctx); run(ctx) is the standalone entry (bin/check FMTVSIX).
# The oracles in the first half are written from ECMA-376 Part 2 (part names 8.1.1 / 9.1.1, content types 10.1.2.4, relationships 9.3,
# digital signatures 13) and from the property texts; they never look at the model.  The JDK's XML-Signature validator is the outside
# opinion on the SignedInfo / package Object (capability-probed).
import base64, collections, hashlib, json, os, re, shutil, subprocess, xml.dom.minidom
from vlib.common import Hex, VERIF

ASPECT_THEOREMS = {
    "C01": ["vsix_sign_then_verify", "vsix_sign_then_verify_name_refuted", "vsix_sign_refuses_clean", "vsix_reference_is_part_digest", "vsix_manifest_roundtrip",
            "vsix_reference_resolves_to_part", "vsix_timestamp_unverified_refuted", "vsix_new_parts_types"],
    "C02": ["vsix_manifest_covers_all_signed_parts", "vsix_protect", "vsix_unlisted_member_refuted", "vsix_content_types_unbound_refuted", "vsix_shadowed_duplicate_refuted",
            "vsix_transforms_ignored_refuted"],
    "C03": ["vsix_payload_kept", "vsix_keepfile_eq_conventional", "vsix_part_classification_eq_spec", "vsix_rels_dropped_refuted", "vsix_rels_lost_refuted",
            "vsix_sig_extension_payload_dropped_refuted", "vsix_directory_entry_signed_refuted", "vsix_case_variant_kept_refuted", "vsix_foreign_layout_kept_refuted",
            "vsix_content_types_wellformed", "vsix_content_type_redeclared_refuted"],
    "C05": ["vsix_reference_is_part_digest", "vsix_reference_type_eq_spec", "vsix_reference_type_case_refuted", "vsix_relative_target_refuted", "vsix_content_types_wellformed",
            "vsix_new_parts_types", "vsix_directory_entry_signed_refuted", "vsix_content_type_redeclared_refuted"],
    "C08": ["vsix_resign", "vsix_digest_ignores_signature", "vsix_new_parts_not_kept", "vsix_sig_related_is_dropped", "vsix_is_signed_spec", "vsix_payload_kept"],
    "C11": ["vsix_decisions_no_panic", "vsix_verify_no_panic", "vsix_sign_no_panic"],
}
ASPECTS = ("C01", "C02", "C03", "C05", "C08", "C11")

# finding keys: FMTVSIX:vsix:<what> when run on its own; under a property id the keys already registered for the same behaviour
KEYMAP = {
    ("C02", "unlisted-member"): "C02:spec:vsix:unlisted-member",
    ("C03", "payload-changed@relationships"): "C03:spec:vsix:payload-changed@relationships",
}
KNOWN_ELSEWHERE = {"unlisted-member": "C02:spec:vsix:unlisted-member", "payload-changed@relationships": "C03:spec:vsix:payload-changed@relationships"}

NS_CT = "http://schemas.openxmlformats.org/package/2006/content-types"
NS_RELS = "http://schemas.openxmlformats.org/package/2006/relationships"
NS_DS = "http://www.w3.org/2000/09/xmldsig#"
T_ORIGIN = "http://schemas.openxmlformats.org/package/2006/relationships/digital-signature/origin"
T_SIG = "http://schemas.openxmlformats.org/package/2006/relationships/digital-signature/signature"
T_CERT = "http://schemas.openxmlformats.org/package/2006/relationships/digital-signature/certificate"
CT_NAME = b"[Content_Types].xml"
HASH_IDS = {"SHA1": 3, "SHA224": 4, "SHA256": 5, "SHA384": 6, "SHA512": 7}
HASH_PY = {3: "sha1", 4: "sha224", 5: "sha256", 6: "sha384", 7: "sha512"}
HASH_URIS = {"http://www.w3.org/2000/09/xmldsig#sha1": 3, "http://www.w3.org/2001/04/xmldsig-more#sha224": 4, "http://www.w3.org/2001/04/xmlenc#sha256": 5,
             "http://www.w3.org/2001/04/xmldsig-more#sha384": 6, "http://www.w3.org/2001/04/xmlenc#sha512": 7}


def lower_ascii(b):
    return bytes(c + 32 if 65 <= c <= 90 else c for c in b)


def ieq(a, b):
    return lower_ascii(a) == lower_ascii(b)


# ------------------------------------------------------------------ ECMA-376 Part 2, written from the specification
PCHAR = set(b"ABCDEFGHIJKLMNOPQRSTUVWXYZabcdefghijklmnopqrstuvwxyz0123456789-._~!$&'()*+,;=:@")
HEXD = set(b"0123456789abcdefABCDEF")


def spec_segment_ok(sg):
    if not sg or sg[-1:] == b"." or not sg.strip(b"."):
        return False
    i = 0
    while i < len(sg):
        if sg[i] == 0x25:
            if i + 2 >= len(sg) or sg[i + 1] not in HEXD or sg[i + 2] not in HEXD or sg[i + 1:i + 3].lower() in (b"2f", b"5c"):
                return False
            i += 3
        elif sg[i] in PCHAR:
            i += 1
        else:
            return False
    return True


def spec_part_name_ok(name):
    """8.1.1.1 / 9.1.1.1: the ZIP item name (no leading slash) is a part name"""
    return all(spec_segment_ok(sg) for sg in name.split(b"/"))


def spec_extension(name):
    last = name.split(b"/")[-1]
    return last.rsplit(b".", 1)[1] if b"." in last else None


def spec_ct_of(doc, name):
    """10.1.2.4: Override (part name equivalence ignores ASCII case) before Default (extension match ignores ASCII case)"""
    for pn, ct in doc[1]:
        if ieq(pn, b"/" + name):
            return ct
    e = spec_extension(name)
    if e is not None:
        for x, ct in doc[0]:
            if ieq(x, e):
                return ct
    return None


def spec_is_ct_stream(name):
    return ieq(name, CT_NAME)


def spec_is_rels_part(name):
    sg = name.split(b"/")
    return len(sg) >= 2 and ieq(sg[-2], b"_rels") and lower_ascii(sg[-1]).endswith(b".rels")


def spec_rels_of(source):
    sg = source.split(b"/")
    return b"/".join(sg[:-1] + [b"_rels", sg[-1] + b".rels"])


def spec_resolve(source, target):
    if target[:1] == b"/":
        segs = target[1:].split(b"/")
    else:
        segs = source.split(b"/")[:-1] + target.split(b"/")
    out = []
    for s in segs:
        if s == b".":
            continue
        if s == b"..":
            out[:] = out[:-1]
            continue
        out.append(s)
    return b"/".join(out)


class XmlErr(Exception):
    pass


def dom(data):
    try:
        return xml.dom.minidom.parseString(data)
    except Exception as e:      # expat errors, encoding errors
        raise XmlErr(str(e)[:120])


def kids(el):
    return [c for c in el.childNodes if c.nodeType == c.ELEMENT_NODE]


def spec_read_ct(data):
    """the content types stream by the schema: Types / Default / Override in the content-types namespace, unqualified attributes"""
    root = dom(data).documentElement
    if root.namespaceURI != NS_CT or root.localName != "Types":
        raise XmlErr("root is not {content-types}Types")
    defs, ovrs = [], []
    for c in kids(root):
        if c.namespaceURI != NS_CT:
            continue
        if c.localName == "Default":
            defs.append((c.getAttribute("Extension").encode(), c.getAttribute("ContentType").encode()))
        elif c.localName == "Override":
            ovrs.append((c.getAttribute("PartName").encode(), c.getAttribute("ContentType").encode()))
    return defs, ovrs


def spec_read_rels(data):
    root = dom(data).documentElement
    if root.namespaceURI != NS_RELS or root.localName != "Relationships":
        raise XmlErr("root is not {relationships}Relationships")
    out = []
    for c in kids(root):
        if c.namespaceURI == NS_RELS and c.localName == "Relationship":
            out.append({"target": c.getAttribute("Target").encode(), "id": c.getAttribute("Id").encode(), "type": c.getAttribute("Type"),
                        "mode": c.getAttribute("TargetMode") or "Internal"})
    return out


class Pkg:
    """a package as the specification sees it"""

    def __init__(self, members):
        self.members = members                      # [(name, content)]

    def get(self, name):
        for n, c in self.members:
            if ieq(n, name):
                return c
        return None

    def ctdoc(self):
        c = self.get(CT_NAME)
        if c is None:
            return None
        try:
            return spec_read_ct(c)
        except XmlErr:
            return None

    def targets(self, source, rtype):
        c = self.get(spec_rels_of(source))
        if c is None:
            return []
        try:
            rels = spec_read_rels(c)
        except XmlErr:
            return []
        return [spec_resolve(source, r["target"]) for r in rels if r["type"] == rtype and r["mode"] == "Internal"]

    def sigparts(self):
        origins = self.targets(b"", T_ORIGIN)
        sigs = [s for o in origins for s in self.targets(o, T_SIG)]
        certs = [c for s in sigs for c in self.targets(s, T_CERT)]
        return origins, sigs, certs

    def classify(self):
        """name -> class: ct | notpart | sig | rootrels | rels | part"""
        origins, sigs, certs = self.sigparts()
        sigrel = [spec_rels_of(x) for x in origins + sigs]
        out = []
        for n, _ in self.members:
            if spec_is_ct_stream(n):
                k = "ct"
            elif not spec_part_name_ok(n):
                k = "notpart"
            elif any(ieq(n, x) for x in origins + sigs + certs + sigrel):
                k = "sig"
            elif ieq(n, b"_rels/.rels"):
                k = "rootrels"
            elif spec_is_rels_part(n):
                k = "rels"
            else:
                k = "part"
            out.append(k)
        return out


def payload_relationships(content):
    """the relationships of a relationships part that are not the signature origin relationship (sorted: order is not significant)"""
    try:
        return sorted((r["target"], r["type"], r["mode"]) for r in spec_read_rels(content) if r["type"] != T_ORIGIN)
    except XmlErr:
        return None


# ------------------------------------------------------------------ the signature part
def b64_go(text):
    """base64.StdEncoding.DecodeString: CR and LF are skipped, padding is required"""
    t = text.replace("\r", "").replace("\n", "")
    try:
        return base64.b64decode(t.encode(), validate=True) if len(t) % 4 == 0 else None
    except Exception:
        return None


def bfs(el):
    q = [el]
    while q:
        e = q.pop(0)
        yield e
        q.extend(kids(e))


def read_sig_part(data):
    """{'hash': id of the SignedInfo reference digest, 'object': element, 'refs': [(uri, alg uri, DigestValue text, transforms)], 'x509': [der], 'time': ...}"""
    d = dom(data)
    root = d.documentElement
    if root.localName != "Signature" or root.namespaceURI != NS_DS:
        raise XmlErr("root is not ds:Signature")
    si = [c for c in kids(root) if c.localName == "SignedInfo"]
    if not si:
        raise XmlErr("no SignedInfo")
    ref = [c for c in kids(si[0]) if c.localName == "Reference"]
    if not ref:
        raise XmlErr("no Reference in SignedInfo")
    uri = ref[0].getAttribute("URI")
    dm = [c for c in kids(ref[0]) if c.localName == "DigestMethod"]
    sm = [c for c in kids(si[0]) if c.localName == "SignatureMethod"]
    obj = None
    if uri.startswith("#"):
        for e in bfs(root):
            if e.getAttribute("Id") == uri[1:]:
                obj = e
                break
    out = {"hash": HASH_URIS.get(dm[0].getAttribute("Algorithm"), 0) if dm else 0, "object": obj, "refs": [], "x509": [], "uri": uri,
           "sigmethod": sm[0].getAttribute("Algorithm") if sm else "", "time": None, "timefmt": None, "timestamp": False}
    for e in bfs(root):
        if e.localName == "X509Certificate":
            der = b64_go("".join(t.data for t in e.childNodes if t.nodeType in (t.TEXT_NODE, t.CDATA_SECTION_NODE)))
            if der is not None:
                out["x509"].append(der)
        if e.localName == "EncodedTime":
            out["timestamp"] = True
    if obj is not None:
        for m in [c for c in kids(obj) if c.localName == "Manifest"]:
            for r in [c for c in kids(m) if c.localName == "Reference"]:
                dms = [c for c in kids(r) if c.localName == "DigestMethod"]
                dvs = [c for c in kids(r) if c.localName == "DigestValue"]
                trs = [t.getAttribute("Algorithm") for ts in kids(r) if ts.localName == "Transforms" for t in kids(ts) if t.localName == "Transform"]
                out["refs"].append((r.getAttribute("URI"), dms[0].getAttribute("Algorithm") if dms else "",
                                    "".join(t.data for t in dvs[0].childNodes if t.nodeType in (t.TEXT_NODE, t.CDATA_SECTION_NODE)) if dvs else "", trs))
        for e in bfs(obj):
            if e.localName == "SignatureTime":
                for c in kids(e):
                    txt = "".join(t.data for t in c.childNodes if t.nodeType == t.TEXT_NODE)
                    if c.localName == "Value":
                        out["time"] = txt
                    if c.localName == "Format":
                        out["timefmt"] = txt
    return out


def node_val(n):
    """DOM -> the node encoding of FmtVSIX/Run.v (etree: Space = prefix, Tag = local name; xmlns declarations are attributes)"""
    if n.nodeType == n.ELEMENT_NODE:
        attrs = []
        for i in range(n.attributes.length):
            a = n.attributes.item(i)
            if a.prefix:
                attrs.append([a.prefix.encode(), a.localName.encode(), a.value.encode()])
            else:
                attrs.append([b"", a.name.encode(), a.value.encode()])
        return [0, (n.prefix or "").encode(), n.localName.encode(), attrs, [node_val(c) for c in n.childNodes if c.nodeType in (c.ELEMENT_NODE, c.TEXT_NODE, c.CDATA_SECTION_NODE, c.COMMENT_NODE)]]
    if n.nodeType == n.COMMENT_NODE:
        return [2, n.data.encode()]
    return [1, n.data.encode()]


# ------------------------------------------------------------------ Go's encoding/xml Unmarshal of the two flat documents (model input only)
def go_attr(el, name):
    """xml:",attr" fields match the local name in any namespace; the last matching attribute wins"""
    v = ""
    for i in range(el.attributes.length):
        a = el.attributes.item(i)
        if a.prefix == "xmlns" or a.name == "xmlns":
            continue
        if a.localName == name:
            v = a.value
    return v


def go_read_ct(data):
    root = dom(data).documentElement
    if root.namespaceURI != NS_CT or root.localName != "Types":
        raise XmlErr("expected element type <Types>")
    return ([(go_attr(c, "Extension").encode(), go_attr(c, "ContentType").encode()) for c in kids(root) if c.localName == "Default"],
            [(go_attr(c, "PartName").encode(), go_attr(c, "ContentType").encode()) for c in kids(root) if c.localName == "Override"])


def go_read_rels(data):
    root = dom(data).documentElement
    if root.namespaceURI != NS_RELS or root.localName != "Relationships":
        raise XmlErr("expected element type <Relationships>")
    return [(go_attr(c, "Target").encode(), go_attr(c, "Id").encode(), go_attr(c, "Type").encode()) for c in kids(root) if c.localName == "Relationship"]


def unhex_members(l):
    return [(bytes.fromhex(n), bytes.fromhex(c)) for n, c in l]


def digest(alg_id, data):
    return hashlib.new(HASH_PY[alg_id], data).digest()


BIG = 4096


def standin(c):
    """large contents are replaced by a stand-in for the model (it only hashes and compares contents)"""
    return b"\x00BIG" + hashlib.sha256(c).digest() if len(c) > BIG else c


# ------------------------------------------------------------------ body
def body(ctx, replay=None):
    pid = ctx.pid
    rel = (lambda a: pid.startswith("FMT") or pid == a)
    st = ctx.prepare(["C19_gen", "FmtVSIX_gen"], ["FmtVSIX"], "FmtVSIX.Run")
    res = {"unit": "fmtvsix", "status": st, "evaluations": 0, "distinct": 0, "samples": [], "notes": [], "known_reproduced": collections.Counter(), "cases": {}}
    if not st["harness_ok"]:
        return res
    distinct = set()

    def viol(aspects, what, detail, obj, found=True):
        """aspects: "C01+C05"...; reported under the run's property id when one of them is relevant; behaviour already recorded under another
        property's key is reported there only"""
        asp = aspects.split("+")
        if what in KNOWN_ELSEWHERE:
            res["known_reproduced"][KNOWN_ELSEWHERE[what]] += 1
            for a in asp:
                if pid == a and (a, what) in KEYMAP:
                    ctx.violation(KEYMAP[(a, what)], detail, obj, found)
            return
        if any(rel(a) for a in asp):
            ctx.violation("%s:vsix:%s" % (pid, what), detail, obj, found)

    robj = json.load(open(replay)) if replay else None
    args = ["fmtvsix"]
    if robj is not None:
        if "replay_input" not in robj:
            res["notes"].append("replay file carries no input (model / proof disagreement): full run")
        else:
            p = os.path.join(ctx.scratch, "replay-in.json")
            json.dump(robj["replay_input"], open(p, "w"))
            args += ["replay", p]
    rc, out, err = ctx.drv(args, timeout=900)
    if rc != 0:
        viol("C01+C02+C03+C05+C08+C11", "driver-crash", "driver failed: " + err[-400:], {"stderr": err[-2000:]}, False)
        return res
    recs = [json.loads(l) for l in out.splitlines() if l.strip()]
    by = collections.defaultdict(list)
    for r in recs:
        by[r["k"]].append(r)
    res["cases"] = {k: len(v) for k, v in by.items()}

    def sign_replay(r, rounds=None):
        return {"replay_input": {"mode": "sign", "name": r["scenario"], "members": r["in"],
                                 "rounds": rounds or [{"key": r["keytype"], "hash": r["hash"], "detach": r["detach"]}]},
                "scenario": r["scenario"], "round": r["round"], "note": r.get("note"), "names": [bytes.fromhex(n).decode("latin1") for n, _ in r["in"]],
                "how": "bin/check FMTVSIX --replay <this file> signs the members again with the real signer and judges the result"}

    def verify_replay(r):
        return {"replay_input": {"mode": "verify", "members": r["pk"], "what": r["what"], "expect": r.get("expect", "")}, "what": r["what"], "base": r["base"],
                "verdict": r["obs"], "names": [bytes.fromhex(n).decode("latin1") for n, _ in r["pk"]]}

    # ================================================================ C11: no panic anywhere
    for r in by["name"]:
        res["evaluations"] += 1
        if r.get("panic"):
            viol("C11", "panic:keepFile-relPath", "keepFile / relPath panic on the member name %r: %s" % (bytes.fromhex(r["n"]), r["panic"]), {"cases": [r]})
    for r in by["fuzz"]:
        viol("C11", "panic:" + re.sub(r"[^A-Za-z.+]", "-", r["target"])[:40], "%s: %s on a %d-byte malformed input (%d ms)" % (r["target"], r.get("panic") or "no answer within 5 s", len(r["input"]) // 2, r["ms"]),
             {"cases": [r]})
    for r in by["fuzzsum"]:
        res["evaluations"] += sum(r["counts"].values())
        res["fuzz"] = r["counts"]
        for k in r["counts"]:
            distinct.add(("fuzz", k))
    for r in by["ct"] + by["rels"] + by["relsread"]:
        if "PANIC" in (r.get("err") or "") or "PANIC" in (r.get("rerr") or ""):
            viol("C11", "panic:xml-documents", "%s: %s" % (r.get("name") or r["k"], r.get("err") or r.get("rerr")), {"cases": [r]})

    # ================================================================ sign records: C01 C03 C05 C08
    jdk_queue = []
    origin_of = {}          # scenario -> members of round 1's input

    def judge_sign(r):
        res["evaluations"] += 1
        inm = unhex_members(r["in"])
        name = "%s round %d (%s, %s%s)" % (r["scenario"], r["round"], r["hash"], r["keytype"], ", detached certificates" if r["detach"] else "")
        pin = Pkg(inm)
        cls_in = pin.classify()
        if r["round"] == 1:
            origin_of[r["scenario"]] = inm
        bad_names = [n for n, _ in inm if not spec_is_ct_stream(n) and not n.endswith(b"/") and not spec_part_name_ok(n)]
        dup = len(set(lower_ascii(n) for n, _ in inm)) != len(inm)
        in_ct = pin.ctdoc()
        undeclared = [n for (n, _), k in zip(inm, cls_in) if k in ("part", "rels", "rootrels") and (in_ct is None or spec_ct_of(in_ct, n) is None)]
        n_ct = sum(1 for n, _ in inm if spec_is_ct_stream(n))
        dupdef = in_ct is not None and (len(set(lower_ascii(e) for e, _ in in_ct[0])) != len(in_ct[0]) or len(set(lower_ascii(e) for e, _ in in_ct[1])) != len(in_ct[1]))
        wellformed = not bad_names and not dup and not undeclared and n_ct == 1 and not dupdef
        distinct.add(("sign", r["hash"], r["keytype"], r["detach"], r["round"] > 1, tuple(sorted(set(cls_in))), wellformed))
        if r["class"] == 99:
            viol("C11+C01", "panic:sign", "signing %s panics: %s" % (name, r.get("err")), sign_replay(r))
            return
        if r["class"] != 0:
            if wellformed:
                viol("C01", "sign-refused", "relic refuses to sign the well-formed package %s: %s" % (name, r.get("err")), sign_replay(r))
            return
        outm = unhex_members(r["out"])
        pout = Pkg(outm)
        cls_out = pout.classify()
        if not dup and len(set(lower_ascii(n) for n, _ in outm)) != len(outm):
            viol("C03", "output-malformed@equivalent-part-names", "%s: the output contains part names that are equivalent ignoring ASCII case (a reader takes one of them): %s" %
                 (name, sorted(n.decode("latin1") for n, _ in outm if sum(1 for m, _ in outm if ieq(m, n)) > 1)), sign_replay(r))
            return
        # ---- C03: payload
        in_payload = [(n, c) for (n, c), k in zip(inm, cls_in) if k == "part"]
        out_payload = [(n, c) for (n, c), k in zip(outm, cls_out) if k == "part"]
        if in_payload != out_payload:
            lost = [n for n, c in in_payload if (n, c) not in out_payload]
            gained = [n for n, c in out_payload if (n, c) not in in_payload]
            what = "payload-changed"
            if lost and all(n.endswith(b".rels") for n in lost):
                what += "@relationships"          # the recorded behaviour: keepFile drops every *.rels member
            elif lost and all(n.endswith((b".psdor", b".psdsxs", b".rels")) or n.startswith(b"package/services/digital-signature/") for n in lost):
                what += "@reserved-signature-names"
            elif lost:
                what += "@other"
            elif gained:
                what += "@old-signature-parts-kept" if r["round"] > 1 or any(k == "sig" for k in cls_in) else "@parts-added"
            else:
                what += "@order"
            if what.endswith("old-signature-parts-kept"):
                res["notes"].append("%s: the earlier signature's parts %s stay in the package as ordinary parts (they are no longer reachable through relationships)" % (name, [g.decode("latin1") for g in gained]))
            else:
                # the recorded classes are filed under C03 only; anything else also concerns re-signing
                viol("C03" if what.endswith("@reserved-signature-names") else "C03+C08", what, "%s: payload parts of the input missing from the output: %s; parts that became payload: %s" % (name, [x.decode("latin1") for x in lost], [x.decode("latin1") for x in gained]),
                     sign_replay(r))
        # relationships that are payload (the known behaviour: every *.rels part is dropped)
        rel_in = {}
        for (n, c), k in zip(inm, cls_in):
            if k in ("rels", "rootrels"):
                pr = payload_relationships(c)
                if pr:
                    rel_in[lower_ascii(n)] = pr
        rel_out = {}
        for (n, c), k in zip(outm, cls_out):
            if k in ("rels", "rootrels"):
                pr = payload_relationships(c)
                if pr:
                    rel_out[lower_ascii(n)] = pr
        if rel_in != rel_out:
            viol("C03", "payload-changed@relationships", "%s: relationships that are not signature relationships differ: input %s, output %s" % (name, sorted(k.decode() for k in rel_in), sorted(k.decode() for k in rel_out)),
                 sign_replay(r))
        # ---- C03: the output is a well-formed package
        out_ct = pout.ctdoc()
        if out_ct is None:
            viol("C03", "output-malformed@content-types", "%s: the output has no readable content types stream" % name, sign_replay(r))
            return
        if sum(1 for n, _ in outm if spec_is_ct_stream(n)) != 1:
            viol("C03", "output-malformed@content-types-streams", "%s: the output has %d content types streams (names equivalent ignoring case)" % (name, sum(1 for n, _ in outm if spec_is_ct_stream(n))), sign_replay(r))
        if not dup and len(set(lower_ascii(n) for n, _ in outm)) != len(outm):
            viol("C03", "output-malformed@equivalent-part-names", "%s: the output contains part names that are equivalent ignoring ASCII case (a reader takes one of them): %s" %
                 (name, sorted(n.decode("latin1") for n, _ in outm if sum(1 for m, _ in outm if ieq(m, n)) > 1)), sign_replay(r))
            return
        exts = [lower_ascii(e) for e, _ in out_ct[0]]
        if len(set(exts)) != len(exts) and len(set(lower_ascii(e) for e, _ in (in_ct or ([], []))[0])) == len((in_ct or ([], []))[0]):
            viol("C03", "output-malformed@duplicate-default", "%s: the regenerated content types stream declares an extension twice: %s" % (name, sorted(e.decode() for e in exts if exts.count(e) > 1)), sign_replay(r))
        missing = [n for (n, _), k in zip(outm, cls_out) if k in ("part", "rels", "rootrels", "sig") and spec_ct_of(out_ct, n) is None and n not in undeclared]
        if missing:
            viol("C03+C05", "output-malformed@part-without-content-type", "%s: parts of the output without a declared content type: %s" % (name, [x.decode("latin1") for x in missing]), sign_replay(r))
        for (n, c), k in zip(inm, cls_in):
            if k == "part" and in_ct is not None and not dupdef and not dup and spec_ct_of(in_ct, n) is not None and spec_ct_of(out_ct, n) != spec_ct_of(in_ct, n) and (n, c) in out_payload:
                viol("C03", "content-type-redeclared", "%s: the content type of payload part %s changes from %s to %s" % (name, n.decode("latin1"), spec_ct_of(in_ct, n), spec_ct_of(out_ct, n)), sign_replay(r))
        # ---- C01 / C05: the signature as a reader that follows the specification finds it
        origins, sigs, certs = pout.sigparts()
        if len(origins) != 1 or len(sigs) != 1 or pout.get(origins[0]) is None or pout.get(sigs[0]) is None:
            viol("C01+C05+C08", "signature-not-found-by-relationships", "%s: following the relationships gives origin parts %s and signature parts %s" % (name, origins, sigs), sign_replay(r))
            return
        if out_ct is not None and (spec_ct_of(out_ct, origins[0]) != b"application/vnd.openxmlformats-package.digital-signature-origin" or
                                   spec_ct_of(out_ct, sigs[0]) != b"application/vnd.openxmlformats-package.digital-signature-xmlsignature+xml"):
            viol("C05", "signature-part-content-type", "%s: origin / signature part declared as %s / %s" % (name, spec_ct_of(out_ct, origins[0]), spec_ct_of(out_ct, sigs[0])), sign_replay(r))
        try:
            sg = read_sig_part(pout.get(sigs[0]))
        except XmlErr as e:
            viol("C01+C05", "signature-part-unreadable", "%s: %s" % (name, e), sign_replay(r))
            return
        if sg["object"] is None or sg["hash"] != HASH_IDS[r["hash"]]:
            viol("C01+C05", "signed-info", "%s: SignedInfo references %r with digest algorithm id %d, requested %s" % (name, sg["uri"], sg["hash"], r["hash"]), sign_replay(r))
        if sg["time"] != r["time"] or sg["timefmt"] != "YYYY-MM-DDThh:mm:ss.sTZD":
            viol("C05", "signature-time", "%s: SignatureTime %r in format %r, signing time was %s" % (name, sg["time"], sg["timefmt"], r["time"]), sign_replay(r))
        leaf = bytes.fromhex(r["chain"][0][1])
        if r["detach"]:
            got = [pout.get(c) for c in certs]
            if sg["x509"] or leaf not in got or sorted(x for x in got if x) != sorted(bytes.fromhex(d) for _, d in r["chain"]):
                viol("C01+C05", "detached-certificates", "%s: certificate parts reachable through relationships: %d of %d chain certificates, %d embedded" % (name, len([x for x in got if x]), len(r["chain"]), len(sg["x509"])), sign_replay(r))
        elif leaf not in sg["x509"]:
            viol("C01+C05", "embedded-certificates", "%s: the signing certificate is not in KeyInfo" % name, sign_replay(r))
        # the Manifest: every reference is (part name with the part's content type, digest of the part's bytes in the output) ...
        referenced = set()
        ref_problems = collections.defaultdict(list)
        for uri, alg, dv, trs in sg["refs"]:
            u = uri.encode()
            pn, _, q = u.partition(b"?")
            if pn[:1] != b"/" or not q.startswith(b"ContentType="):
                ref_problems["reference-uri-malformed"].append(uri)
                continue
            part, ctype = pn[1:], q[len(b"ContentType="):]
            if not spec_part_name_ok(part):
                ref_problems["reference-to-non-part@" + ("directory-entry" if part.endswith(b"/") else "invalid-name")].append(uri)
                continue
            content = pout.get(part)
            if content is None:
                ref_problems["reference-to-missing-part"].append(uri)
                continue
            referenced.add(lower_ascii(part))
            want = spec_ct_of(out_ct, part)
            if want is None:
                if part not in undeclared:
                    ref_problems["reference-content-type@undeclared"].append(uri)
            elif want != ctype:
                if in_ct is not None and spec_ct_of(in_ct, part) == ctype:
                    ref_problems["content-type-redeclared"].append("%s (the regenerated content types stream declares %s)" % (uri, want.decode("latin1")))
                    continue
                elif part != lower_ascii(part) or any(lower_ascii(x) != x for x, _ in out_ct[0] + out_ct[1]):
                    why = "case"
                else:
                    why = "other"
                ref_problems["reference-content-type@" + why].append("%s (the package declares %s)" % (uri, want.decode("latin1")))
            h = HASH_URIS.get(alg, 0)
            if h != HASH_IDS[r["hash"]] or trs or b64_go(dv) != digest(h, content):
                ref_problems["reference-digest"].append(uri)
        for k, v in ref_problems.items():
            if bad_names and k in ("reference-to-non-part@invalid-name", "reference-uri-malformed", "reference-to-missing-part"):
                continue        # a consequence of the input's names; judged below through relic's own verifier
            if (dup or dupdef) and k in ("reference-digest", "reference-content-type@case", "reference-content-type@other", "content-type-redeclared"):
                continue        # duplicate member names / duplicate declarations: which one counts is not defined
            viol("C03+C05" if k == "content-type-redeclared" else "C01+C05", k, "%s: %s" % (name, "; ".join(v[:4])), sign_replay(r))
        # ... and every part that is not signature infrastructure is referenced (what an accepted signature is expected to cover)
        uncovered = [n for (n, _), k in zip(outm, cls_out) if k == "part" and lower_ascii(n) not in referenced]
        if uncovered and not bad_names:
            viol("C02+C05", "part-not-in-manifest", "%s: payload parts without a Reference: %s" % (name, [x.decode("latin1") for x in uncovered]), sign_replay(r))
        # ---- C01: relic's own verifier
        v = r["verify"]
        if v["class"] != 0:
            what = "signed-but-unverifiable@" + ("name-not-a-part-name" if bad_names else "duplicate-names" if dup else "wellformed-package" if wellformed else "malformed-package")
            viol("C01", what, "%s: signing reports success, relic's own verifier then says: %s%s" % (name, v.get("err"), " (member names that are no part names: %s)" % [x.decode("latin1") for x in bad_names] if bad_names else ""),
                 sign_replay(r))
        else:
            if v.get("hash") != r["hash"] or v.get("leaf") != r["chain"][0][1]:
                viol("C01+C08", "verify-names-other-signer", "%s: the verifier names digest %s / a certificate other than the configured one" % (name, v.get("hash")), sign_replay(r))
        if r["keytype"] == "rsa" and r.get("out_path"):
            jdk_queue.append((r, name, sigs[0]))
        # ---- C08
        if r["round"] > 1 or r["in_verify"]["class"] == 0:
            o0 = origin_of.get(r["scenario"], inm)
            p0 = Pkg(o0)
            want = [(n, c) for (n, c), k in zip(o0, p0.classify()) if k == "part" and not n.endswith((b".psdor", b".psdsxs", b".rels")) and not n.startswith(b"package/services/digital-signature/")]
            have = [(n, c) for (n, c) in out_payload if (n, c) in want]
            if want != have:
                viol("C08", "resign:payload-differs-from-original", "%s: the payload after re-signing is not the original's" % name, sign_replay(r))
            if r["in_verify"]["class"] == 0 and not bad_names:
                old_sig = [n for (n, _), k in zip(inm, cls_in) if k == "sig" and not spec_is_rels_part(n)]
                still = [n for n in old_sig if pout.get(n) is not None and lower_ascii(n) not in [lower_ascii(x) for x in origins + sigs + certs]]
                if still and all(lower_ascii(n).startswith(b"package/services/digital-signature/") for n in still):
                    viol("C08", "resign:old-signature-parts-left", "%s: parts of the earlier signature are still in the package: %s" % (name, [x.decode("latin1") for x in still]), sign_replay(r))
        res["samples"] = res["samples"] or [{"scenario": r["scenario"], "round": r["round"], "hash": r["hash"], "keytype": r["keytype"], "members_in": len(inm), "members_out": len(outm), "references": len(sg["refs"]), "verify": v["class"]}]

    for r in by["sign"]:
        try:
            judge_sign(r)
        except Exception as e:      # an oracle that cannot cope is a defect of the check, never a silent pass
            viol("C01+C03+C05", "oracle-error", "the oracle failed on %s round %d: %r" % (r["scenario"], r["round"], e), {"scenario": r["scenario"]}, False)
    # ---- C05: the JDK's XML-Signature validator on the signature parts (RSA; the ECDSA encodings are C19's recorded findings)
    jdk = Jdk(ctx.scratch)
    if jdk.ok and jdk_queue:
        paths = []
        for r, name, sp in jdk_queue:
            p = os.path.join(ctx.scratch, "sig-%s.xml" % r["id"])
            open(p, "wb").write(Pkg(unhex_members(r["out"])).get(sp))
            paths.append(p)
        verdicts = jdk.validate(paths)
        res["jdk"] = {"validated": len(verdicts), "accepted": sum(1 for v in verdicts if v.get("full_ok") is True)}
        for (r, name, sp), v in zip(jdk_queue, verdicts):
            res["evaluations"] += 1
            if v.get("full_ok") is not True:
                viol("C05", "jdk-validator-rejects", "%s: XMLSignature.validate of the JDK rejects the signature part: %s" % (name, v.get("full_error") or v.get("error")), sign_replay(r), found="error" not in v)
    else:
        res["notes"].append("JDK XML-Signature validator not available (%s): the signature parts are judged by the manifest oracle and relic's verifier only" % jdk.why)

    # ================================================================ verify records: C02
    for r in by["verify"]:
        res["evaluations"] += 1
        o, exp = r["obs"], r.get("expect", "")
        distinct.add(("verify", r["base"], r["what"].split(":")[0], o["class"]))
        what = "%s / %s" % (r["base"], r["what"])
        if o["class"] == 99 or o["read_class"] == 99 or o["x_class"] == 99 or o["m_class"] == 99:
            viol("C11", "panic:verify", "%s: %s" % (what, o.get("err") or o.get("m_err") or o.get("x_err")), verify_replay(r))
        elif exp == "reject" and o["class"] == 0:
            viol("C02", "accepted-tampered:" + r["what"].split(":")[0], "%s: the verifier accepts" % what, verify_replay(r))
        elif exp == "unsigned" and o["class"] == 0:
            viol("C02", "accepted-tampered:" + r["what"].split(":")[0], "%s: the verifier accepts a package whose package relationships name no signature origin" % what, verify_replay(r))
        elif exp == "accept" and o["class"] != 0:
            viol("C01", "verify-rejects-valid:" + r["what"].split(":")[0], "%s: %s" % (what, o.get("err")), verify_replay(r))
        elif exp == "known:unlisted-member" and o["class"] == 0:
            viol("C02", "unlisted-member", "%s: members that no Reference covers are accepted" % what, verify_replay(r))
        elif exp == "shadow" and o["class"] == 0:
            res["notes"].append("%s: a second member with the name of a signed part, placed before it, is accepted (the last member of a name is the one verified; duplicate names are not allowed in a package)" % what)
        elif exp == "spec-accept" and o["class"] != 0:
            res["notes"].append("%s: a signature that follows the specification is not verifiable by relic (%s)" % (what, (o.get("err") or "")[:80]))

    # ================================================================ correspondence with the Coq model
    mism = []
    if st["model_ok"]:
        try:
            mism = correspond(ctx, by, res, distinct)
        except RuntimeError as e:
            viol("C05", "model-eval", str(e)[-300:], {"output": str(e)[-1500:]}, False)
        if mism:
            kinds = collections.Counter(m[0] for m in mism)
            viol("C01+C02+C03+C05+C08+C11", "correspondence", "model and implementation disagree on %d observation(s) %s (first: %s)" % (len(mism), dict(kinds), " / ".join(str(x)[:160] for x in mism[0])),
                 {"mismatches": [[str(x)[:400] for x in m] for m in mism[:25]], "by_kind": dict(kinds), "broken": "correspondence FmtVSIX.Run"}, False)
    res["mismatches"] = len(mism)
    res["distinct"] = len(distinct)
    res["known_reproduced"] = dict(res["known_reproduced"])
    return res


class Jdk:
    def __init__(self, scratch):
        self.dir = os.path.join(scratch, "jdk")
        self.ok, self.why = False, ""
        if not (shutil.which("java") and shutil.which("javac")):
            self.why = "java / javac not installed"
            return
        os.makedirs(self.dir, exist_ok=True)
        p = subprocess.run(["javac", "-encoding", "UTF-8", "-d", self.dir, os.path.join(VERIF, "harness", "ref", "XmlDsigVerify.java")], stdout=subprocess.PIPE, stderr=subprocess.PIPE, timeout=300)
        self.ok, self.why = p.returncode == 0, p.stderr.decode(errors="replace")[-200:]

    def validate(self, paths):
        out = []
        for i in range(0, len(paths), 40):
            chunk = paths[i:i + 40]
            p = subprocess.run(["java", "-cp", self.dir, "XmlDsigVerify"] + chunk, stdout=subprocess.PIPE, stderr=subprocess.PIPE, timeout=600)
            got = {}
            for l in p.stdout.decode(errors="replace").splitlines():
                if l.startswith("{"):
                    try:
                        d = json.loads(l)
                        got.setdefault(d.get("file"), d)
                    except ValueError:
                        pass
            out += [got.get(x, {"error": "no validator output: " + p.stderr.decode(errors="replace")[-200:]}) for x in chunk]
        return out


# ------------------------------------------------------------------ model / implementation comparison
def correspond(ctx, by, res, distinct):
    mism = []
    vals, checks = [], []

    def add(v, fn):
        vals.append(v)
        checks.append(fn)

    # ---- names
    for r in by["name"]:
        n = bytes.fromhex(r["n"])

        def chk(m, r=r, n=n):
            keep, relpath, ext, base, dr, clean, join, conv, pn_ok, is_rels, is_ct, panics = m
            real = (int(r["keep"]), r["relpath"], r["ext"], r["base"], r["dir"], r["clean"], r["join"])
            if (keep, relpath, ext, base, dr, clean, join) != real and not r.get("panic"):
                mism.append(("name", n, "model %s" % ((keep, relpath, ext, base, dr, clean, join),), "real %s" % (real,)))
            if panics and not r.get("panic"):
                mism.append(("name-panic-flag", n, "the generated panic condition holds, the real functions return"))
            if keep != (0 if conv else 1):
                mism.append(("name-conv", n, "keepFile %d, name-level rule %d" % (keep, conv)))
            if (pn_ok, is_rels, is_ct) != (int(spec_part_name_ok(n)), int(spec_is_rels_part(n)), int(spec_is_ct_stream(n))):
                mism.append(("name-spec", n, "Coq specification side %s, python %s" % ((pn_ok, is_rels, is_ct), (spec_part_name_ok(n), spec_is_rels_part(n), spec_is_ct_stream(n)))))
        add([0, n], chk)
    # ---- content types
    for r in by["ct"]:
        if r.get("err"):
            continue
        x = bytes.fromhex(r["xml"])
        doc = ([(bytes.fromhex(a), bytes.fromhex(b)) for a, b in r["doc"]["defs"]], [(bytes.fromhex(a), bytes.fromhex(b)) for a, b in r["doc"]["ovrs"]])
        try:
            g = go_read_ct(x)
            if (sorted(g[0]), sorted(g[1])) != (sorted(doc[0]), sorted(doc[1])) or spec_read_ct(x) != g:
                mism.append(("ct-reader", r["name"], "the check's XML reader and the generator disagree about the document"))
                continue
            doc = g
        except XmlErr as e:
            mism.append(("ct-reader", r["name"], str(e)))
            continue
        names = [bytes.fromhex(n) for n, _ in r["finds"]]

        def chk(m, r=r, doc=doc, names=names):
            finds, marshal, sfinds, uris, paths = m
            for n, f, (_, realf) in zip(names, finds, r["finds"]):
                if f != realf:
                    mism.append(("ct-find", r["name"], n, "model %s real %s" % (bytes.fromhex(f), bytes.fromhex(realf))))
            if marshal != r["marshal"]:
                mism.append(("ct-marshal", r["name"], "model %s" % bytes.fromhex(marshal)[:300], "real %s" % bytes.fromhex(r["marshal"])[:300]))
            for n, sf in zip(names, sfinds):
                want = spec_ct_of(doc, n)
                if (sf[1] if sf[0] else None) != (want.hex() if want is not None else None):
                    mism.append(("ct-spec", r["name"], n, "Coq specification side %s, python %s" % (sf, want)))
            try:
                back = spec_read_ct(bytes.fromhex(r["marshal"]))
                c_ext, c_ovr = {}, {}
                for k, v in doc[0]:
                    c_ext[k] = v
                for k, v in doc[1]:
                    c_ovr[k] = v
                if back != (sorted(c_ext.items()), sorted(c_ovr.items())):
                    mism.append(("ct-marshal-readback", r["name"], "a reader does not get the table back from ContentTypes.Marshal's output"))
            except XmlErr as e:
                if all(all(c >= 32 or c in (9, 10, 13) for c in k + v) for k, v in doc[0] + doc[1]):
                    mism.append(("ct-marshal-readback", r["name"], str(e)))
        add([1, [list(e) for e in doc[0]], [list(e) for e in doc[1]], names], chk)
        res["evaluations"] += 1
    # ---- relationships: Append + Marshal, and the reader
    for r in by["rels"]:
        pairs = [(bytes.fromhex(a), bytes.fromhex(b)) for a, b in r["pairs"]]
        sha = []
        for p, t in pairs:
            for z in range(0, 8):
                pre = p + t + b"\0" * z
                sha.append([pre, hashlib.sha1(pre).digest()])

        def chk(m, r=r):
            stt, out = m
            if (stt != 0) != bool(r.get("err")) or (stt == 0 and out != r["out"]):
                mism.append(("rels-marshal", "model status %d %s" % (stt, bytes.fromhex(out)[:300]), "real %s %s" % (r.get("err"), bytes.fromhex(r["out"])[:300])))
        add([2, [list(p) for p in pairs], sha], chk)
        if not r.get("err") and not r.get("rerr"):
            back = [(bytes.fromhex(a), bytes.fromhex(c)) for a, b, c in r["back"]]
            clean = all(all(ch >= 32 or ch in (9, 10, 13) for ch in p + t) and _valid_utf8(p + t) for p, t in pairs)
            if clean and [(b, t) for b, t in back if False] != [] or (clean and [t for _, t in back] != [t for _, t in pairs]):
                mism.append(("rels-readback", "relationship types read back differ from what was appended"))
        res["evaluations"] += 1
    for r in by["relsread"]:
        x = bytes.fromhex(r["xml"])
        try:
            g = go_read_rels(x)
            gerr = None
        except XmlErr as e:
            g, gerr = None, str(e)
        real = [(bytes.fromhex(a), bytes.fromhex(b), bytes.fromhex(c)) for a, b, c in r["rels"]]
        if (gerr is None) != (r["class"] == 0) or (gerr is None and g != real):
            res["notes"].append("relationships document %r: Go's reader says %s, the check's emulation of it %s (oracle input only; the model takes the real reading)" % (r["name"], r.get("err") or real, gerr or g))
        if r["class"] != 0:
            continue

        def chk(m, r=r, real=real):
            found, stargets = m
            if found != r["origin"]:
                mism.append(("rels-find", r["name"], "model %s real %s" % (bytes.fromhex(found), bytes.fromhex(r["origin"]))))
            want = [spec_resolve(b"", t) for t, _, ty in real if ty == T_ORIGIN.encode()]
            if [bytes.fromhex(s) for s in stargets] != want:
                mism.append(("rels-spec-resolve", r["name"], "Coq specification side %s python %s" % (stargets, want)))
        add([3, [list(t) for t in real], T_ORIGIN.encode(), b""], chk)
        res["evaluations"] += 1
    # ---- sign
    for r in by["sign"]:
        inm = [(n, standin(c)) for n, c in unhex_members(r["in"])]
        outm = [(n, standin(c)) for n, c in unhex_members(r["out"])] if r["class"] == 0 else []
        real_of = {}
        for n, c in unhex_members(r["in"]) + (unhex_members(r["out"]) if r["class"] == 0 else []):
            real_of[standin(c)] = c
        alg = HASH_IDS[r["hash"]]
        cttab = []
        for c in set(c for n, c in unhex_members(r["in"]) if n == CT_NAME):
            try:
                d = go_read_ct(c)
                cttab.append([standin(c), 1, [list(e) for e in d[0]], [list(e) for e in d[1]]])
            except XmlErr:
                cttab.append([standin(c), 0, [], []])
        htab = [[alg, k, digest(alg, v)] for k, v in real_of.items()]
        fname = bytes.fromhex(r["chain"][0][0]) if r.get("chain") else b""
        sha = []
        sig_name = b"package/services/digital-signature/xml-signature/" + fname + b".psdsxs"
        pres = [b"package/services/digital-signature/origin.psdor" + T_ORIGIN.encode(), sig_name + T_SIG.encode()]
        pres += [b"package/services/digital-signature/certificate/" + bytes.fromhex(fn) + b".cer" + T_CERT.encode() for fn, _ in (r.get("chain") or [])]
        for p in pres:
            for z in range(8):
                sha.append([p + b"\0" * z, hashlib.sha1(p + b"\0" * z).digest()])
        chain = [[bytes.fromhex(a), bytes.fromhex(b)] for a, b in (r.get("chain") or [])]

        outreal = unhex_members(r["out"]) if r["class"] == 0 else []

        def chk(m, r=r, outm=outm, alg=alg, outreal=outreal):
            stt, members = m
            tag = "%s round %d" % (r["scenario"], r["round"])
            if stt != r["class"]:
                mism.append(("sign-status", tag, "model %d real %d (%s)" % (stt, r["class"], r.get("err"))))
                return
            if stt != 0:
                return
            mm = [(bytes.fromhex(a), bytes.fromhex(b)) for a, b in members]
            if [n for n, _ in mm] != [n for n, _ in outm]:
                mism.append(("sign-member-names", tag, "model %s" % [n for n, _ in mm], "real %s" % [n for n, _ in outm]))
                return
            for (n, c), (_, rc), (_, rreal) in zip(mm, outm, outreal):
                if n.endswith(b".psdsxs") and n.startswith(b"package/services/digital-signature/xml-signature/"):
                    refs, i = [], 0
                    while i < len(c):
                        f = []
                        for _ in range(3):
                            ln = int.from_bytes(c[i:i + 4], "big")
                            f.append(c[i + 4:i + 4 + ln])
                            i += 4 + ln
                        refs.append(tuple(f))
                    try:
                        sg = read_sig_part(rreal)
                        real_refs = [(u.encode(), a.encode(), b64_go(dv)) for u, a, dv, _ in sg["refs"]]
                    except XmlErr as e:
                        real_refs = [("unreadable", str(e))]
                    if refs != real_refs:
                        k = next((j for j in range(min(len(refs), len(real_refs))) if refs[j] != real_refs[j]), min(len(refs), len(real_refs)))
                        mism.append(("sign-manifest", tag, "reference #%d of %d / %d: model %s real %s" % (k, len(refs), len(real_refs), refs[k:k + 1], real_refs[k:k + 1])))
                elif c != rc:
                    mism.append(("sign-member-content", tag, n, "model %s" % c[:300], "real %s" % rc[:300]))
        add([4, [list(m) for m in inm], cttab, htab, sha, alg, r["time"].encode(), int(r["detach"]), fname, chain], chk)
        res["evaluations"] += 1
        # the verifier on the output, and on the input
        for tag, pk, obs in (("out", r.get("out"), r.get("verify")), ("in", r["in"], r.get("in_verify"))):
            if pk is not None and obs is not None:
                v = verify_case("%s round %d (%s)" % (r["scenario"], r["round"], tag), unhex_members(pk), obs, r.get("chain"), mism)
                if v:
                    add(*v)
    for r in by["verify"]:
        v = verify_case("%s / %s" % (r["base"], r["what"]), unhex_members(r["pk"]), r["obs"], None, mism)
        if v:
            add(*v)
        res["evaluations"] += 1
    # ---- the specification side on every package seen: the Coq classification against the python one
    seen = set()
    for r in by["sign"]:
        for pk in (r["in"], r.get("out")):
            if not pk:
                continue
            ms = unhex_members(pk)
            key = tuple((n, hashlib.sha1(c).digest()) for n, c in ms)
            if key in seen:
                continue
            seen.add(key)
            relstab = []
            for c in set(c for n, c in ms if lower_ascii(n).endswith(b".rels")):
                try:
                    relstab.append([standin(c), 1, [[x["target"], x["id"], x["type"].encode()] for x in spec_read_rels(c) if x["mode"] == "Internal"]])
                except XmlErr:
                    relstab.append([standin(c), 0, []])
            pyc = Pkg(ms).classify()
            codes = {"ct": 1, "sig": 2, "rootrels": 3, "rels": 4, "part": 5, "notpart": 6}

            def chk(m, ms=ms, pyc=pyc, r=r):
                classes = m[0]
                if classes != [codes[k] for k in pyc]:
                    mism.append(("spec-classes", r["scenario"], "Coq specification side %s python %s for %s" % (classes, [codes[k] for k in pyc], [n for n, _ in ms])))
            add([6, [[n, standin(c)] for n, c in ms], relstab], chk)
    out = run_model_big(ctx, vals)
    for m, fn in zip(out, checks):
        fn(m)
    res["model_evaluations"] = len(vals)
    return mism


def _valid_utf8(b):
    try:
        b.decode("utf-8")
        return True
    except UnicodeDecodeError:
        return False


def verify_case(tag, ms, obs, chain, mism):
    """the model's verify on a package, with the XML readers, the XML-DSig check and the certificates as observed oracles"""
    if obs["class"] in (60, 99) or obs["read_class"] in (60, 99):
        return None
    relstab, sigtab, certtab, b64tab = [], [], [], [[b"", 1, b""]]
    for c in set(c for _, c in ms):
        if len(c) > BIG:
            continue
        try:
            relstab.append([c, 1, [list(t) for t in go_read_rels(c)]])
        except XmlErr:
            relstab.append([c, 0, []])
    leaf = bytes.fromhex(obs["leaf"]) if obs.get("leaf") else (bytes.fromhex(chain[0][1]) if chain else None)
    sig = bytes.fromhex(obs["sig_part"]) if obs.get("sig_part") is not None and obs["read_class"] == 0 else None
    x509s = []
    if sig is not None:
        ok = obs["x_class"] == 0
        alg, objv = 0, [1, b""]
        if ok:
            try:
                sg = read_sig_part(sig)
                alg, x509s = sg["hash"], sg["x509"]
                if sg["object"] is None:
                    ok = False
                else:
                    objv = node_val(sg["object"])
                    for e in bfs(sg["object"]):
                        if e.localName == "DigestValue":
                            dv = "".join(t.data for t in e.childNodes if t.nodeType in (t.TEXT_NODE, t.CDATA_SECTION_NODE))
                            d = b64_go(dv)
                            b64tab.append([dv.encode(), 1 if d is not None else 0, d or b""])
            except XmlErr:
                return None      # the check's XML reader cannot follow what Go's accepted: no model comparison for this case
        sigtab.append([standin(sig), 1 if ok else 0, b"K", alg, objv, 1, x509s, 2 if (ok and obs["class"] == 18) else 0])
    for c in set(c for _, c in ms) | set(x509s):
        if c[:1] == b"0" and len(c) > 100 and len(c) <= BIG:      # DER SEQUENCE: a certificate part
            certtab.append([c, b"K" if (leaf is not None and c == leaf) else b"other:" + hashlib.sha1(c).digest()])
    htab = []
    for c in set(standin(c) for _, c in ms):
        pass
    real = {standin(c): c for _, c in ms}
    for k, v in real.items():
        for a in (3, 4, 5, 6, 7):
            htab.append([a, k, digest(a, v)])

    def chk(m, tag=tag, obs=obs):
        stt, alg, ts, rstt = m
        if rstt != obs["read_class"]:
            mism.append(("verify-readsig", tag, "model %d real %d" % (rstt, obs["read_class"])))
        elif stt != obs["class"] and not (obs["class"] == 19 and leaf is None):
            mism.append(("verify-status", tag, "model %d real %d (%s)" % (stt, obs["class"], obs.get("err"))))
        elif stt == 0 and HASH_PY.get(alg, "").upper() != (obs.get("hash") or "").lower().upper():
            mism.append(("verify-hash", tag, "model %d real %s" % (alg, obs.get("hash"))))
    return ([5, [[n, standin(c)] for n, c in ms], relstab, sigtab, certtab, htab, b64tab], chk)


def run_model_big(ctx, vals):
    import resource
    soft, hard = resource.getrlimit(resource.RLIMIT_STACK)
    want = 1 << 30
    try:
        resource.setrlimit(resource.RLIMIT_STACK, (want if hard == resource.RLIM_INFINITY or hard >= want else hard, hard))
    except (ValueError, OSError):
        pass
    try:
        return ctx.run_model(vals, timeout=900)
    finally:
        try:
            resource.setrlimit(resource.RLIMIT_STACK, (soft, hard))
        except (ValueError, OSError):
            pass


def run(ctx, replay=None):
    ctx.unit = "fmtvsix"
    cb = body(ctx, replay)
    st = cb["status"]
    if not st["proofs_ok"] and any(v[2] for v in ctx.violations):
        # Ctx.proof_verdict stays silent when a failing input was reported; here the reported inputs may be unrelated to the broken obligation
        what = st["broken"] or st["hygiene"] or [t for t, v in st["built"].items() if not v] or ["no theorems found"]
        ctx.violation(ctx.pid + ":proof", "proof obligations no longer check (beside the inputs reported above): %s" % (what,),
                      {"broken": what, "coq_log_tail": (ctx.coq or {}).get("log_tail", "")[-2500:]}, False)
    ctx.proof_verdict()
    cov = ctx.proof_coverage(
        ["srcgen translator gen_fmtvsix.go (string constants and the extension table; keepFile, relPath, ContentTypes.Find whole; the content type choice and Reference URI of makeSignature's loop body; "
         "the part path checkManifest derives from a URI; Find / Append expressions; part names built by sign / addCerts; every branch condition of the Mangle callback, newCtypes, readSignature, readZip, "
         "checkManifest, checkTimestamp, verify; XML struct tags; call orders; statement presence; with every value the exact condition under which the Go expression indexes or slices out of range)",
         "correspondence harness cmd/drv-fmtvsix (real keepFile / relPath / ContentTypes / oxfRelationships / sign -> Apply -> verify / readSignature / xmldsig.Verify / checkManifest through verif hooks; "
         "Go's package path as reference for FmtVSIX/Lib.v)",
         "symbolic in the theorems, observed in the comparison: digests, base64, encoding/xml Unmarshal of content types / relationships documents, XML-DSig signing and verification of the package Object "
         "(unit C19), certificate parsing and key matching (unit C07), RFC 3161 token check (unit C10); hand-modelled from the Go standard library and tied by correspondence only: xml.Marshal of the two "
         "flat documents incl. EscapeString, Unmarshal of the package Object at tree level"],
        ["signers/vsix:", "lib/signappx:ContentTypes.", "lib/signappx:.marshalXML"])
    cov.update({"evaluations": cb["evaluations"], "distinct_nontrivial": cb["distinct"],
                "rule": "member names: every reserved name and its neighbours (case variants, trailing slash, dot segments, empty segments, look-alike extensions) + random names over a path alphabet, through the real "
                        "keepFile / relPath and Go's path functions; content type tables from 30+ scenario packages in three XML styles with look-ups of every member name and its case variants; relationship "
                        "documents (Id collisions, characters that need escaping, 20 reader inputs incl. wrong namespace / nesting / relative and dot-segment targets); scenario packages (parts without extension, "
                        "upper-case extensions, Override vs Default, payload relationships, directory entries, reserved extensions and folders as payload, duplicate and invalid names, certificates as payload, "
                        "no / two content types streams, random packages, the shipped fixture, packages signed by the harness in two other tools' part layouts with and without the relationships transform) "
                        "signed 1-3 times with RSA / ECDSA, SHA-1..SHA-512, certificates embedded / detached; every output read by a reader written from ECMA-376 Part 2 (payload, content types, "
                        "relationships, the manifest against the part bytes), by relic's verifier and its stages, and its signature part by the JDK validator; 25+ member-level mutations of three signed "
                        "packages; 35 harness-built package Objects (malformed references) signed with the real lib/xmldsig; malformed XML through every parser",
                "samples": cb["samples"], "case_counts": cb.get("cases"), "model_mismatches": cb.get("mismatches"), "model_evaluations": cb.get("model_evaluations"), "fuzz": cb.get("fuzz"), "jdk": cb.get("jdk"),
                "known_behaviour_reproduced": cb.get("known_reproduced"), "aspect_theorems": ASPECT_THEOREMS})
    ctx.notes += cb["notes"][:40]
    return ctx.finish("proof", cov, ["a package is the list of its ZIP members (name, content) in central-directory order: removal / appending of members at byte level is unit C17's subject",
                                     "XML-DSig signing / verification of the package Object, certificate matching and the RFC 3161 token check are symbolic (section variables with explicit hypotheses); "
                                     "the XML tokenizer of encoding/xml is not modelled: the readers of content types / relationships documents are section variables, their writers are byte-exact models",
                                     "the OPC reference verifier (System.IO.Packaging) is not available here: conformance of the manifest is judged by a reader written from ECMA-376 Part 2"])
