# C05 — signatures are accepted by each ecosystem's reference verifier (end-to-end half).
# The REAL relic binary signs fixtures and harness-generated inputs; the outputs are handed to independent implementations
# (jarsigner, OpenSSL smime/cms/ts/dgst, gpgv/gpg, dpkg-deb, the JDK XML-Signature validator) and to reference computations written
# from the specifications in Python (vlib/c05_ref.py, vlib/c05_der.py), which share no code with relic.  The oracle is model-free:
# "the outside implementation accepts" and "the digest embedded in the signature equals the specification's digest of the artefact".
import base64, concurrent.futures, copy, hashlib, json, os, re, shutil, struct, subprocess, threading, time, traceback, zipfile, io
from vlib import e2e, formats
from vlib import c05_der as der
from vlib import c05_ref as ref
from vlib import c05_inputs as inputs
from vlib import c05_apple as apple
import zlib
from urllib.parse import unquote
from vlib.c05_tools import Tools, run as trun
from vlib.c05_tsa import TSA

# Genuine defects of relic found by this check are reported like everything else, through ctx.violation with their specific key;
# /verif/known_findings.json turns the registered keys into KNOWN-FINDING lines (exact keys only, nothing is suppressed by pattern):
#   C05:spec:pkcs7:signedattrs-not-der-sorted                        authenticated attributes emitted and signed in insertion order, not in DER order
#   C05:spec:cat:pkcs7-signedattrs-absent-for-non-data-content        `relic sign -T cat` signs the CTL without authenticated attributes
#   C05:spec:appmanifest:ecdsa-sigvalue-not-fixed-width:<p256|p384|p521>   XML-DSig ECDSA SignatureValue not padded to the field width (same defect as C19:sigvalue:ecdsa-short:*)
#   C05:spec:appmanifest:jdk-validator-rejects-ecdsa-strongnamesignature   consequence of the former, as seen by the stock JDK validator

PGP_HASH_IDS = {"sha1": 2, "sha256": 8, "sha384": 9, "sha512": 10, "sha224": 11}
KEY_CURVE_BYTES = {"p256": 32, "p384": 48, "p521": 66}


def slug(s):
    return re.sub(r"[^a-z0-9]+", "-", s.lower()).strip("-")[:48]


class Env:
    def __init__(self, ctx, kit, tools):
        self.ctx, self.kit, self.tools = ctx, kit, tools
        self.dir = os.path.join(ctx.scratch, "c05")
        os.makedirs(self.dir, exist_ok=True)
        self.lock = threading.Lock()
        self.inputs = {}
        self.n = 0
        self.tsa = None
        self.ts_conf = None

    def input(self, recipe):
        """materialise an input; returns (path, sha256)"""
        with self.lock:
            hit = self.inputs.get(recipe)
            if hit:
                return hit
        data, ext = inputs.build(recipe)
        with self.lock:
            if recipe in self.inputs:
                return self.inputs[recipe]
            p = os.path.join(self.dir, "in-%d-%s%s" % (len(self.inputs), slug(recipe)[-30:], ext))
            # keep the fixture's own name extension logic simple: relic selects the signer from magic / extension
            if recipe.startswith("fixture:"):
                p = os.path.join(self.dir, "in-%d-%s" % (len(self.inputs), recipe.split(":", 1)[1]))
            with open(p, "wb") as f:
                f.write(data)
            self.inputs[recipe] = (p, hashlib.sha256(data).hexdigest())
            return self.inputs[recipe]

    def outpath(self, suffix):
        with self.lock:
            self.n += 1
            return os.path.join(self.dir, "out-%d%s" % (self.n, suffix))


class S:
    """one scenario run: collects command lines, evaluations and problems"""

    def __init__(self, env, fmt, name, params):
        self.env, self.fmt, self.name, self.params = env, fmt, name, params
        self.cmds, self.problems, self.notes = [], [], []
        self.evals = 0
        self.distinct = set()
        self.facts = {}
        self.tools = {}         # reference tool / reference computation -> [accepted, rejected]
        self.skips = []         # (sub-check, reason): the tool is missing or failed its capability probe
        self.artefacts = {}     # role -> path (input, signed output)

    def cmd(self, c):
        self.cmds.append(" ".join(str(x) for x in c))

    def sign(self, key, infile, outfile, sigtype=None, digest=None, flags=(), remote=False, conf=None):
        kit = self.env.kit
        c = [kit.relic, "-c", conf or kit.conf] + (["remote"] if remote else []) + ["sign", "-k", key, "-f", infile, "-o", outfile]
        if sigtype:
            c += ["-T", sigtype]
        if digest:
            c += ["--digest", digest]
        c += list(flags)
        self.cmd(c)
        self.artefacts["input"], self.artefacts["signed"] = infile, outfile
        p = subprocess.run(c, stdout=subprocess.PIPE, stderr=subprocess.PIPE, timeout=300)
        text = p.stderr.decode(errors="replace") + p.stdout.decode(errors="replace")
        if len(text) > 1100:        # a Go panic names the cause at the top and the call chain at the bottom
            text = text[:600] + "\n[...]\n" + text[-450:]
        return p.returncode, text

    def refcmd(self, expr, path):
        """command line that re-runs a Python reference computation on a file (listed in replays beside the tools' command lines)"""
        self.cmds.append("cd /verif && python3 -c 'import sys; from vlib import c05_ref as ref; d = open(sys.argv[1], \"rb\").read(); print(%s)' %s" % (expr, path))

    def tool(self, name, accepted):
        """tally of what an outside implementation / a reference computation said about relic's output"""
        t = self.tools.setdefault(name, [0, 0])
        t[0 if accepted else 1] += 1
        return accepted

    def skip(self, what, reason):
        self.skips.append((what, reason))

    def need(self, *tools):
        """True when every named tool is installed; otherwise the sub-check is skipped (recorded, never an alarm)"""
        missing = [t for t in tools if not self.env.tools.available.get(t)]
        if missing:
            self.skip("%s: sub-checks using %s" % (self.fmt, "/".join(tools)), "%s not installed in this sandbox" % ", ".join(missing))
        return not missing

    def check(self, ok, what, detail, found=True, **extra):
        """one evaluation of the oracle; `what` is the key suffix after C05:spec:<format>:"""
        self.evals += 1
        if not ok:
            self.problems.append({"key": "C05:spec:%s:%s" % (self.fmt, what), "detail": detail, "found": found, "extra": extra})
        return ok

    def problem(self, key, detail, found=True, **extra):
        self.problems.append({"key": key, "detail": detail, "found": found, "extra": extra})


# ====================================================================================================== PKCS#7 common part
def sig_alg_consistent(signer, digest, keytype):
    a = signer["sig_alg"]
    if keytype == "rsa":
        return a in ("rsaEncryption", digest + "WithRSA")
    return a in ("ecPublicKey", "ecdsaWith" + digest.upper())


def check_timestamp(s, signature, token, label):
    """RFC 3161 token over `signature` (the SignerInfo's encryptedDigest / the XML SignatureValue): own reading of TSTInfo + `openssl ts -verify`"""
    t, tsa = s.env.tools, s.env.tsa
    try:
        tsd = der.parse_signed_data(token)
        s.check(tsd["econtent_type"] == "tstInfo", label + "-timestamp-content-type", "timestamp token content type %s" % tsd["econtent_type"])
        tst = der.parse(tsd["econtent_octets"]).children()
        mi = tst[2].children()
        alg, hm = der.alg_name(mi[0])[0], mi[1].content
        s.check(alg in ("sha1", "sha224", "sha256", "sha384", "sha512") and hm == der.H(alg, signature), label + "-timestamp-imprint-mismatch",
                "TSTInfo.messageImprint (%s) is not the digest of the signature value it is attached to" % alg)
    except (der.DerError, IndexError, ValueError) as e:
        s.check(False, label + "-timestamp-malformed", "timestamp token does not parse: %s" % e)
        return
    if not s.need("openssl"):
        return
    ok, text, cmd = t.ts_verify(token, signature, tsa.cafile)
    s.cmd(cmd)
    s.tool("openssl ts -verify", ok)
    s.check(ok, label + "-openssl-ts-rejects", "openssl ts -verify rejects the embedded timestamp token: " + text[-300:])


def check_p7(s, blob, digest, keyname, content=None, want_ctype=None, padded=False, label="pkcs7", timestamp=None):
    """Checks shared by every PKCS#7 / CMS blob relic emits.  Returns the parsed SignedData (or None)."""
    t = s.env.tools
    try:
        sd = der.parse_signed_data(blob, exact=not padded)
    except (der.DerError, IndexError, ValueError) as e:
        s.check(False, label + "-not-der", "PKCS#7 blob does not parse as DER SignedData: %s" % e)
        return None
    if padded:
        tail = blob[sd["total_len"]:]
        s.check(len(tail) < 8 and not any(tail), label + "-padding", "%d bytes after the SignedData, not all zero or more than alignment needs" % len(tail))
        blob = blob[:sd["total_len"]]
    have_openssl = s.need("openssl")
    if have_openssl:
        ok, perr, pcmd = t.asn1parse_ok(blob)
        s.cmd(pcmd)
        s.tool("openssl asn1parse", ok)
        s.check(ok, label + "-openssl-asn1parse", "openssl asn1parse refuses the blob: " + perr)
    keytype = s.env.kit.keys[keyname]["type"]
    s.check(sd["digest_algs"] == [digest], label + "-digest-algorithms", "SignedData.digestAlgorithms %s, requested %s" % (sd["digest_algs"], digest))
    s.check(len(sd["signers"]) == 1, label + "-signer-count", "%d SignerInfos" % len(sd["signers"]))
    if not sd["signers"]:
        return sd
    si = sd["signers"][0]
    ctype = sd["econtent_type"]
    s.check(si["digest_alg"] == digest, label + "-signer-digest-algorithm", "SignerInfo.digestAlgorithm %s, requested %s" % (si["digest_alg"], digest))
    s.check(sig_alg_consistent(si, digest, keytype), label + "-signature-algorithm", "SignerInfo.digestEncryptionAlgorithm %s with a %s key and %s" % (si["sig_alg"], keytype, digest))
    leaf = der.find_signer_cert(sd, si)
    s.check(leaf is not None, label + "-signer-cert-missing", "no certificate matching issuerAndSerialNumber is included")
    if want_ctype:
        s.check(ctype == want_ctype, label + "-content-type", "contentType %s, expected %s" % (ctype, want_ctype))
    spki = None
    if leaf is not None:
        try:
            spki = der.spki_of_cert(leaf)["spki"]
        except (der.DerError, IndexError) as e:
            s.check(False, label + "-signer-cert-malformed", "signer certificate does not parse: %s" % e)
    # The content octets the message digest is taken over (RFC 2315 9.3 / Authenticode: the contents octets of the content value,
    # identifier and length octets excluded; for id-data that is the OCTET STRING's value = RFC 5652 5.4)
    data = sd["econtent_octets"] if sd["econtent"] is not None else content
    if si["auth_raw"] is not None:
        s.evals += 1
        if not si["auth_sorted"]:
            strict = None
            if spki is not None and have_openssl:
                # what a verifier does that decodes the set and digests its DER encoding, as RFC 5652 5.4 words it
                enc = [c.raw for c in der.parse(si["auth_raw"]).children()]
                width = max(len(e) for e in enc)
                enc.sort(key=lambda e: e.ljust(width, b"\0"))
                body = b"".join(enc)
                hdr = der.parse(si["auth_raw"])
                resorted = b"\x31" + si["auth_raw"][1:hdr.hl] + body
                strict, _, scmd = t.sig_verify(spki, digest, si["signature"], resorted)
                s.cmd(scmd)
            s.problem("C05:spec:pkcs7:signedattrs-not-der-sorted", "[%s] " % s.fmt + ("(signature checked against the DER re-encoding of the set: %s) " % ("accepted" if strict else "REJECTED") if strict is not None else "") +
                      "authenticatedAttributes SET OF is emitted, and signed, in the order %s, which is not the DER order (X.690 11.6): RFC 2315 9.3 / RFC 5652 5.4 define the signed digest over the DER "
                      "encoding of the set, so a verifier that decodes and re-encodes (BouncyCastle does) computes another digest; verifiers that hash the octets as received (OpenSSL, Windows, the JDK) accept" % si["auth_order"],
                      order=si["auth_order"])
        s.check(der.attr_content_type(si) == ctype, label + "-contenttype-attribute", "content-type attribute %s != %s" % (der.attr_content_type(si), ctype))
        if data is not None:
            s.check(s.tool("reference: messageDigest attribute", der.attr_message_digest(si) == der.H(digest, data)), label + "-message-digest", "messageDigest attribute != %s of the content octets" % digest)
        # the signature itself, by hand: digest of the attributes re-tagged as SET (RFC 2315 9.3), checked by openssl dgst
        if spki is not None and have_openssl:
            okv, verr, vcmd = t.sig_verify(spki, digest, si["signature"], b"\x31" + si["auth_raw"][1:])
            s.cmd(vcmd)
            s.tool("openssl dgst -verify", okv)
            s.check(okv, label + "-signature-over-attributes", "openssl dgst -verify rejects the signature over the SET OF attributes: " + verr)
    else:
        # no authenticated attributes: the signature is taken over the content octets directly.  Allowed for id-data only:
        # RFC 2315 9.2 "[authenticatedAttributes] must be present if the content type of the ContentInfo value being signed is not data",
        # RFC 5652 5.3 "MUST be present if the content type of the EncapsulatedContentInfo value being signed is not id-data".
        s.check(ctype == "data", label + "-signedattrs-absent-for-non-data-content",
                "SignerInfo has no authenticatedAttributes although the content type is %s: RFC 2315 9.2 / RFC 5652 5.3 require at least content-type and message-digest attributes "
                "for every content type other than id-data (Microsoft-signed catalogs carry contentType, messageDigest, SpcSpOpusInfo, SpcStatementType)" % ctype)
        if spki is not None and data is not None and have_openssl:
            okv, verr, vcmd = t.sig_verify(spki, digest, si["signature"], data)
            s.cmd(vcmd)
            s.tool("openssl dgst -verify", okv)
            s.check(okv, label + "-signature-over-content", "openssl dgst -verify rejects the signature over the content octets: " + verr)
    # the whole structure through OpenSSL, when the installed OpenSSL is able to judge this content type (probed at start-up with a
    # genuine third-party signature: OpenSSL 3.0/3.1 reject Microsoft's own Authenticode signatures)
    detached = sd["econtent"] is None
    cap = t.cap("openssl-smime-verify:" + ctype)
    if cap["ok"]:
        okp, got, perr, pcmd = t.p7_verify(blob, content if detached else None)
        s.cmd(pcmd)
        s.tool("openssl smime -verify [%s]" % ctype, okp)
        s.check(okp, label + "-openssl-rejects", "openssl smime -verify fails: " + perr)
        if okp and not detached:
            s.check(got == sd["econtent_octets"], label + "-openssl-content", "content written by openssl differs from the encapsulated content octets")
    else:
        s.skip("openssl smime -verify of the whole SignedData, content type %s" % ctype,
               "capability probe failed (%s): %s; the claim is carried by the by-hand verification (messageDigest = H(content octets), openssl dgst -verify of the signature over the re-tagged attributes)" % (cap["probe"], cap["output"][-200:]))
    if ctype == "data":
        if t.cap("openssl-cms-verify:data")["ok"]:
            okc, gotc, cerr, ccmd = t.cms_verify(blob, content if detached else None)
            s.cmd(ccmd)
            s.tool("openssl cms -verify [data]", okc)
            s.check(okc, label + "-openssl-cms-rejects", "openssl cms -verify fails: " + cerr)
        else:
            c2 = t.cap("openssl-cms-verify:data")
            s.skip("openssl cms -verify, content type data", "capability probe failed (%s): %s" % (c2["probe"], c2["output"][-200:]))
    if timestamp:
        tok = si["unauth"].get(timestamp)
        s.check(bool(tok), label + "-timestamp-missing", "key is configured with timestamp: true but the SignerInfo has no %s attribute (unauthenticated attributes: %s)" % (timestamp, sorted(si["unauth"])))
        if tok:
            check_timestamp(s, si["signature"], tok[0].raw, label)
    else:
        s.check(not si["unauth"], label + "-unexpected-unauth-attributes", "unauthenticated attributes %s without a timestamper" % sorted(si["unauth"]), found=False)
    s.distinct.add((label, digest, keytype, sd["econtent_type"], len(blob) // 64, bool(timestamp)))
    return sd


def check_indirect(s, sd, digest, want_type, expect_digest, what, tool=None):
    """SpcIndirectDataContent: digest algorithm and the digest itself against the reference computation"""
    if sd is None or sd["econtent"] is None:
        return None
    try:
        ind = der.parse_spc_indirect(sd["econtent"])
    except (der.DerError, IndexError) as e:
        s.check(False, "spc-indirect-malformed", "SpcIndirectDataContent does not parse: %s" % e)
        return None
    s.check(ind["digest_alg"] == digest, "spc-digest-algorithm", "SpcIndirectDataContent digest algorithm %s, requested %s" % (ind["digest_alg"], digest))
    if want_type:
        s.check(ind["data_type"] == want_type, "spc-data-type", "SpcAttributeTypeAndOptionalValue type %s, expected %s" % (ind["data_type"], want_type))
    if expect_digest is not None:
        if tool:
            s.tool(tool, ind["digest"] == expect_digest)
        s.check(ind["digest"] == expect_digest, what, "digest in the signature %s != reference computation %s" % (ind["digest"].hex(), expect_digest.hex()),
                embedded=ind["digest"].hex(), reference=expect_digest.hex())
    return ind


# ====================================================================================================== scenarios
def scen_jar(s, recipe, key, digest, flags=(), remote=False, resign_with=None, sigtype=None, ts=False):
    env, t = s.env, s.env.tools
    src, _ = env.input(recipe)
    out = env.outpath(".jar")
    if resign_with:
        mid = env.outpath(".jar")
        rc, txt = s.sign(resign_with, src, mid, sigtype=sigtype, digest="sha256", flags=["--key-alias", "OLDKEY"])
        if rc != 0:
            return s.problem("C05:harness:sign-failed:jar", "first signing failed: " + txt, found=False)
        src = mid
    rc, txt = s.sign(key, src, out, sigtype=sigtype, digest=digest, flags=flags, remote=remote, conf=env.ts_conf if ts else None)
    if rc != 0:
        return s.problem("C05:harness:sign-failed:jar", "relic sign failed on a well-formed JAR: " + txt, found=False)
    # 1. jarsigner
    z = zipfile.ZipFile(out)
    payload = [n for n in z.namelist() if not n.endswith("/") and not re.match(r"(?i)^META-INF/(MANIFEST\.MF|[^/]+\.(SF|RSA|DSA|EC)|SIG-[^/]*)$", n)]
    js = None
    if s.need("jarsigner"):
        js = t.jarsigner(out, lift_sha1_policy=(digest == "sha1"))
        s.cmd(js["cmd"])
        s.tool("jarsigner -verify", js["verified"] and not js["treated_unsigned"])
        s.check(js["verified"] and not js["treated_unsigned"], "jarsigner-rejects", "jarsigner -verify does not report 'jar verified.': " + js["text"][-400:])
        unsigned = [n for n in payload if js["entries"].get(n) != (True, True)]
        if js["verified"]:
            s.check(not unsigned, "jarsigner-unsigned-entries", "jarsigner does not flag %d of %d entries as signed+in manifest, e.g. %r" % (len(unsigned), len(payload), unsigned[:3]))
    # 2. reference re-computation of every digest in MANIFEST.MF and *.SF
    s.cmds.append("cd /verif && python3 -c 'import sys; from vlib import c05_ref as ref; print(ref.jar_check(sys.argv[1], \"%s\")[1])' %s" % (digest, out))
    try:
        facts, probs = ref.jar_check(out, digest)
    except (ref.RefError, KeyError, zipfile.BadZipFile, UnicodeDecodeError) as e:
        s.check(False, "reference-reader-fails", "reference reader cannot process the signed JAR: %r" % e)
        return
    s.evals += 3 + 2 * facts.get("covered", 0)
    s.tool("reference: JAR manifest / .SF digests", not probs)
    for sl, d in probs:
        s.check(False, sl, d)
    s.check(facts.get("covered") == len(payload), "coverage", "reference covered %s entries, zip has %d payload entries" % (facts.get("covered"), len(payload)))
    if "--sections-only" in flags:
        s.check(not facts.get("has_whole_manifest_digest"), "sections-only-ignored", "--sections-only given but a -Digest-Manifest attribute is present", found=False)
    alias = "RELIC"
    if "--key-alias" in flags:
        alias = flags[list(flags).index("--key-alias") + 1].upper()
    want_ext = "RSA" if env.kit.keys[key]["type"] == "rsa" else "EC"
    s.check(facts.get("blocks") == ["META-INF/%s.%s" % (alias, want_ext)] and facts.get("sf") == ["META-INF/%s.SF" % alias], "signature-file-names",
            "signature files %s %s, expected META-INF/%s.SF + .%s only" % (facts.get("sf"), facts.get("blocks"), alias, want_ext))
    if "--apk-v2-present" in flags:
        s.check(b"X-Android-APK-Signed: 2\r\n" in facts["sf_bytes"].split(b"\r\n\r\n")[0] + b"\r\n", "apk-v2-header", "X-Android-APK-Signed header missing from the .SF main section")
    # 3. the PKCS#7 block through OpenSSL
    inline = "--inline-signature" in flags
    sd = check_p7(s, facts["block_bytes"], digest, key, content=facts["sf_bytes"], want_ctype="data", label="block", timestamp="timeStampToken" if ts else None)
    if ts and js is not None:
        s.check(js["timestamped"], "jarsigner-ignores-timestamp", "jarsigner does not report a timestamp for the entries", found=False)
    if sd is not None:
        s.check((sd["econtent"] is not None) == inline, "block-detachedness", "signature block %s the .SF although --inline-signature was %s" % ("embeds" if sd["econtent"] is not None else "does not embed", inline), found=False)
        if sd["econtent"] is not None:
            s.check(sd["econtent_octets"] == facts["sf_bytes"], "block-embedded-sf", "the .SF embedded in the block differs from META-INF/*.SF")
    s.distinct.add(("jar", recipe, digest, env.kit.keys[key]["type"], tuple(flags), remote))
    s.facts.update(entries=len(payload), algs=facts.get("algs"))


def pe_common(s, out_bytes, digest, key, page_hashes, ts=False, path=None):
    if path:
        s.refcmd('ref.pe_image_hash(d, "%s").hex(), hex(ref.pe_checksum(d))%s' % (digest, ', ref.pe_page_hashes(d, "%s").hex()' % digest if page_hashes else ""), path)
    probs_t, probs = ref.pe_cert_table(out_bytes)
    for sl, d in probs:
        s.check(False, sl, d)
    s.evals += 5
    if not probs_t:
        return
    s.check(len(probs_t) == 1 and probs_t[0][0] == 0x0200 and probs_t[0][1] == 0x0002, "wincert-header",
            "expected one WIN_CERTIFICATE revision 0x0200 type PKCS_SIGNED_DATA, got %s" % [(hex(a), hex(b)) for a, b, _ in probs_t])
    blob = probs_t[0][2]
    sd = check_p7(s, blob, digest, key, want_ctype="spcIndirectData", padded=True, timestamp="msTimeStampToken" if ts else None)
    want = ref.pe_image_hash(out_bytes, digest)
    ind = check_indirect(s, sd, digest, "spcPeImageData", want, "image-hash-mismatch", tool="reference: Authenticode PE image hash")
    L = ref.pe_layout(out_bytes)
    got_ck = struct.unpack_from("<I", out_bytes, L["cksum_off"])[0]
    want_ck = ref.pe_checksum(out_bytes)
    s.tool("reference: PE checksum", got_ck == want_ck)
    s.check(got_ck == want_ck, "checksum-mismatch", "CheckSum field %#010x != reference PE checksum %#010x" % (got_ck, want_ck), embedded=got_ck, reference=want_ck)
    if ind is not None:
        if page_hashes:
            wantph = ref.pe_page_hashes(out_bytes, digest)
            s.check(ind["page_hashes"] is not None, "page-hashes-missing", "--page-hashes given but the signature carries no page hash attribute")
            if ind["page_hashes"] is not None:
                s.check(ind["page_hash_type"] == {"sha1": "spcPageHashV1", "sha256": "spcPageHashV2"}[digest], "page-hash-oid", "page hash attribute type %s for %s" % (ind["page_hash_type"], digest))
                hl = hashlib.new(digest).digest_size + 4
                s.tool("reference: Authenticode page hashes", ind["page_hashes"] == wantph)
                s.check(ind["page_hashes"] == wantph, "page-hashes-mismatch",
                        "page hash table differs from the reference: %d vs %d entries, first difference at entry %s" %
                        (len(ind["page_hashes"]) // hl, len(wantph) // hl, next((i for i in range(min(len(wantph), len(ind["page_hashes"])) // hl) if ind["page_hashes"][i * hl:(i + 1) * hl] != wantph[i * hl:(i + 1) * hl]), "end")))
                s.evals += len(wantph) // hl
        else:
            s.check(ind["page_hashes"] is None, "page-hashes-unrequested", "page hashes present although not requested", found=False)
    return sd


def scen_pe(s, recipe, key, digest, flags=(), remote=False, resign=False, ts=False):
    env = s.env
    src, _ = env.input(recipe)
    out = env.outpath(".exe")
    rc, txt = s.sign(key, src, out, sigtype="pe-coff", digest=digest, flags=flags, remote=remote, conf=env.ts_conf if ts else None)
    if rc != 0:
        try:
            L0 = ref.pe_layout(open(src, "rb").read())
            big_hdr = L0["size_of_headers"] > ref.pe_page_size(L0["machine"])
        except (ref.RefError, struct.error, KeyError):
            L0, big_hdr = None, False
        if big_hdr and "--page-hashes" in flags and not remote and "panic" in txt and "addPageHash" in txt:
            # the specification side is defined for this case (signtool /ph, osslsigncode: headers of a page or more are hashed without padding)
            s.evals += 1
            return s.problem("C05:spec:pe:page-hashes-panic-headers-exceed-page",
                             "relic sign --page-hashes crashes (slice bounds out of range in authenticode.addPageHash: needzero = pageSize - SizeOfHeaders < 0) on a well-formed image whose "
                             "SizeOfHeaders %#x exceeds the %d-byte page (%d sections, FileAlignment %#x; without --page-hashes the same image is signed and its image hash agrees with the reference); relic says: %s" %
                             (L0["size_of_headers"], ref.pe_page_size(L0["machine"]), len(L0["sections"]), L0["file_align"], txt[:200].replace("\n", " | ")))
        return s.problem("C05:harness:sign-failed:pe", "relic sign failed on a well-formed PE image: " + txt, found=False)
    if resign:
        out2 = env.outpath(".exe")
        rc, txt = s.sign(key, out, out2, sigtype="pe-coff", digest=digest, flags=flags, remote=remote, conf=env.ts_conf if ts else None)
        if rc != 0:
            return s.problem("C05:harness:sign-failed:pe", "re-signing failed: " + txt, found=False)
        out = out2
    d = open(out, "rb").read()
    orig = open(src, "rb").read()
    # independent view of what signing may change: checksum, directory entry 4, appended table
    L = ref.pe_layout(orig)
    if L["cert_size"] == 0:
        body_same = d[:L["cksum_off"]] == orig[:L["cksum_off"]] and d[L["cksum_off"] + 4:L["dd4_off"]] == orig[L["cksum_off"] + 4:L["dd4_off"]] and \
            d[L["dd4_off"] + 8:len(orig)] == orig[L["dd4_off"] + 8:]
        s.check(body_same, "image-bytes-changed", "bytes other than CheckSum / certificate-table entry / appended table differ from the input")
    pe_common(s, d, digest, key, "--page-hashes" in flags, ts, path=out)
    s.distinct.add(("pe", recipe, digest, env.kit.keys[key]["type"], tuple(flags), remote, resign))


def scen_cab(s, recipe, key, digest, remote=False, resign=False, ts=False):
    env = s.env
    src, _ = env.input(recipe)
    out = env.outpath(".cab")
    rc, txt = s.sign(key, src, out, sigtype="cab", digest=digest, remote=remote, conf=env.ts_conf if ts else None)
    if rc != 0:
        return s.problem("C05:harness:sign-failed:cab", "relic sign failed on a well-formed cabinet: " + txt, found=False)
    if resign:
        out2 = env.outpath(".cab")
        rc, txt = s.sign(key, out, out2, sigtype="cab", digest=digest, remote=remote)
        if rc != 0:
            return s.problem("C05:harness:sign-failed:cab", "re-signing failed: " + txt, found=False)
        out = out2
    d, orig = open(out, "rb").read(), open(src, "rb").read()
    try:
        blob, probs = ref.cab_signature(d)
        for sl, dd in probs:
            s.check(False, sl, dd)
        s.evals += 4
        s.tool("reference: CAB reader (signature header, offsets)", not probs)
        pay_o, pay_s = ref.cab_payload(orig), ref.cab_payload(d)
        s.check(pay_o == pay_s, "payload-changed", "files / verified data blocks read by the reference CAB reader differ between input and signed output")
        c = ref.cab_parse(d)
        co = ref.cab_parse(orig)
        s.check((c["setID"], c["iCabinet"], c["nfiles"], c["nfolders"], c["reserved"][1:]) == (co["setID"], co["iCabinet"], co["nfiles"], co["nfolders"], co["reserved"][1:]), "header-fields-changed",
                "setID/iCabinet/counts/reserved fields changed by signing")
        want = ref.cab_digest(d, digest)
        s.refcmd('ref.cab_digest(d, "%s").hex()' % digest, out)
    except (ref.RefError, struct.error, ValueError, IndexError) as e:
        s.check(False, "reference-reader-fails", "reference CAB reader cannot process the signed cabinet: %r" % e)
        return
    if blob is None:
        return
    sd = check_p7(s, blob, digest, key, want_ctype="spcIndirectData", padded=True, timestamp="msTimeStampToken" if ts else None)
    check_indirect(s, sd, digest, "spcCabImageData", want, "cab-digest-mismatch", tool="reference: CAB header/content digest")
    s.distinct.add(("cab", recipe, digest, env.kit.keys[key]["type"], remote, resign))


def scen_msi(s, recipe, key, digest, flags=(), remote=False, resign=False, ts=False):
    env = s.env
    src, _ = env.input(recipe)
    out = env.outpath(".msi")
    rc, txt = s.sign(key, src, out, sigtype="msi", digest=digest, flags=flags, remote=remote, conf=env.ts_conf if ts else None)
    if rc != 0:
        return s.problem("C05:harness:sign-failed:msi", "relic sign failed on a well-formed compound file: " + txt, found=False)
    if resign:
        out2 = env.outpath(".msi")
        rc, txt = s.sign(key, out, out2, sigtype="msi", digest=digest, flags=flags, remote=remote)
        if rc != 0:
            return s.problem("C05:harness:sign-failed:msi", "re-signing failed: " + txt, found=False)
        out = out2
    try:
        s.refcmd('(lambda c: (ref.msi_prehash(c, "%s").hex(), ref.msi_digest(c, "%s", %s).hex()))(ref.CFB(d))' % (digest, digest, 'ref.msi_prehash(ref.CFB(d), "%s")' % digest if "--no-extended-sig" not in flags else "None"), out)
        cfb = ref.CFB(open(out, "rb").read())
        cfo = ref.CFB(open(src, "rb").read())
        root = cfb.entries[0]
        kids = {c["name"]: c for c in cfb.children(root)}
        s.check(ref.MSI_SIG in kids, "no-signature-stream", "no \\5DigitalSignature stream in the root storage")
        if ref.MSI_SIG not in kids:
            return
        blob = cfb.stream(kids[ref.MSI_SIG])
        extended = "--no-extended-sig" not in flags
        s.check((ref.MSI_SIGEX in kids) == extended, "extended-stream-presence", "\\5MsiDigitalSignatureEx %s although --no-extended-sig was %s" % ("present" if ref.MSI_SIGEX in kids else "absent", not extended))
        pre = None
        if ref.MSI_SIGEX in kids:
            pre = ref.msi_prehash(cfb, digest)
            got = cfb.stream(kids[ref.MSI_SIGEX])
            s.tool("reference: MsiDigitalSignatureEx pre-hash", got == pre)
            s.check(got == pre, "prehash-mismatch", "MsiDigitalSignatureEx %s != reference pre-hash %s" % (got.hex(), pre.hex()), embedded=got.hex(), reference=pre.hex())
        want = ref.msi_digest(cfb, digest, pre)
        s.check(ref.msi_payload(cfb) == ref.msi_payload(cfo), "payload-changed", "streams/storages read by the reference CFB reader differ between input and signed output")
        s.evals += len(cfb.entries)
    except (ref.RefError, struct.error, IndexError, KeyError) as e:
        s.check(False, "reference-reader-fails", "reference CFB reader cannot process the signed file: %r" % e)
        return
    sd = check_p7(s, blob, digest, key, want_ctype="spcIndirectData", timestamp="msTimeStampToken" if ts else None)
    check_indirect(s, sd, digest, "spcSipInfo", want, "msi-digest-mismatch", tool="reference: MSI stream-order digest")
    s.distinct.add(("msi", recipe, digest, env.kit.keys[key]["type"], tuple(flags), remote, resign))


def scen_apk(s, recipe, key, digest, remote=False, v1_first=False):
    env, t = s.env, s.env.tools
    src, _ = env.input(recipe)
    if v1_first:
        mid = env.outpath(".apk")
        rc, txt = s.sign(key, src, mid, sigtype="jar", digest="sha256", flags=["--apk-v2-present"])
        if rc != 0:
            return s.problem("C05:harness:sign-failed:apk", "v1 (JAR) signing failed: " + txt, found=False)
        src = mid
    out = env.outpath(".apk")
    rc, txt = s.sign(key, src, out, sigtype="apk", digest=digest, remote=remote)
    if rc != 0:
        return s.problem("C05:harness:sign-failed:apk", "relic sign failed on a well-formed APK: " + txt, found=False)
    d = open(out, "rb").read()
    try:
        bad = zipfile.ZipFile(io.BytesIO(d)).testzip()
        s.check(bad is None, "zip-crc", "python zipfile reports a CRC error in %s after signing" % bad)
        info = ref.apk_v2_parse(d)
    except (ref.RefError, struct.error, zipfile.BadZipFile) as e:
        s.check(False, "v2-block-malformed", "reference APK Signing Block parser rejects the output: %s" % e)
        return
    keytype = env.kit.keys[key]["type"]
    want_id = {("rsa", "sha256"): 0x0103, ("rsa", "sha512"): 0x0104, ("ecdsa", "sha256"): 0x0201, ("ecdsa", "sha512"): 0x0202}[(keytype, digest)]
    s.check(len(info["signers"]) == 1, "v2-signer-count", "%d signers" % len(info["signers"]))
    sg = info["signers"][0]
    s.check([i for i, _ in sg["digests"]] == [want_id] and [i for i, _ in sg["signatures"]] == [want_id], "v2-algorithm-ids",
            "digest ids %s, signature ids %s, expected [%#x]" % ([hex(i) for i, _ in sg["digests"]], [hex(i) for i, _ in sg["signatures"]], want_id))
    want = ref.apk_v2_digest(d, digest, info)
    s.refcmd('ref.apk_v2_digest(d, "%s", ref.apk_v2_parse(d)).hex()' % digest, out)
    got = sg["digests"][0][1] if sg["digests"] else b""
    s.tool("reference: APK v2 chunked digest", got == want)
    s.check(got == want, "v2-digest-mismatch", "v2 digest in the signature %s != reference chunked digest %s (contents %d bytes, CD %d bytes)" %
            (got.hex(), want.hex(), info["block_off"], info["eocd"]["cd_size"]), embedded=got.hex(), reference=want.hex())
    s.check(bool(sg["certs"]), "v2-no-certificate", "no certificate in signed data")
    if sg["certs"]:
        try:
            spki = der.spki_of_cert(sg["certs"][0])["spki"]
        except (der.DerError, IndexError) as e:
            spki = None
            s.check(False, "v2-certificate-malformed", "first certificate does not parse: %s" % e)
        if spki:
            s.check(spki == sg["pubkey"], "v2-public-key-mismatch", "public key field differs from the SubjectPublicKeyInfo of the first certificate")
            for sid, sv in sg["signatures"]:
                alg = ref.APK_SIG_ALGS.get(sid)
                if alg and s.need("openssl"):
                    okv, verr, vcmd = t.sig_verify(spki, alg[1], sv, sg["signed_data"], pss=alg[0] == "rsa-pss")
                    s.cmd(vcmd)
                    s.tool("openssl dgst -verify", okv)
                    s.check(okv, "v2-signature-invalid", "openssl dgst -verify rejects the v2 signature over signed-data: " + verr)
    if v1_first and s.need("jarsigner"):
        js = t.jarsigner(out)
        s.cmd(js["cmd"])
        s.tool("jarsigner -verify", js["verified"])
        s.check(js["verified"], "v1-broken-by-v2", "jarsigner rejects the v1 signature after the v2 block was added: " + js["text"][-300:])
        sf = [n for n in zipfile.ZipFile(out).namelist() if n.endswith(".SF")]
        s.check(bool(sf) and b"X-Android-APK-Signed: 2" in zipfile.ZipFile(out).read(sf[0]), "v1-apk-signed-header", "X-Android-APK-Signed: 2 missing in the v1 signature file")
    s.distinct.add(("apk", recipe, digest, keytype, remote, v1_first, info["block_off"] % (1 << 20)))


def scen_pgp(s, recipe, digest, mode):
    """mode: detached | armor | textmode | textmode-armor | inline | inline-armor | clearsign"""
    env, t = s.env, s.env.tools
    src, _ = env.input(recipe)
    flags = {"detached": [], "armor": ["--armor"], "textmode": ["--textmode"], "textmode-armor": ["--textmode", "--armor"],
             "inline": ["--inline"], "inline-armor": ["--inline", "--armor"], "clearsign": ["--clearsign"]}[mode]
    out = env.outpath(".sig")
    rc, txt = s.sign("rsa2048", src, out, sigtype="pgp", digest=digest, flags=flags)
    if rc != 0:
        return s.problem("C05:harness:sign-failed:pgp", "relic sign -T pgp failed: " + txt, found=False)
    if not s.need("gpgv", "gpg"):
        return
    kr = t.keyring(env.kit.keys["rsa2048"]["pgp"])
    orig = open(src, "rb").read()
    if mode in ("detached", "armor", "textmode", "textmode-armor"):
        good, info, text, cmd = t.gpgv(kr, out, src)
        s.cmd(cmd)
        s.tool("gpgv", good)
        s.check(good, "gpgv-rejects-" + mode, "gpgv does not report a good signature: " + text[-300:])
        if good:
            s.check(info.get("sig_class") == ("01" if "textmode" in mode else "00"), "sig-class", "signature class %s for mode %s" % (info.get("sig_class"), mode))
    else:
        content = env.outpath(".content")
        good, info, text, cmd = t.gpgv(kr, out, None, output=content)
        s.cmd(cmd)
        s.tool("gpgv", good)
        s.check(good, "gpgv-rejects-" + mode, "gpgv does not report a good signature: " + text[-300:])
        got = open(content, "rb").read() if os.path.exists(content) else None
        if good and got is not None:
            if mode == "clearsign":
                # cleartext framework: line endings and trailing whitespace are not significant (RFC 4880 7.1)
                norm = lambda b: [l.rstrip(b" \t\r") for l in b.replace(b"\r\n", b"\n").split(b"\n")]
                a, b = norm(got), norm(orig)
                while a and a[-1] == b"":
                    a.pop()
                while b and b[-1] == b"":
                    b.pop()
                s.check(a == b, "clearsign-text-changed", "text recovered by gpgv differs from the input beyond line-ending / trailing-blank canonicalisation")
            else:
                s.check(got == orig, "inline-content-changed", "literal data recovered by gpgv differs from the input")
    if good:
        s.check(info.get("hash_algo") == PGP_HASH_IDS[digest], "hash-algorithm", "gpgv reports hash algorithm %s, requested %s (%d)" % (info.get("hash_algo"), digest, PGP_HASH_IDS[digest]))
    s.distinct.add(("pgp", recipe, digest, mode))


def ar_members(d):
    if d[:8] != b"!<arch>\n":
        raise ref.RefError("not an ar archive")
    out, p = [], 8
    while p + 60 <= len(d):
        hdr = d[p:p + 60]
        if hdr[58:60] != b"`\n":
            raise ref.RefError("bad ar member header at %d" % p)
        name = hdr[:16].decode("latin1").rstrip(" ")
        size = int(hdr[48:58].decode().strip())
        out.append((name.rstrip("/"), d[p + 60:p + 60 + size]))
        p += 60 + size + (size & 1)
    if p != len(d):
        raise ref.RefError("trailing bytes after last ar member")
    return out


def scen_deb(s, recipe, digest, role=None):
    env, t = s.env, s.env.tools
    src, _ = env.input(recipe)
    out = env.outpath(".deb")
    flags = ["--role", role] if role else []
    rc, txt = s.sign("rsa2048", src, out, sigtype="deb", digest=digest, flags=flags)
    if rc != 0:
        return s.problem("C05:harness:sign-failed:deb", "relic sign failed: " + txt, found=False)
    role = role or "builder"
    d = open(out, "rb").read()
    try:
        mem = ar_members(d)
        mo = ar_members(open(src, "rb").read())
    except (ref.RefError, ValueError) as e:
        s.check(False, "ar-malformed", "reference ar reader rejects the output: %s" % e)
        return
    names = [n for n, _ in mem]
    s.check(names[-1:] == ["_gpg" + role] and mem[:-1] == [m for m in mo if not m[0].startswith("_gpg" + role)], "members",
            "members after signing %s (input %s): expected the input members unchanged followed by _gpg%s" % (names, [n for n, _ in mo], role))
    if s.need("dpkg-deb"):
        rc2, o2, e2 = trun(["dpkg-deb", "-I", out])
        s.cmd(["dpkg-deb", "-I", out])
        s.tool("dpkg-deb -I", rc2 == 0)
        s.check(rc2 == 0, "dpkg-deb-rejects", "dpkg-deb -I fails on the signed package: " + e2[-200:])
        rc2, o2, e2 = trun(["dpkg-deb", "--fsys-tarfile", out])
        s.cmd(["dpkg-deb", "--fsys-tarfile", out, ">/dev/null"])
        s.tool("dpkg-deb --fsys-tarfile", rc2 == 0)
        s.check(rc2 == 0 and len(o2) > 0, "dpkg-deb-rejects-data", "dpkg-deb --fsys-tarfile cannot read the data member of the signed package: " + e2[-200:])
    if s.need("ar"):
        rc3, o3, e3 = trun(["ar", "t", out])
        s.cmd(["ar", "t", out])
        s.tool("ar t", rc3 == 0 and o3.decode().split() == names)
        s.check(rc3 == 0 and o3.decode().split() == names, "ar-listing", "ar t lists %s, reference reader %s" % (o3.decode().split(), names))
    sigm = dict(mem).get("_gpg" + role)
    if sigm is None or not s.need("gpgv", "gpg"):
        return
    sp = env.outpath(".asc")
    open(sp, "wb").write(sigm)
    content = env.outpath(".txt")
    good, info, text, cmd = t.gpgv(t.keyring(env.kit.keys["rsa2048"]["pgp"]), sp, None, output=content)
    s.cmd(cmd)
    s.tool("gpgv", good)
    s.check(good, "gpgv-rejects", "gpgv does not accept the _gpg%s member: %s" % (role, text[-300:]))
    if not good:
        return
    s.check(info.get("hash_algo") == PGP_HASH_IDS[digest], "hash-algorithm", "gpgv reports hash algorithm %s, requested %s" % (info.get("hash_algo"), digest))
    body = open(content, "rb").read().decode("utf-8", "replace").replace("\r\n", "\n")
    fields = dict(re.findall(r"^(\w+): ?(.*)$", body, flags=re.M))
    s.check(fields.get("Version") == "4" and fields.get("Role") == role and "Signer" in fields and "Date" in fields, "control-fields", "signed control text lacks Version 4/Signer/Date/Role %s: %r" % (role, fields))
    listed = re.findall(r"^\t([0-9a-f]{32}) ([0-9a-f]{40}) (\d+) (\S+)$", body, flags=re.M)
    want = [(hashlib.md5(c).hexdigest(), hashlib.sha1(c).hexdigest(), str(len(c)), n) for n, c in mem[:-1]]
    s.check(listed == want, "file-list-mismatch", "Files: list in the signed text %s != md5/sha1/size of the members that precede the signature %s" % (listed, want))
    s.distinct.add(("deb", recipe, digest, role))


def rpm_headers(d):
    if d[:4] != b"\xed\xab\xee\xdb":
        raise ref.RefError("no RPM lead")

    def hdr(p):
        if d[p:p + 3] != b"\x8e\xad\xe8":
            raise ref.RefError("no header magic at %d" % p)
        nidx, hsize = struct.unpack_from(">II", d, p + 8)
        store = p + 16 + 16 * nidx
        tags = {}
        for i in range(nidx):
            tag, typ, off, cnt = struct.unpack_from(">IIII", d, p + 16 + 16 * i)
            tags[tag] = (typ, store + off, cnt)
        return tags, store + hsize

    sig, end = hdr(96)
    main_off = (end + 7) & ~7
    _, main_end = hdr(main_off)
    return sig, main_off, main_end


def scen_rpm(s, recipe, digest):
    env, t = s.env, s.env.tools
    src, _ = env.input(recipe)
    out = env.outpath(".rpm")
    rc, txt = s.sign("rsa2048", src, out, sigtype="rpm", digest=digest)
    if rc != 0:
        return s.problem("C05:harness:sign-failed:rpm", "relic sign failed: " + txt, found=False)
    d, orig = open(out, "rb").read(), open(src, "rb").read()
    try:
        sig, main_off, main_end = rpm_headers(d)
        _, omain_off, omain_end = rpm_headers(orig)
    except (ref.RefError, struct.error) as e:
        s.check(False, "rpm-malformed", "reference RPM reader rejects the output: %s" % e)
        return
    s.check(d[main_off:] == orig[omain_off:], "payload-changed", "main header + payload differ from the input")
    header, rest = d[main_off:main_end], d[main_off:]

    def blob(tag):
        typ, off, cnt = sig[tag]
        return d[off:off + cnt]
    have_gpgv = s.need("gpgv", "gpg")
    kr = t.keyring(env.kit.keys["rsa2048"]["pgp"]) if have_gpgv else None
    s.check(268 in sig and 1002 in sig, "signature-tags", "signature header lacks RSAHEADER (268) and/or PGP (1002): tags %s" % sorted(sig))
    for tag, data, what in ((268, header, "header-only"), (1002, rest, "header+payload")):
        if tag not in sig or not have_gpgv:
            continue
        sp, dp = env.outpath(".pgpsig"), env.outpath(".data")
        open(sp, "wb").write(blob(tag))
        open(dp, "wb").write(data)
        good, info, text, cmd = t.gpgv(kr, sp, dp)
        s.cmd(cmd)
        s.tool("gpgv", good)
        s.check(good, "gpgv-rejects-%s" % what, "gpgv rejects the %s signature (tag %d): %s" % (what, tag, text[-300:]))
        if good:
            s.check(info.get("hash_algo") == PGP_HASH_IDS[digest], "hash-algorithm", "gpgv reports hash algorithm %s, requested %s" % (info.get("hash_algo"), digest))
    if 269 in sig:
        typ, off, cnt = sig[269]
        v = d[off:d.index(b"\0", off)].decode()
        s.check(v == hashlib.sha1(header).hexdigest(), "sha1header-mismatch", "SHA1HEADER %s != sha1 of the main header" % v)
    if 273 in sig:
        typ, off, cnt = sig[273]
        v = d[off:d.index(b"\0", off)].decode()
        s.check(v == hashlib.sha256(header).hexdigest(), "sha256header-mismatch", "SHA256HEADER %s != sha256 of the main header" % v)
    if 1004 in sig:
        s.check(blob(1004) == hashlib.md5(rest).digest(), "md5-mismatch", "MD5 tag != md5 of header+payload")
    if 1000 in sig:
        s.check(struct.unpack_from(">I", d, sig[1000][1])[0] == len(rest), "size-tag-mismatch", "SIZE tag != length of header+payload")
    s.distinct.add(("rpm", recipe, digest))


DSIG_NS = "http://www.w3.org/2000/09/xmldsig#"
EC_KEYVALUE_STD = ("{http://www.w3.org/2009/xmldsig11#}ECKeyValue", "{http://www.w3.org/2001/04/xmldsig-more#}ECDSAKeyValue")


def xml_ec_keyvalue_check(s, path):
    """XML-DSig: ds:KeyValue holds DSAKeyValue / RSAKeyValue or an element from ANOTHER namespace (xmldsig-core schema: <any namespace="##other">);
    EC keys are dsig11:ECKeyValue (xmldsig-core1 4.5.2.3) or RFC 4050's ECDSAKeyValue in http://www.w3.org/2001/04/xmldsig-more#.
    returns True when every KeyValue of the document is one an outside implementation can read"""
    import xml.etree.ElementTree as ET
    try:
        root = ET.parse(path).getroot()
    except ET.ParseError:
        return True         # well-formedness is reported separately
    bad = []
    for kv in root.iter("{%s}KeyValue" % DSIG_NS):
        for c in kv:
            if c.tag in ("{%s}RSAKeyValue" % DSIG_NS, "{%s}DSAKeyValue" % DSIG_NS) or c.tag in EC_KEYVALUE_STD:
                continue
            if c.tag.startswith("{%s}" % DSIG_NS):
                bad.append(c.tag)
    s.check(not bad, "ecdsa-keyvalue-nonstandard-element",
            "KeyValue holds %s: an element of that name in the XML-DSig namespace is defined by no specification (XML-DSig 1.1 defines dsig11:ECKeyValue, RFC 4050 defines ECDSAKeyValue in "
            "http://www.w3.org/2001/04/xmldsig-more#; the xmldsig-core schema admits only other-namespace elements there): an outside validator cannot read the key (JDK: 'can't convert KeyValue to PublicKey'), so a signature whose "
            "KeyInfo has no certificate - the StrongNameSignature of a ClickOnce manifest - cannot be validated by it at all" % sorted(set(bad)))
    return not bad


def xml_ecdsa_verdicts(s, r, key, sid, std, kv_ok):
    """ECDSA part shared by the XML-DSig carriers: fixed-width SignatureValue and the stock JDK validator's verdict"""
    short = bool(r.get("ec_field_bytes")) and r.get("sigvalue_len") != 2 * r["ec_field_bytes"]
    if r.get("ec_field_bytes"):
        s.check(not short, "ecdsa-sigvalue-not-fixed-width:" + key,
                "%s: SignatureValue is %s bytes, XML-DSig (xmldsig-core1 6.4.3 / RFC 4050 3.3) prescribes r||s with both integers padded to the curve's %d bytes "
                "(lib/x509tools EcdsaSignature.Pack sizes both by the larger integer's bit length)%s" %
                (sid, r.get("sigvalue_len"), r["ec_field_bytes"], "" if not std else "; the JDK validator, which splits any even-length value in half, %s" % ("accepts it" if r.get("full_ok") is True else "says: %s" % r.get("full_error"))))
    if std:
        s.tool("JDK XMLSignature.validate", r.get("full_ok") is True)
        if r.get("full_ok") is not True:
            if not kv_ok and "no key the JDK can read" in (r.get("full_error") or ""):
                s.notes.append("%s (%s): the stock JDK validator finds no readable key: consequence of the non-standard ECDSAKeyValue element (reported under ecdsa-keyvalue-nonstandard-element)" % (sid, s.fmt))
            elif short:
                s.notes.append("%s (%s): the stock JDK validator rejects the short ECDSA SignatureValue (reported under ecdsa-sigvalue-not-fixed-width)" % (sid, s.fmt))
            else:
                s.check(False, "jdk-validator-rejects-ecdsa-" + (sid.lower() or "signature"), "%s: XMLSignature.validate of the JDK fails: %s" % (sid, r.get("full_error")))
        else:
            s.evals += 1


def scen_manifest(s, recipe, key, digest, remote=False, ts=False):
    env, t = s.env, s.env.tools
    src, _ = env.input(recipe)
    out = env.outpath(".manifest")
    rc, txt = s.sign(key, src, out, sigtype="appmanifest", digest=digest, remote=remote, conf=env.ts_conf if ts else None)
    if rc != 0:
        return s.problem("C05:harness:sign-failed:appmanifest", "relic sign failed: " + txt, found=False)
    okx, ex, xcmds = t.xml_wellformed(out)
    for c in xcmds:
        s.cmd(c)
    s.tool("XML parser (expat%s)" % ("+xmllint" if t.available.get("xmllint") else ""), okx)
    s.check(okx, "xml-not-well-formed", "signed manifest is not well-formed XML: " + ex[-200:])
    if not t.cap("jdk-xmldsig")["ok"]:
        c = t.cap("jdk-xmldsig")
        s.skip("JDK XML-Signature validation (appmanifest)", "capability probe failed (%s): %s" % (c["probe"], c["output"][-200:]))
        return
    res, cmd = t.xmldsig([out])
    s.cmd(cmd)
    keytype = env.kit.keys[key]["type"]
    kv_ok = xml_ec_keyvalue_check(s, out)
    s.check(len(res) == 2 and [r.get("id") for r in res] == ["StrongNameSignature", "AuthenticodeSignature"], "signature-elements", "expected StrongNameSignature + AuthenticodeSignature, validator saw %s" % [r.get("id") or r.get("error") for r in res])
    for r in res:
        sid = r.get("id") or "?"
        if "comp_error" in r or "error" in r:
            s.check(False, "jdk-validator-error", "%s: %s" % (sid, r.get("comp_error") or r.get("error")), found=False)
            continue
        s.tool("JDK c14n + MessageDigest + Signature (step by step)", r.get("comp_digest_ok") is True and r.get("comp_sig_ok") is True)
        s.check(r.get("comp_digest_ok") is True, "jdk-reference-digest-mismatch", "%s: DigestValue != %s of the JDK's exclusive canonical form of the enveloped document" % (sid, r.get("digestmethod")))
        s.check(r.get("comp_sig_ok") is True, "jdk-signature-invalid", "%s: java.security.Signature %s rejects SignatureValue over the JDK-canonical SignedInfo %s" % (sid, r.get("comp_sigalg"), r.get("comp_sig_error", "")))
        std = r.get("digestmethod") in ("http://www.w3.org/2000/09/xmldsig#sha1", "http://www.w3.org/2001/04/xmlenc#sha256", "http://www.w3.org/2001/04/xmlenc#sha512",
                                        "http://www.w3.org/2001/04/xmldsig-more#sha384", "http://www.w3.org/2001/04/xmldsig-more#sha224") and \
            (r.get("sigmethod") == "http://www.w3.org/2000/09/xmldsig#rsa-sha1" or "xmldsig-more#" in (r.get("sigmethod") or ""))
        if not std:
            s.notes.append("%s uses the Microsoft ClickOnce algorithm URIs (%s, %s): stock JDK validator not applicable, step-by-step JDK validation used" % (sid, r.get("sigmethod"), r.get("digestmethod")))
        # when every algorithm identifier is a registered W3C/RFC 6931 one the stock JDK validator has to accept the signature as it stands
        if keytype == "rsa":
            if std:
                s.tool("JDK XMLSignature.validate", r.get("full_ok") is True)
                s.check(r.get("full_ok") is True, "jdk-validator-rejects", "%s: XMLSignature.validate of the JDK fails: %s" % (sid, r.get("full_error")))
        else:
            xml_ecdsa_verdicts(s, r, key, sid, std, kv_ok)
    if ts:
        doc = open(out, "rb").read()
        m = re.search(rb"<as:Timestamp[^>]*>([^<]+)</as:Timestamp>", doc)
        svs = re.findall(rb"<SignatureValue>([^<]+)</SignatureValue>", doc)
        s.check(m is not None and len(svs) == 2, "timestamp-missing", "no as:Timestamp element in the license signature although the key asks for a timestamp")
        if m is not None and len(svs) == 2:
            sigval = base64.b64decode(svs[1])
            if keytype == "ecdsa":
                s.notes.append("ECDSA manifest timestamp: imprint is taken over relic's internal form of the signature value")
            else:
                check_timestamp(s, sigval, base64.b64decode(m.group(1)), "license")
    s.distinct.add(("appmanifest", recipe, digest, key, remote, ts))


def ps_reference_digest(d, style, alg):
    start, end = {"hash": ("# ", ""), "xml": ("<!-- ", " -->"), "c": ("/* ", " */")}[style]
    utf16 = d[:2] == b"\xff\xfe"
    enc = (lambda x: x.encode("utf-16-le")) if utf16 else (lambda x: x.encode())
    marker = enc("\r\n" + start + "SIG # Begin signature block" + end + "\r\n")
    i = d.rfind(marker)
    if i < 0:
        raise ref.RefError("no signature block")
    text = d[:i]
    lines = d[i + len(marker):].decode("utf-16-le" if utf16 else "utf-8").split("\r\n")
    b64 = ""
    for ln in lines:
        if not ln:
            continue
        if not (ln.startswith(start) and ln.endswith(end)):
            raise ref.RefError("malformed signature block line %r" % ln[:30])
        body = ln[len(start):len(ln) - len(end)]
        if body == "SIG # End signature block":
            break
        b64 += body
    pre = text if utf16 else text.decode("utf-8").encode("utf-16-le")
    return hashlib.new(alg, pre).digest(), base64.b64decode(b64), text


def scen_ps(s, recipe, key, digest, remote=False, ts=False):
    env = s.env
    src, _ = env.input(recipe)
    ext = os.path.splitext(src)[1]
    out = env.outpath(ext)
    rc, txt = s.sign(key, src, out, sigtype="ps", digest=digest, remote=remote, conf=env.ts_conf if ts else None)
    if rc != 0:
        return s.problem("C05:harness:sign-failed:ps", "relic sign failed: " + txt, found=False)
    d, orig = open(out, "rb").read(), open(src, "rb").read()
    style = {".ps1": "hash", ".psm1": "hash", ".psd1": "hash", ".ps1xml": "xml", ".mof": "c"}[ext]
    try:
        want, blob, text = ps_reference_digest(d, style, digest)
    except (ref.RefError, ValueError, UnicodeDecodeError) as e:
        s.check(False, "signature-block-malformed", "reference reader cannot find/parse the signature block: %s" % e)
        return
    s.check(text == orig, "text-changed", "script text before the signature block differs from the input")
    sd = check_p7(s, blob, digest, key, want_ctype="spcIndirectData", timestamp="msTimeStampToken" if ts else None)
    check_indirect(s, sd, digest, "spcSipInfo", want, "script-digest-mismatch", tool="reference: PowerShell script digest")
    s.distinct.add(("ps", recipe, digest, key, remote))


def scen_cat(s, recipe, key, digest, remote=False, ts=False):
    env = s.env
    src, _ = env.input(recipe)
    out = env.outpath(".cat")
    rc, txt = s.sign(key, src, out, sigtype="cat", digest=digest, remote=remote, conf=env.ts_conf if ts else None)
    if rc != 0:
        return s.problem("C05:harness:sign-failed:cat", "relic sign failed: " + txt, found=False)
    blob = open(out, "rb").read()
    sd = check_p7(s, blob, digest, key, want_ctype="ctl", timestamp="msTimeStampToken" if ts else None)
    try:
        so = der.parse_signed_data(open(src, "rb").read(), exact=False)
        if sd is not None:
            s.check(sd["econtent"].raw == so["econtent"].raw, "ctl-changed", "the certificate trust list inside the signed catalog differs from the input's")
    except (der.DerError, IndexError) as e:
        s.notes.append("input catalog not parsed: %s" % e)
    s.distinct.add(("cat", recipe, digest, key, remote))


def scen_xap(s, recipe, key, digest, remote=False, ts=False):
    env = s.env
    src, _ = env.input(recipe)
    out = env.outpath(".xap")
    rc, txt = s.sign(key, src, out, sigtype="xap", digest=digest, remote=remote, conf=env.ts_conf if ts else None)
    if rc != 0:
        return s.problem("C05:harness:sign-failed:xap", "relic sign failed: " + txt, found=False)
    d, orig = open(out, "rb").read(), open(src, "rb").read()
    # XAP trailer (as written by signtool's XAP SIP): ... zip | header{u16 unknown1=1?, u16 unknown2, u32 sigsize} pkcs7 | trailer{magic 'XAPS', u32 unknown, u32 trailer size}
    try:
        magic, unk, tsize = struct.unpack_from("<4sII", d, len(d) - 12) if False else (d[-12:-8], struct.unpack_from("<I", d, len(d) - 8)[0], struct.unpack_from("<I", d, len(d) - 4)[0])
    except struct.error as e:
        s.check(False, "trailer-malformed", "no trailer: %s" % e)
        return
    s.facts["trailer"] = (magic.hex(), unk, tsize)
    zipend = None
    # find end of the zip (EOCD of the original file is kept verbatim)
    try:
        e = ref.zip_eocd(orig)
        zipend = len(orig)
    except ref.RefError:
        pass
    s.check(d[:len(orig)] == orig, "zip-changed", "signed XAP does not start with the unchanged input zip")
    rest = d[len(orig):]
    s.check(len(rest) > 20, "no-trailer", "nothing appended")
    if len(rest) <= 20:
        return
    # locate the PKCS#7: first 0x30 0x82 in the appended region
    i = rest.find(b"\x30\x82")
    try:
        node = der.parse(rest, i)
        blob = rest[i:node.end]
    except der.DerError as e2:
        s.check(False, "trailer-malformed", "no DER blob in the appended region: %s" % e2)
        return
    sd = check_p7(s, blob, digest, key, want_ctype="spcIndirectData", timestamp="msTimeStampToken" if ts else None)
    check_indirect(s, sd, digest, "spcSipInfo", hashlib.new(digest, orig).digest(), "xap-digest-mismatch", tool="reference: XAP digest")
    s.distinct.add(("xap", recipe, digest, key, remote))


def check_apple_cms(s, info, digest, key, ts=False):
    """CMS blob of an Apple embedded signature: detached over the CodeDirectory of slot 0"""
    sd = check_p7(s, info["cms"], digest, key, content=info["cd"], want_ctype="data", label="cms", timestamp="timeStampToken" if ts else None)
    if sd is not None and sd["signers"]:
        # Apple's hash-agility attribute 1.2.840.113635.100.9.2: SET OF SEQUENCE { algorithm OID, digest } with the hash of each CodeDirectory
        attr = sd["signers"][0]["auth"].get("1.2.840.113635.100.9.2")
        if attr:
            for v in attr:
                ch = v.children()
                alg = ch[0].oidname()
                if alg in ("sha1", "sha256", "sha384", "sha512"):
                    s.check(ch[1].content == der.H(alg, info["cd"]), "cdhash-attribute-mismatch", "CMS attribute 1.2.840.113635.100.9.2 (%s) != hash of the CodeDirectory" % alg)
    return sd


def scen_dmg(s, recipe, key, digest, remote=False, ts=False, resign=False):
    env = s.env
    src, _ = env.input(recipe)
    out = env.outpath(".dmg")
    rc, txt = s.sign(key, src, out, sigtype="dmg", digest=digest, remote=remote, conf=env.ts_conf if ts else None)
    if rc != 0:
        return s.problem("C05:harness:sign-failed:dmg", "relic sign failed: " + txt, found=False)
    if resign:
        out2 = env.outpath(".dmg")
        rc, txt = s.sign(key, out, out2, sigtype="dmg", digest=digest, remote=remote)
        if rc != 0:
            return s.problem("C05:harness:sign-failed:dmg", "re-signing failed: " + txt, found=False)
        out = out2
    d, orig = open(out, "rb").read(), open(src, "rb").read()
    try:
        probs, info = apple.dmg_check(d)
        to = apple.dmg_parse(orig)
    except (apple.AppleError, struct.error, ValueError) as e:
        s.check(False, "reference-reader-fails", "reference UDIF / code-signature reader rejects the output: %r" % e)
        return
    s.evals += 6
    s.tool("reference: UDIF trailer + code-signature reader", not probs)
    for sl, dd in probs:
        s.check(False, sl, dd)
    s.check(d[:to["xml_end"]] == orig[:to["xml_end"]], "image-data-changed", "image data before the signature differs from the input")
    s.check(info.get("alg") == digest, "codedirectory-hash-type", "CodeDirectory hash type %s, requested %s" % (info.get("alg"), digest))
    check_apple_cms(s, info, digest, key, ts)
    s.distinct.add(("dmg", recipe, digest, key, remote, ts, resign))


def scen_macho(s, recipe, key, digest, remote=False, ts=False, bind=True):
    """recipe names the app bundle directory among the fixtures; the executable inside is what gets signed"""
    env = s.env
    app = os.path.join(e2e.PKGS, recipe.split(":", 1)[1])
    if os.path.exists(os.path.join(app, "dummyapp")):
        exe, plist, res = os.path.join(app, "dummyapp"), os.path.join(app, "Info.plist"), os.path.join(app, "_CodeSignature/CodeResources")
    else:
        exe, plist, res = os.path.join(app, "Contents/MacOS/dummy"), os.path.join(app, "Contents/Info.plist"), os.path.join(app, "Contents/_CodeSignature/CodeResources")
    out = env.outpath(".macho")
    flags = ["--info-plist", plist, "--resources", res] if bind else ["--bundle-id", "com.example.c05"]
    rc, txt = s.sign(key, exe, out, digest=digest, flags=flags, remote=remote, conf=env.ts_conf if ts else None)
    if rc != 0:
        return s.problem("C05:harness:sign-failed:macho", "relic sign failed: " + txt, found=False)
    d = open(out, "rb").read()
    try:
        slices = apple.macho_slices(d)
        for off, size in slices:
            probs, info = apple.macho_check(d[off:off + size], open(plist, "rb").read() if bind else None, open(res, "rb").read() if bind else None)
            s.evals += 4 + sum(len(cd["code"]) for cd in info["dirs"])
            s.tool("reference: Mach-O CodeDirectory page hashes / special slots", not probs)
            for sl, dd in probs:
                s.check(False, sl, dd)
            s.check(info.get("alg") == digest, "codedirectory-hash-type", "CodeDirectory hash type %s, requested %s" % (info.get("alg"), digest))
            check_apple_cms(s, info, digest, key, ts)
            if info.get("sig_off", 0) % 16:
                s.notes.append("Mach-O code signature placed at an offset that is not a multiple of 16 (codesign_allocate aligns to 16)")
    except (apple.AppleError, struct.error, ValueError) as e:
        s.check(False, "reference-reader-fails", "reference Mach-O / code-signature reader rejects the output: %r" % e)
        return
    s.facts["slices"] = len(slices)
    s.distinct.add(("macho", recipe, digest, key, remote, ts, bind))


def scen_xar(s, recipe, key, digest, remote=False, ts=False):
    env, t = s.env, s.env.tools
    src, _ = env.input(recipe)
    out = env.outpath(".pkg")
    rc, txt = s.sign(key, src, out, sigtype="xar", digest=digest, remote=remote, conf=env.ts_conf if ts else None)
    if rc != 0:
        return s.problem("C05:harness:sign-failed:xar", "relic sign failed: " + txt, found=False)
    d = open(out, "rb").read()
    try:
        probs, x = apple.xar_check(d)
        _, xo = apple.xar_check(open(src, "rb").read())
    except (apple.AppleError, struct.error, ValueError, zlib.error, AttributeError) as e:
        s.check(False, "reference-reader-fails", "reference xar reader rejects the output: %r" % e)
        return
    s.evals += 3 + x["files"]
    s.tool("reference: xar TOC checksum / heap reader", not probs)
    for sl, dd in probs:
        s.check(False, sl, dd)
    s.check(x["files"] == xo["files"], "heap-files", "%d heap files after signing, %d before" % (x["files"], xo["files"]))
    s.check(x["alg"] == digest, "checksum-style", "TOC checksum style %s, requested %s" % (x["alg"], digest))
    keytype = env.kit.keys[key]["type"]
    s.check(x["cms"] is not None, "no-cms-signature", "no x-signature style=CMS element")
    if keytype == "rsa":
        s.check(x["rsa"] is not None, "no-rsa-signature", "no classic RSA signature element for an RSA key")
        if x["rsa"] is not None and x["certs"] and s.need("openssl"):
            # the classic signature is RSASSA-PKCS1-v1_5 with the TOC checksum as the (already computed) digest
            spki = der.spki_of_cert(x["certs"][0])["spki"]
            pub, sg, dg = t.put(der.pem("PUBLIC KEY", spki).encode(), ".pub.pem"), t.put(x["rsa"], ".sig"), t.put(x["checksum"], ".dgst")
            cmd = ["openssl", "pkeyutl", "-verify", "-pubin", "-inkey", pub, "-in", dg, "-sigfile", sg, "-pkeyopt", "digest:" + digest]
            rc2, o2, e2 = trun(cmd)
            s.cmd(cmd)
            s.tool("openssl pkeyutl -verify", rc2 == 0 and b"Signature Verified Successfully" in o2)
            s.check(rc2 == 0 and b"Signature Verified Successfully" in o2, "rsa-signature-invalid", "openssl pkeyutl -verify rejects the classic signature over the TOC checksum: " + (o2.decode(errors="replace") + e2)[-200:])
    if x["cms"] is not None:
        try:
            n = der.parse(x["cms"], 0)
            blob = x["cms"][:n.end]
            s.check(not any(x["cms"][n.end:]), "cms-padding", "reserved space after the CMS blob is not zero")
        except der.DerError as e:
            s.check(False, "cms-not-der", "CMS heap entry does not start with a DER value: %s" % e)
            return
        check_p7(s, blob, digest, key, content=x["checksum"], want_ctype="data", label="cms", timestamp="timeStampToken" if ts else None)
    s.distinct.add(("xar", recipe, digest, key, remote, ts))


def scen_vsix(s, recipe, key, digest, remote=False, flags=()):
    env, t = s.env, s.env.tools
    src, _ = env.input(recipe)
    out = env.outpath(".vsix")
    rc, txt = s.sign(key, src, out, sigtype="vsix", digest=digest, remote=remote, flags=flags)
    if rc != 0:
        return s.problem("C05:harness:sign-failed:vsix", "relic sign failed: " + txt, found=False)
    z = zipfile.ZipFile(out)
    s.check(z.testzip() is None, "zip-crc", "zip CRC error after signing")
    sigparts = [n for n in z.namelist() if n.startswith("package/services/digital-signature/xml-signature/") and n.endswith(".psdsxs")]
    s.check(len(sigparts) == 1, "signature-part-count", "%d signature parts" % len(sigparts))
    if not sigparts:
        return
    sp = env.outpath(".psdsxs")
    open(sp, "wb").write(z.read(sigparts[0]))
    okx, ex, xcmds = t.xml_wellformed(sp)
    for c in xcmds:
        s.cmd(c)
    s.tool("XML parser (expat%s)" % ("+xmllint" if t.available.get("xmllint") else ""), okx)
    s.check(okx, "xml-not-well-formed", "signature part is not well-formed XML: " + ex[-200:])
    keytype = env.kit.keys[key]["type"]
    res = []
    if t.cap("jdk-xmldsig")["ok"]:
        res, cmd = t.xmldsig([sp])
        s.cmd(cmd)
        s.check(len(res) == 1 and "error" not in res[0], "jdk-validator-error", "validator output: %s" % res[:1], found=False)
    else:
        c = t.cap("jdk-xmldsig")
        s.skip("JDK XML-Signature validation (vsix)", "capability probe failed (%s): %s" % (c["probe"], c["output"][-200:]))
    kv_ok = xml_ec_keyvalue_check(s, sp)
    if len(res) == 1 and "error" not in res[0]:
        r = res[0]
        if keytype == "rsa":
            s.tool("JDK XMLSignature.validate", r.get("full_ok") is True)
            s.check(r.get("full_ok") is True, "jdk-validator-rejects", "XMLSignature.validate of the JDK fails: %s refs=%s sigvalue=%s" % (r.get("full_error"), r.get("full_refs"), r.get("full_sigvalue")))
        else:
            xml_ecdsa_verdicts(s, r, key, "package signature", True, kv_ok)
    # the Manifest inside the signed Object: one Reference per package part, digest over the part's bytes
    doc = z.read(sigparts[0]).decode("utf-8")
    refs = re.findall(r'<Reference URI="(/[^"?]*)\?ContentType=([^"]*)">(.*?)</Reference>', doc, flags=re.S)
    names = {"/" + n: n for n in z.namelist()}
    nplain = 0
    for uri, ctype, body in refs:
        m = re.search(r'<DigestMethod Algorithm="[^"#]*#([a-z0-9]+)"', body)
        dv = re.search(r"<DigestValue>([^<]+)</DigestValue>", body)
        if "<Transforms>" in body or not m or not dv:
            continue
        from urllib.parse import unquote
        part = names.get(unquote(uri))
        s.check(part is not None, "manifest-names-missing-part", "Manifest references %s which is not in the package" % uri)
        if part is None:
            continue
        nplain += 1
        s.check(s.tool("reference: OPC part digests", base64.b64encode(hashlib.new(m.group(1), z.read(part)).digest()).decode() == dv.group(1).strip()), "part-digest-mismatch", "DigestValue of %s != %s of the part" % (uri, m.group(1)))
    payload = [n for n in z.namelist() if not n.endswith("/") and not n.startswith("package/services/digital-signature/") and n != "[Content_Types].xml" and not n.endswith(".rels")]
    listed = set(unquote(u).lstrip("/") for u, _, _ in refs) if refs else set()
    missing = [n for n in payload if n not in listed]
    s.check(not missing, "parts-not-covered", "package parts not covered by the signature manifest: %s" % missing[:4])
    s.facts["parts"] = nplain
    s.distinct.add(("vsix", recipe, digest, key, remote, tuple(flags)))


def walk_der(node, fn):
    fn(node)
    if node.constructed:
        try:
            for c in node.children():
                walk_der(c, fn)
        except der.DerError:
            pass


def scen_appx(s, recipe, key, digest, remote=False, ts=False):
    env = s.env
    src, _ = env.input(recipe)
    out = env.outpath(".appx")
    rc, txt = s.sign(key, src, out, sigtype="appx", digest=digest, remote=remote, conf=env.ts_conf if ts else None)
    if rc != 0:
        return s.problem("C05:harness:sign-failed:appx", "relic sign failed: " + txt, found=False)
    d = open(out, "rb").read()
    try:
        z = zipfile.ZipFile(io.BytesIO(d))
        bad = z.testzip()
        s.check(bad is None, "zip-crc", "zip CRC error in %s after signing" % bad)
        if s.need("unzip"):
            rc2, o2, e2 = trun(["unzip", "-tqq", out])
            s.cmd(["unzip", "-tqq", out])
            s.tool("unzip -t", rc2 == 0)
            s.check(rc2 == 0, "unzip-rejects", "unzip -t reports errors: " + (o2.decode(errors="replace") + e2)[-200:])
        want, facts = ref.appx_reference(d, digest)
        bprobs, nblocks = ref.appx_blockmap_check(d)
        p7x = z.read("AppxSignature.p7x")
    except (ref.RefError, struct.error, KeyError, zipfile.BadZipFile, ValueError) as e:
        s.check(False, "reference-reader-fails", "reference APPX reader rejects the output: %r" % e)
        return
    s.evals += nblocks + facts["entries"]
    s.tool("reference: APPX block map", not bprobs)
    for sl, dd in bprobs:
        s.check(False, sl, dd)
    s.check(p7x[:4] == b"PKCX", "p7x-magic", "AppxSignature.p7x does not start with PKCX")
    sd = check_p7(s, p7x[4:], digest, key, want_ctype="spcIndirectData", timestamp="msTimeStampToken" if ts else None)
    ind = check_indirect(s, sd, digest, "spcSipInfo", None, "")
    if ind is not None:
        got = ind["digest"]
        hl = hashlib.new(digest).digest_size
        s.check(got[:4] == b"APPX" and len(got) == len(want), "appx-digest-layout", "digest blob is %d bytes starting %r, reference has %d" % (len(got), got[:4], len(want)))
        for i in range(4, min(len(got), len(want)), 4 + hl):
            tag = want[i:i + 4].decode()
            s.tool("reference: APPX digests (AXPC/AXCD/AXCT/AXBM/AXCI)", got[i:i + 4 + hl] == want[i:i + 4 + hl])
            s.check(got[i:i + 4 + hl] == want[i:i + 4 + hl], "appx-%s-mismatch" % tag.lower(), "%s digest in the signature %s != reference %s" % (tag, got[i + 4:i + 4 + hl].hex(), want[i + 4:i + 4 + hl].hex()),
                    embedded=got[i + 4:i + 4 + hl].hex(), reference=want[i + 4:i + 4 + hl].hex())
    # the code-integrity catalog: a signed CTL whose members are the Authenticode hashes of the PE files in the package
    if "AppxMetadata/CodeIntegrity.cat" in z.namelist():
        cat = z.read("AppxMetadata/CodeIntegrity.cat")
        csd = check_p7(s, cat, digest, key, want_ctype="ctl", label="catalog", timestamp="msTimeStampToken" if ts else None)
        if csd is not None and csd["econtent"] is not None:
            members = set()

            def visit(n):
                if n.tag == 0x30:
                    try:
                        ch = n.children()
                        if len(ch) == 2 and ch[0].tag == 0x06 and ch[0].oidname() == "spcIndirectData" and ch[1].tag == 0x31:
                            for v in ch[1].children():
                                members.add(der.parse_spc_indirect(v)["digest"])
                    except (der.DerError, IndexError):
                        pass
            walk_der(csd["econtent"], visit)
            pes = {}
            for n in z.namelist():
                data = z.read(n)
                if data[:2] == b"MZ":
                    try:
                        pes[n] = ref.pe_image_hash(data, digest)
                    except (ref.RefError, struct.error):
                        pass
            s.tool("reference: Authenticode PE image hash", members == set(pes.values()))
            s.check(members == set(pes.values()), "catalog-members-mismatch", "catalog member hashes %s != reference Authenticode hashes of the package's PE files %s" %
                    (sorted(m.hex()[:16] for m in members), {k: v.hex()[:16] for k, v in pes.items()}))
    s.distinct.add(("appx", recipe, digest, key, remote, ts))


SCENARIOS = {"jar": scen_jar, "pe": scen_pe, "cab": scen_cab, "msi": scen_msi, "apk": scen_apk, "pgp": scen_pgp, "deb": scen_deb, "rpm": scen_rpm,
             "appmanifest": scen_manifest, "ps": scen_ps, "cat": scen_cat, "xap": scen_xap,
             "dmg": scen_dmg, "macho": scen_macho, "xar": scen_xar, "vsix": scen_vsix, "appx": scen_appx}


# ====================================================================================================== the matrix
def matrix(tier, seed=1):
    """list of (format, params).  quick: every format x key type x digest at least once + the boundary inputs; thorough: the products."""
    T = tier == "thorough"
    M = []
    add = lambda fmt, **p: M.append((fmt, p))
    keys_all = ["rsa2048", "rsa3072", "p256", "p384", "p521"]
    dig_all = ["sha1", "sha224", "sha256", "sha384", "sha512"] if T else ["sha1", "sha256", "sha384", "sha512"]
    # ---- JAR
    for i, k in enumerate(keys_all):
        for j, dg in enumerate(dig_all):
            if T or (i + j) % 2 == 0 or (k == "rsa2048"):
                add("jar", recipe="fixture:hello.jar", key=k, digest=dg)
    for v, k, dg, fl in (("many", "p256", "sha256", ()), ("longnames", "rsa2048", "sha256", ()), ("longnames", "p384", "sha512", ("--sections-only",)),
                         ("lf-manifest", "rsa3072", "sha256", ()), ("sections", "p521", "sha384", ()), ("no-trailing-blank", "rsa2048", "sha1", ()),
                         ("stored", "p256", "sha512", ("--inline-signature",)), ("empty-and-dirs", "rsa2048", "sha256", ("--key-alias", "My-Key_1")),
                         ("sections", "rsa2048", "sha256", ("--apk-v2-present", "--sections-only", "--inline-signature"))):
        add("jar", recipe="jar:" + v, key=k, digest=dg, flags=fl)
    add("jar", recipe="fixture:hello.jar", key="p256", digest="sha256", remote=True)
    add("jar", recipe="jar:longnames", key="rsa2048", digest="sha512", remote=True)
    add("jar", recipe="jar:sections", key="p384", digest="sha256", resign_with="rsa2048")
    add("jar", recipe="fixture:dummy.apk", key="rsa2048", digest="sha256", sigtype="jar")
    if T:
        for v in ("many", "longnames", "lf-manifest", "sections", "no-trailing-blank", "stored", "empty-and-dirs", "big"):
            for k in ("rsa2048", "p256", "p521"):
                for dg in ("sha1", "sha256", "sha512"):
                    add("jar", recipe="jar:" + v, key=k, digest=dg)
            add("jar", recipe="jar:" + v, key="rsa3072", digest="sha384", remote=True)
    # ---- PE
    pe_inputs = ["fixture:ClassLibrary1.dll", "fixture:WindowsFormsApplication1.exe", "pe:dll-overlay=1", "pe:dll-overlay=5", "pe:dll-overlay=8", "pe:dll-overlay=4099",
                 "pe:plus=0,sizes=0x200/0x400", "pe:plus=1,sizes=0x200/0x400/0x1200", "pe:plus=1,sizes=0x1000/0x2000/0x1000,align=0x1000,overlay=3",
                 "pe:plus=0,sizes=0x600/0/0x200,overlay=17", "pe:plus=1,sizes=0x4200,machine=0x200", "pe:plus=0,sizes=0x200/0x200,gap=1,stub=64",
                 "pe:plus=1,sizes=0x2400/0x200/0x3000/0x800,overlay=7,seed=9", "pe:plus=0,sizes=0x200,overlay=0"]
    for i, r in enumerate(pe_inputs):
        combos = [("rsa2048", "sha256", ()), ("p256", "sha1", ("--page-hashes",)), ("rsa3072", "sha256", ("--page-hashes",)), ("p384", "sha384", ()), ("p521", "sha512", ())]
        for j, (k, dg, fl) in enumerate(combos):
            if T or j == i % len(combos) or j == (i + 2) % len(combos):
                add("pe", recipe=r, key=k, digest=dg, flags=fl)
    add("pe", recipe="fixture:ClassLibrary1.dll", key="rsa2048", digest="sha256", flags=("--page-hashes",), remote=True)
    add("pe", recipe="pe:plus=1,sizes=0x200/0x400/0x1200", key="p256", digest="sha256", remote=True)
    add("pe", recipe="pe:dll-overlay=5", key="rsa2048", digest="sha256", resign=True)
    many = "pe:plus=0,sizes=" + "/".join(["0x200"] * 100)      # 100 sections: SizeOfHeaders 0x1200 exceeds one page
    add("pe", recipe=many, key="rsa2048", digest="sha256")
    add("pe", recipe=many, key="p256", digest="sha256", flags=("--page-hashes",))
    add("pe", recipe="pe:plus=0,sizes=0x600/0/0x200,overlay=17", key="p256", digest="sha256", flags=("--page-hashes",), resign=True)
    # ---- CAB
    cab_inputs = ["fixture:dummy.cab", "cab:files=1,size=10", "cab:files=4,size=40000,folders=2", "cab:files=3,size=5,setid=0xffff,reserved=0x11223344/0x55667788/0x99aabbcc",
                  "cab:files=2,size=100,reserve=6144", "cab:files=5,size=33000,folders=3,setid=7"]
    for i, r in enumerate(cab_inputs):
        combos = [("rsa2048", "sha256"), ("p256", "sha1"), ("p521", "sha512"), ("rsa3072", "sha384")]
        for j, (k, dg) in enumerate(combos):
            if T or j == i % 4 or j == (i + 1) % 4:
                add("cab", recipe=r, key=k, digest=dg)
    add("cab", recipe="fixture:dummy.cab", key="rsa2048", digest="sha256", resign=True)
    add("cab", recipe="cab:files=4,size=40000,folders=2", key="p384", digest="sha256", remote=True)
    # ---- MSI
    msi_inputs = ["fixture:dummy.msi", "msi:names", "msi:storages", "msi:sizes", "msi:single"]
    for i, r in enumerate(msi_inputs):
        combos = [("rsa2048", "sha256", ()), ("p256", "sha1", ("--no-extended-sig",)), ("p384", "sha512", ()), ("rsa3072", "sha384", ("--no-extended-sig",))]
        for j, (k, dg, fl) in enumerate(combos):
            if T or j == i % 4 or j == (i + 1) % 4:
                add("msi", recipe=r, key=k, digest=dg, flags=fl)
    add("msi", recipe="msi:names", key="rsa2048", digest="sha256", resign=True)
    add("msi", recipe="fixture:dummy.msi", key="p521", digest="sha256", remote=True)
    # ---- APK v2
    MiB = 1 << 20
    apk_inputs = ["fixture:dummy.apk", "apk:members=700", "apk:pad=%d" % (MiB - 1), "apk:pad=%d" % MiB, "apk:pad=%d" % (MiB + 1), "apk:pad=%d" % (2 * MiB), "apk:pad=%d" % (3 * MiB - 7)]
    for i, r in enumerate(apk_inputs):
        combos = [("rsa2048", "sha256"), ("p256", "sha512"), ("rsa3072", "sha512"), ("p384", "sha256"), ("p521", "sha512")]
        for j, (k, dg) in enumerate(combos):
            if T or j == i % 5 or (i < 2 and j == (i + 2) % 5):
                add("apk", recipe=r, key=k, digest=dg)
    add("apk", recipe="fixture:dummy.apk", key="rsa2048", digest="sha256", v1_first=True)
    add("apk", recipe="apk:pad=%d" % MiB, key="p256", digest="sha256", v1_first=True)
    add("apk", recipe="apk:members=700", key="rsa2048", digest="sha256", remote=True)
    # ---- PGP family
    modes = ["detached", "armor", "textmode", "textmode-armor", "inline", "inline-armor", "clearsign"]
    texts = ["fixture:Release", "text:crlf", "text:dashes", "text:utf8", "text:empty"] + (["text:binary", "text:big"] if T else [])
    for i, r in enumerate(texts):
        for j, m in enumerate(modes):
            if r == "text:binary" and m in ("clearsign", "textmode", "textmode-armor"):
                # text-mode signatures over data with bare CR are not well defined: GnuPG drops CRs that precede a line end or the end of
                # the data, go-crypto keeps them (observed: gpgv BADSIG); binary data is signed in binary modes only
                continue
            # go-crypto refuses SHA-1 for new OpenPGP signatures: not in the matrix
            for l, dg in enumerate(["sha256", "sha512", "sha384"] + (["sha224"] if T else [])):
                if T or (i + j + l) % 3 == 0:
                    add("pgp", recipe=r, digest=dg, mode=m)
    for dg, role in (("sha256", None), ("sha512", "origin"), ("sha224", "maint"), ("sha384", "archive")):
        add("deb", recipe="fixture:zlib1g_1.2.8.dfsg-5_i386.deb", digest=dg, role=role)
    for dg in ("sha256", "sha512", "sha1") + (("sha384", "sha224") if T else ()):
        add("rpm", recipe="fixture:rocky-basesystem-11-13.el9.noarch.rpm", digest=dg)
    # ---- ClickOnce manifest through the JDK validator
    for k in keys_all:
        for dg in (["sha1", "sha256", "sha384", "sha512"] if T else ["sha1", "sha256"] + (["sha512"] if k in ("p521", "rsa2048") else [])):
            add("appmanifest", recipe="fixture:WindowsFormsApplication1.exe.manifest", key=k, digest=dg)
    for n in range(8 if T else 4):      # ECDSA signature values are randomised: several runs on P-521
        add("appmanifest", recipe="fixture:WindowsFormsApplication1.exe.manifest", key="p521", digest="sha256", remote=(n == 0), rep=n)
    # ---- the remaining Authenticode carriers
    for fx in ("hello.ps1", "hello.ps1xml", "hello.mof"):
        for k, dg in (("rsa2048", "sha256"), ("p256", "sha1"), ("p521", "sha512")) + ((("rsa3072", "sha384"), ("p384", "sha256")) if T else ()):
            add("ps", recipe="fixture:" + fx, key=k, digest=dg)
    for k, dg in (("rsa2048", "sha256"), ("p256", "sha1"), ("p384", "sha512")):
        add("cat", recipe="fixture:hyperv.cat", key=k, digest=dg)
        add("xap", recipe="fixture:dummy.xap", key=k, digest=dg)
    # ---- Apple containers, VSIX
    for k, dg in (("rsa2048", "sha256"), ("p256", "sha256"), ("rsa3072", "sha1"), ("p384", "sha384")) + ((("p521", "sha256"),) if T else ()):
        add("dmg", recipe="fixture:dummy.dmg", key=k, digest=dg)
        add("macho", recipe="app:slimfile.app", key=k, digest=dg)
        if k == "p256":
            add("macho", recipe="app:slimfile.app", key=k, digest=dg, bind=False)
    for k, dg in (("rsa2048", "sha256"), ("p256", "sha256"), ("rsa3072", "sha1"), ("p384", "sha512")):
        add("xar", recipe="fixture:dummy.pkg", key=k, digest=dg)
    add("dmg", recipe="fixture:dummy.dmg", key="rsa2048", digest="sha256", resign=True)
    add("dmg", recipe="fixture:dummy.dmg", key="p256", digest="sha256", remote=True)
    add("xar", recipe="fixture:dummy.pkg", key="rsa2048", digest="sha256", remote=True)
    add("macho", recipe="app:slimfile.app", key="rsa2048", digest="sha256", remote=True)
    for k, dg, fl in (("rsa2048", "sha256", ()), ("rsa3072", "sha512", ("--detach-certs",)), ("p256", "sha256", ()), ("p521", "sha384", ()), ("rsa2048", "sha1", ())):
        add("vsix", recipe="fixture:VSIXProject1.vsix", key=k, digest=dg, flags=fl)
    add("vsix", recipe="fixture:VSIXProject1.vsix", key="rsa2048", digest="sha256", remote=True)
    for k, dg in (("rsa2048", "sha256"), ("p256", "sha256"), ("rsa3072", "sha384"), ("p521", "sha512")):
        add("appx", recipe="fixture:App1_1.0.3.0_x64.appx", key=k, digest=dg)
    add("appx", recipe="fixture:App1_1.0.3.0_x64.appx", key="rsa2048", digest="sha256", remote=True)
    # ---- randomised well-formed inputs (seeded by VERIF_SEED): layout parameters, key, digest and flags drawn at random
    import random
    R = random.Random(seed * 1000003 + (7 if T else 0))
    nrand = 250 if T else 12
    for i in range(nrand):
        n = seed * 100000 + i
        k = R.choice(keys_all)
        dg = R.choice(["sha1", "sha256", "sha384", "sha512"])
        add("pe", recipe="pe:rand=%d" % n, key=k, digest=dg if dg in ("sha1", "sha256") or R.random() < 0.5 else "sha256",
            flags=("--page-hashes",) if dg in ("sha1", "sha256") and R.random() < 0.6 else (), resign=R.random() < 0.2)
        k = R.choice(keys_all)
        add("cab", recipe="cab:rand=%d" % n, key=k, digest=R.choice(["sha1", "sha256", "sha384", "sha512"]), resign=R.random() < 0.2)
        k = R.choice(keys_all)
        add("msi", recipe="msi:rand=%d" % n, key=k, digest=R.choice(["sha1", "sha256", "sha384", "sha512"]), flags=("--no-extended-sig",) if R.random() < 0.3 else (), resign=R.random() < 0.2)
        k = R.choice(keys_all)
        fl = tuple(f for f in ("--sections-only", "--inline-signature") if R.random() < 0.25)
        add("jar", recipe="jar:rand=%d" % n, key=k, digest=R.choice(["sha1", "sha256", "sha384", "sha512"]), flags=fl, remote=R.random() < 0.15)
        add("pgp", recipe="text:rand=%d" % n, digest=R.choice(["sha256", "sha384", "sha512"]), mode=R.choice(["detached", "armor", "textmode", "inline", "inline-armor", "clearsign"]))
    for i in range(6 if T else 2):
        size = R.randint((1 << 20) - 3000, 3 * (1 << 20) + 3000)
        add("apk", recipe="apk:pad=%d" % size, key=R.choice(keys_all), digest=R.choice(["sha256", "sha512"]), v1_first=R.random() < 0.3)
    # ---- RFC 3161 timestamps from the local openssl TSA (standalone signing; every PKCS#7 carrier)
    for k, dg in (("rsa2048", "sha256"), ("p256", "sha512"), ("rsa3072", "sha1")) + ((("p521", "sha384"),) if T else ()):
        add("jar", recipe="fixture:hello.jar", key=k, digest=dg, ts=True)
        add("pe", recipe="fixture:ClassLibrary1.dll", key=k, digest=dg, ts=True)
        add("cab", recipe="fixture:dummy.cab", key=k, digest=dg, ts=True)
        add("msi", recipe="fixture:dummy.msi", key=k, digest=dg, ts=True)
        add("ps", recipe="fixture:hello.ps1", key=k, digest=dg, ts=True)
        add("cat", recipe="fixture:hyperv.cat", key=k, digest=dg, ts=True)
        add("xap", recipe="fixture:dummy.xap", key=k, digest=dg, ts=True)
        add("appmanifest", recipe="fixture:WindowsFormsApplication1.exe.manifest", key=k, digest=dg, ts=True)
        if dg in ("sha1", "sha256", "sha512"):      # the xar header knows these checksum algorithms only
            add("xar", recipe="fixture:dummy.pkg", key=k, digest=dg, ts=True)
        if dg != "sha1":
            add("appx", recipe="fixture:App1_1.0.3.0_x64.appx", key=k, digest=dg, ts=True)
        if dg != "sha512":
            add("dmg", recipe="fixture:dummy.dmg", key=k, digest=dg, ts=True)
            add("macho", recipe="app:slimfile.app", key=k, digest=dg, ts=True)
    return M


def run_one(env, fmt, params, idx):
    p = dict(params)
    p.pop("rep", None)
    s = S(env, fmt, "%s#%d" % (fmt, idx), params)
    t0 = time.time()
    try:
        SCENARIOS[fmt](s, **p)
    except Exception as e:           # a crash of the check itself is never a property violation; it is reported as such
        s.problem("C05:harness:scenario-crashed:" + fmt, "scenario raised %r: %s" % (e, traceback.format_exc()[-600:]), found=False)
    s.wall = time.time() - t0
    return s


def probe_tools(env):
    """Capability probes: every reference tool is first shown material that does NOT come from relic (fixtures signed by Microsoft's
    tools, a signature made by OpenSSL itself).  A tool that rejects the genuine article cannot be the judge of relic's output: the
    sub-checks relying on it are skipped and listed under coverage.skipped with the probe's output."""
    t = env.tools
    pk = e2e.PKGS
    try:
        z = zipfile.ZipFile(os.path.join(pk, "App1_1.0.3.0_x64.appx"))
        p7x = z.read("AppxSignature.p7x")
        spc = p7x[4:] if p7x[:4] == b"PKCX" else None
    except (OSError, KeyError, zipfile.BadZipFile):
        spc = None
    t.probe_p7("spcIndirectData", spc, "AppxSignature.p7x of functest/packages/App1_1.0.3.0_x64.appx (made by Microsoft's signtool)")
    try:
        cat = open(os.path.join(pk, "hyperv.cat"), "rb").read()
    except OSError:
        cat = None
    t.probe_p7("ctl", cat, "functest/packages/hyperv.cat as shipped (signed by Microsoft)")
    own, oerr = (None, "openssl not installed")
    if t.available["openssl"]:
        own, oerr = t.openssl_sign_data(os.path.join(e2e.KEYS, "rsa2048.key"), os.path.join(e2e.KEYS, "rsa2048.crt"), b"probe content\r\n" * 7)
    if own is None:
        t.set_cap("openssl-smime-verify:data", False, "openssl smime -sign", "could not make probe material: " + oerr[-200:])
        t.set_cap("openssl-cms-verify:data", False, "openssl smime -sign", "could not make probe material: " + oerr[-200:])
    else:
        t.probe_p7("data", own, "SignedData over id-data made by `openssl smime -sign` of the same installation")
        t.probe_cms(own, "SignedData over id-data made by `openssl smime -sign` of the same installation")
    # JDK XML-Signature validator: the signature part of the fixture VSIX was made by Visual Studio's signing tool
    if not (t.available["java"] and t.available["javac"]):
        t.set_cap("jdk-xmldsig", False, "java/javac", "java or javac not installed")
    elif not t.javac():
        t.set_cap("jdk-xmldsig", False, "javac harness/ref/XmlDsigVerify.java", t.java_err)
    else:
        try:
            z = zipfile.ZipFile(os.path.join(pk, "VSIXProject1.vsix"))
            part = [n for n in z.namelist() if n.endswith(".psdsxs")][0]
            sp = t.put(z.read(part), ".psdsxs")
            res, cmd = t.xmldsig([sp])
            ok = len(res) == 1 and res[0].get("full_ok") is True
            t.set_cap("jdk-xmldsig", ok, "signature part of functest/packages/VSIXProject1.vsix as shipped through harness/ref/XmlDsigVerify.java", "accepted" if ok else json.dumps(res)[:300])
        except (OSError, IndexError, zipfile.BadZipFile) as e:
            t.set_cap("jdk-xmldsig", False, "VSIX fixture", "no probe material: %r" % e)


def keep_artefacts(ctx, s, dest):
    """copies the files a failed scenario's command lines refer to (input, relic's output, the blobs handed to the tools, relic's
    configuration and keys) out of the scratch directory and returns (artefact map, command lines rewritten to the kept copies)"""
    kept, total = {}, 0
    root = ctx.scratch.rstrip("/")
    paths = set(p for p in s.artefacts.values() if p)
    for c in s.cmds:
        for tok in c.split():
            tok = tok.split("=", 1)[-1]
            if tok.startswith(root + "/") and os.path.isfile(tok):
                paths.add(tok)
    for p in sorted(paths):
        if p.startswith(root + "/") and p.endswith(".yml"):
            d = os.path.dirname(p)
            e2edir = os.path.join(root, "e2e")
            for extra in [os.path.join(e2edir, f) for f in (os.listdir(e2edir) if os.path.isdir(e2edir) else []) if f.endswith((".key", ".crt", ".yml"))]:
                paths.add(extra)
    for p in sorted(paths):
        if not os.path.isfile(p):
            continue
        size = os.path.getsize(p)
        if total + size > 64 << 20:
            kept[p] = "not kept (size limit)"
            continue
        if p.startswith(root + "/"):
            q = os.path.join(dest, os.path.relpath(p, root))
            os.makedirs(os.path.dirname(q), exist_ok=True)
            if p.endswith(".yml"):
                open(q, "w").write(open(p).read().replace(root, dest))
            else:
                shutil.copyfile(p, q)
            kept[q] = hashlib.sha256(open(p, "rb").read()).hexdigest()
            total += size
        else:
            kept[p] = hashlib.sha256(open(p, "rb").read()).hexdigest()      # fixture in the repository: referenced in place
    roles = {k: (v.replace(root, dest) if v else v) for k, v in s.artefacts.items()}
    return {"files_sha256": kept, "roles": roles, "note": "relic's server for `remote sign` and the local TSA are not running outside the check: use --replay for those"}, \
        [c.replace(root, dest) for c in s.cmds]


# Theorems proved under other properties that carry C05's claim "relic's digest/encoding = the specification's" for parts that are not
# (yet) covered by a byte-level format module: (generator, directory, theorem names).  They are rebuilt here against the current /repo
# (srcgen regenerates the constants / decision functions they are stated over), so a change of relic that breaks one of them breaks C05.
BORROWED = [
    ("C09_gen", "C09", ["merkle_eq_spec",            # APK v2: streaming chunk tree = Android's definition (1 MiB chunks, 0xa5 / 0x5a prefixes, sections 1,3,4)
                        "page_preimage_eq_spec", "pagehash_split_indep",     # Authenticode page hashes = specification's pages, zero fill
                        "cksum_split_indep",          # PE checksum = published algorithm for every split into writes
                        "blockmap_split_indep",       # AppX block map = 64 KiB blocks
                        "codepages_split_indep"]),    # Mach-O CodeDirectory = 4 KiB pages
    ("C16_gen", "C16", ["attr_digest_parsed", "attr_digest_built",           # signed-attributes preimage = emitted [0] field re-tagged 0x31 (RFC 5652 5.4)
                        "builder_no_attrs", "builder_preimage"]),            # what is signed with / without attributes
]


def borrowed_proofs(ctx, frag):
    """adds the BORROWED theorems to the proof fragment returned by formats.proof_part"""
    from vlib.common import COQ, FORBIDDEN
    unit, ctx.unit = ctx.unit, "c05"
    try:
        ctx.srcgen([g for g, _, _ in BORROWED])
    finally:
        ctx.unit = unit
    targets = ["%s/Properties.vo" % d for _, d, _ in BORROWED]
    built, log = ctx.coq_build(targets)
    thms, discharged, bad = [], 0, []
    for gen, d, names in BORROWED:
        broken = (ctx.srcgen_summary.get("broken_by_file") or {}).get(gen, [])
        hyg = ctx.hygiene([d])
        gv = os.path.join(COQ, "Generated", gen + ".v")
        if os.path.exists(gv):
            hyg += ["%s: %s" % (gv, m.group(0)) for m in FORBIDDEN.finditer(re.sub(r"\(\*.*?\*\)", "", open(gv).read(), flags=re.S))]
        present = ctx.theorems("%s/Properties.v" % d)
        missing = [n for n in names if n not in present]
        ok = built.get("%s/Properties.vo" % d, False) and not hyg and not broken and not missing
        thms += ["%s.%s" % (d, n) for n in names]
        if ok:
            discharged += len(names)
        else:
            bad.append((d, broken or hyg or missing or ["%s/Properties.vo does not build" % d]))
    for d, what in bad:
        ctx.violation("C05:proof:%s" % d.lower(), "theorems of %s that C05 relies on no longer check against this /repo: %s" % (d, what), {"broken": what, "coq_log_tail": log[-1500:]}, False)
    assum = []
    for _, d, _ in BORROWED:
        if built.get("%s/Properties.vo" % d):
            assum += [l.strip() for l in ctx.assumptions("%s/Properties.v" % d).splitlines() if l.strip()]
    had = list(frag.get("theorems") or [])
    frag["theorems"] = had + thms
    frag["obligations"] = len(had) + len(thms)
    frag["discharged"] = (frag.get("discharged", 0) if had else 0) + discharged
    frag["laws_pipeline_built"] = not any(k == "C05:proof:laws" for _, _, _, k in ctx.violations)
    frag["checker_cmd"] = frag.get("checker_cmd", "") + " ; make -C /verif/coq " + " ".join(targets)
    frag["trusted_base"] = list(frag.get("trusted_base", [])) + ["Print Assumptions (%s): %s" % ("+".join(d for _, d, _ in BORROWED), " | ".join(sorted(set(assum)))[:400] or "n/a")]
    frag["proof_scope"] = ("proved: APK v2 chunked digest, PE page-hash pages and padding, PE checksum, AppX block map, Mach-O code pages (C09), signed-attribute preimage (C16), "
                           "plus the *_eq_spec refinements of the enabled byte-level format modules %s; every other digest/encoding of the property statement is covered by the "
                           "differential half only (reference implementations and specification-derived computations on relic's real output)" % (formats.ENABLED or "[none enabled yet]"))
    return frag


def alt_fill_generated(ctx):
    """isolated mode (VERIF_REPO=<scratch worktree>) only: the private Coq tree starts without Generated/*.v, but the coq_makefile
    dependency scan (.Makefile.d) needs every file of _CoqProject to exist before ANY target can be built.  The generated files of
    units this check does not use are copied from /verif/coq/Generated (they only have to exist); the ones it does use are
    regenerated from the repository under test by srcgen (borrowed_proofs, the format modules' prepare)."""
    from vlib import common
    if not common.ALT:
        return
    src = os.path.join(common.VERIF, "coq", "Generated")
    dst = os.path.join(common.COQ, "Generated")
    os.makedirs(dst, exist_ok=True)
    for line in open(os.path.join(common.COQ, "_CoqProject")):
        line = line.strip()
        if line.startswith("Generated/") and line.endswith(".v"):
            fn = line.split("/", 1)[1]
            if not os.path.exists(os.path.join(dst, fn)) and os.path.exists(os.path.join(src, fn)):
                shutil.copyfile(os.path.join(src, fn), os.path.join(dst, fn))


def run(ctx, replay=None):
    from vlib.common import OUT
    rdir = os.path.join(OUT, "replay", "C05")
    if not replay and os.path.isdir(rdir):
        # replay/C05 holds the replays (and kept artefacts) of the latest full run only
        for fn in os.listdir(rdir):
            q = os.path.join(rdir, fn)
            shutil.rmtree(q, ignore_errors=True) if os.path.isdir(q) else os.unlink(q)
    alt_fill_generated(ctx)
    frag, units = formats.proof_part(ctx)
    frag = borrowed_proofs(ctx, frag)
    kit = e2e.Kit(ctx, with_server=True)
    if kit.build_error:
        ctx.violation("C05:relic-build", "relic binary / probe does not build: " + kit.build_error[-400:], {"stderr": kit.build_error[-2000:]}, False)
        cov = dict(frag, evaluations=0, distinct_nontrivial=0, rule="relic binary could not be built", samples=[])
        return ctx.finish("proof", cov, [])
    tools = Tools(os.path.join(ctx.scratch, "c05tools"))
    env = Env(ctx, kit, tools)
    env.tsa = TSA(os.path.join(ctx.scratch, "c05tsa"))
    skipped = {}

    def skip(what, reason, n=1):
        e = skipped.setdefault(what, {"reason": reason, "count": 0})
        e["count"] += n
    if env.tsa.error:
        ctx.notes.append("local TSA could not be set up (%s): timestamp scenarios skipped" % env.tsa.error)
    else:
        env.ts_conf = env.tsa.relic_config(kit.conf, os.path.join(ctx.scratch, "c05", "relic-ts.yml"))
    M0 = matrix(ctx.tier, ctx.seed)
    M = [(f, p) for f, p in M0 if not p.get("ts") or env.ts_conf]
    if len(M) < len(M0):
        skip("RFC 3161 timestamp scenarios (openssl ts -reply behind a local HTTP server)", "local TSA could not be set up: %s" % env.tsa.error, len(M0) - len(M))
    if replay:
        try:
            rp = json.load(open(replay))
            M = [(rp["scenario"]["format"], rp["scenario"]["params"])]
        except (OSError, KeyError, ValueError) as e:
            ctx.notes.append("replay file unusable (%s); running the full matrix" % e)
            replay = None
    results = []
    try:
        probe_tools(env)
        with concurrent.futures.ThreadPoolExecutor(max_workers=14) as ex:
            futs = [ex.submit(run_one, env, fmt, params, i) for i, (fmt, params) in enumerate(M)]
            results = [f.result() for f in futs]
        # ---------------------------------------------------------------- verdicts (scratch still exists: artefacts are kept for reported problems)
        per_fmt, distinct, evals, toolacc, by_key = {}, set(), 0, {}, {}
        for s in results:
            f = per_fmt.setdefault(s.fmt, {"scenarios": 0, "evaluations": 0, "problems": 0})
            f["scenarios"] += 1
            f["evaluations"] += s.evals
            f["problems"] += len(s.problems)
            evals += s.evals
            distinct |= s.distinct
            for name, (a, r) in s.tools.items():
                e = toolacc.setdefault(name, {"accepted": 0, "rejected": 0})
                e["accepted"] += a
                e["rejected"] += r
            for what, reason in s.skips:
                skip(what, reason)
            for pr in s.problems:
                by_key.setdefault(pr["key"], []).append((s, pr))
        known = set(k["key"] for k in ctx.known if k.get("status") == "finding" and k.get("property") == ctx.pid)
        for key, items in sorted(by_key.items()):
            # one report per key: the first occurrence is the replay, the others are counted and listed
            s, pr = items[0]
            rep = {"scenario": {"format": s.fmt, "params": s.params}, "command_lines": s.cmds, "observed": pr["detail"], "extra": pr["extra"],
                   "occurrences": len(items), "other_scenarios": [{"format": s2.fmt, "params": s2.params} for s2, _ in items[1:6]],
                   "inputs": {r: h for r, (p, h) in env.inputs.items() if r == s.params.get("recipe")},
                   "how_to_replay": "cd /verif && bin/check C05 --replay <this file>   (rebuilds the input from its recipe with vlib/c05_inputs.build, signs and checks it again); "
                                    "or run command_lines by hand on the kept artefacts"}
            if key not in known:
                h = hashlib.sha256(json.dumps([key, s.fmt, s.params], sort_keys=True, default=str).encode()).hexdigest()[:12]
                try:
                    rep["artefacts"], rep["command_lines"] = keep_artefacts(ctx, s, os.path.join(rdir, h + ".d"))
                except OSError as e:
                    rep["artefacts"] = {"error": "could not keep artefacts: %r" % e}
            ctx.violation(key, pr["detail"] + ("" if len(items) == 1 else "   [%d occurrences]" % len(items)), rep, pr["found"])
    finally:
        kit.close()
        env.tsa.close()
    missing = [t for t, ok in tools.available.items() if not ok]
    for t in missing:
        if t == "xmllint":
            skip("xmllint --noout as a second XML well-formedness opinion", "xmllint not installed in this sandbox; well-formedness is judged by expat (python xml.parsers.expat)", sum(1 for s in results if s.fmt in ("appmanifest", "vsix")))
    if missing:
        ctx.notes.append("reference tools missing in this sandbox: %s" % missing)
    slow = sorted(results, key=lambda s: -s.wall)[:3]
    # samples: one scenario per format, with the command lines handed to the outside tools
    seen_fmt, samples = set(), []
    for s in sorted(results, key=lambda s: len(s.problems)):
        if s.fmt not in seen_fmt:
            seen_fmt.add(s.fmt)
            samples.append({"format": s.fmt, "params": s.params, "evaluations": s.evals, "tools": {k: v for k, v in s.tools.items()}, "commands": [c.replace(ctx.scratch, "$SCRATCH")[:300] for c in s.cmds[:4]]})
    cov = dict(frag)
    cov.update({"evaluations": evals, "distinct_nontrivial": len(distinct),
                "rule": "format x input (fixtures of /repo/functest/packages + harness-generated: PE32/PE32+ images with 1-4 sections, overlays of odd size, 8 KiB-page machine; "
                        "cabinets with 1-3 folders, reserve areas, non-zero reserved fields; compound files with ordering-sensitive stream names, sub-storages, sizes around the mini-stream "
                        "cutoff; APKs whose contents section ends at 1 MiB-1, 1 MiB, 1 MiB+1, 2 MiB, 3 MiB-7; JARs with 300 members, names forcing 1-3 continuation lines incl. multi-byte "
                        "characters on the fold, LF manifests, pre-existing sections; texts with CRLF, dash-escapes, trailing blanks) x key (RSA 2048/3072, P-256/384/521) x digest "
                        "(sha1/224/256/384/512) x flags (--page-hashes, --sections-only, --inline-signature, --apk-v2-present, --key-alias, --no-extended-sig, PGP armor/textmode/inline/clearsign, "
                        "DEB roles) x transport (standalone, remote via relic serve) x re-signing x RFC 3161 timestamping; quick = covering subset (every format, every reference tool, every key type and "
                        "digest at least once, all boundary inputs), thorough = the products; non-trivial = distinct (format, input, key type, digest, flags, transport) combinations that reached the oracle",
                "samples": samples,
                "per_format": per_fmt, "scenarios": len(results),
                "reference_tool_verdicts": toolacc,
                "skipped": skipped,
                "capability_probes": tools.caps,
                "reported_keys": {k: len(v) for k, v in by_key.items()},
                "slowest_scenarios": [{"format": s.fmt, "params": s.params, "wall_s": round(s.wall, 1)} for s in slow],
                "reference_tools": tools.available, "reference_tool_versions": tools.versions,
                "notes_from_scenarios": sorted(set(n for s in results for n in s.notes))[:20]})
    cov["trusted_base"] = list(cov.get("trusted_base", [])) + [
        "reference implementations as installed (versions under reference_tool_versions): OpenSSL smime/cms/dgst/asn1parse/ts/pkeyutl, JDK jarsigner + javax.xml.crypto + java.security, GnuPG gpgv, dpkg-deb, ar, unzip, "
        "python zipfile + expat; each one first has to accept genuine third-party material (capability_probes) before it is allowed to judge relic's output",
        "reference computations vlib/c05_ref.py / c05_der.py / c05_apple.py transcribed from the Authenticode, PE/COFF, MS-CAB, MS-CFB, APK v2, JAR, RFC 2315/5652, X.690 specifications (MSI ordering and the CAB/MSI "
        "signature digests have no public specification: the algorithms documented by osslsigncode are used)",
        "JDK policy jdk.jar.disabledAlgorithms lifted for SHA-1 runs only (structure, not policy, is under test)"]
    assumptions = ["chain validation is out of scope here (self-signed test certificates): reference tools run with -noverify / explicit keyrings",
                   "ClickOnce manifests: SHA-2 algorithm URIs are the Microsoft-specific ones .NET writes; the stock JDK validator is applicable to the SHA-1 forms only, "
                   "the SHA-2 forms are validated step by step with the JDK canonicaliser, MessageDigest and Signature",
                   "no reference tool for Authenticode page hashes, MSI, CAB, APK v2 exists in the sandbox (no osslsigncode/apksigner/signtool): specification-derived Python references are the oracle there",
                   "where the installed OpenSSL cannot verify SignedData with non-OCTET-STRING content as a whole (3.0/3.1: it rejects Microsoft's own signatures), acceptance is established piecewise: "
                   "messageDigest attribute = H(content octets) by the Python DER reader, signature over the re-tagged attributes by `openssl dgst -verify`, timestamp tokens by `openssl ts -verify`"]
    return ctx.finish("proof", cov, assumptions)
