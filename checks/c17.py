# C17 — relic reads and rewrites ZIP structures exactly as standard readers see them (lib/zipslicer)
#
# Per run: srcgen + Coq (C17/Properties.v, C17/Run.v) ; driver `c17` (+ `c17big`) runs the REAL zipslicer on archives made by
# the harness-owned writer and on archives relic itself writes ; a MODEL-FREE oracle written from the property text compares
# relic's observations with Go archive/zip (in the driver), Python zipfile (here) and the writer's ground truth ; then the
# extracted Coq model (reader, writer, mangle) and the Coq APPNOTE builder are compared with the implementation / the harness.
import hashlib, io, json, os, zipfile
from vlib.common import Hex

ERRC = [("zip central directory not found", 2), ("expected ZIP64 locator", 3), ("missing ZIP64 header", 4),
        ("expected end record", 5), ("local file header not found", 6), ("data descriptor signature is missing", 7),
        ("data descriptor is invalid", 8), ("attempted to seek backwards", 9), ("new zipfile", 10),
        ("central directory is truncated", 11), ("central directory is out of bounds", 12),
        ("negative offset", 1), ("EOF", 1), ("invalid argument", 1)]
PANC = [("slice bounds out of range", 1), ("index out of range", 1), ("makeslice", 2), ("nil pointer", 3)]


def status_of(err, panic=""):
    """(0,0) ok / (1,class) error / (2,class) panic — the model's result header"""
    if panic:
        for s, c in PANC:
            if s in panic:
                return (2, c)
        return (2, 99)
    if err:
        for s, c in ERRC:
            if s in err:
                return (1, c)
        return (1, 98)
    return (0, 0)


# ------------------------------------------------------------------ Python zipfile as the second standard reader
def py_view(zb):
    try:
        zf = zipfile.ZipFile(io.BytesIO(zb))
    except Exception as e:
        return {"err": "%s: %s" % (type(e).__name__, e), "members": []}
    ms = []
    for zi in zf.infolist():
        enc = "utf-8" if zi.flag_bits & 0x800 else "cp437"
        try:
            name = zi.orig_filename.encode(enc).hex()
        except Exception:
            name = zi.orig_filename.encode("utf-8", "replace").hex()
        m = {"name": name, "off": zi.header_offset, "csize": zi.compress_size, "usize": zi.file_size, "crc": zi.CRC,
             "method": zi.compress_type, "sha256": "", "err": ""}
        try:
            m["sha256"] = hashlib.sha256(zf.read(zi)).hexdigest()
        except Exception as e:
            m["err"] = "%s: %s" % (type(e).__name__, e)
        ms.append(m)
    return {"err": "", "members": ms, "start_dir": zf.start_dir, "comment": zf.comment.hex()}


def boundaries(py, i):
    """length of the local entry of member i as the standard reader's offsets imply it (contiguous archives)"""
    off = py["members"][i]["off"]
    nxt = [m["off"] for m in py["members"] if m["off"] > off] + [py["start_dir"]]
    return min(nxt) - off


class Findings:
    """collects candidate violations per key and reports the smallest reproducing case of each"""

    def __init__(self):
        self.by_key = {}

    def add(self, key, detail, case, found=True, extra=None):
        size = case.get("size") or 10 ** 9
        cur = self.by_key.get(key)
        if cur is None:
            self.by_key[key] = [1, size, detail, case, found, extra]
        else:
            cur[0] += 1
            if size < cur[1]:
                cur[1:] = [size, detail, case, found, extra]


def truth_in_cd_order(c):
    """ground truth of the harness writer, re-ordered to central-directory order (names may repeat)"""
    if not c.get("truth"):
        return None
    tm = c["truth"]["members"]
    order = ((c.get("spec") or {}).get("opts") or {}).get("cdorder") or list(range(len(tm)))
    return [tm[i] for i in order if i < len(tm)]


def dd64_key(a):
    """empty member whose 24-byte descriptor is measured as 16 bytes; since relic 005bb9c only when version-needed < 45"""
    return "C17:readDataDesc:dd64-usize0" if a["reader"] >= 45 else "C17:readDataDesc:dd64-usize0-version20"


def feats(c):
    return set(c.get("features") or []) | set(c.get("src_features") or [])


# ------------------------------------------------------------------ the model-free oracle (from the property statement)
def classify_read_failure(c):
    r = c["relic"]
    f = feats(c)
    e = r["err"] + r["panic"]
    if c.get("size", 0) < 42 and "negative offset" in e:
        return "C17:FindDirectory:archive-shorter-than-42"
    if "archive-comment" in f and ("central directory not found" in e or "ZIP64 locator" in e):
        return "C17:FindDirectory:archive-comment"
    if "prefix" in f:
        return "C17:FindDirectory:prefix"
    if "missing ZIP64 header" in e:
        return "C17:ReadWithDirectory:zip64-extra-partial"
    if "gapcd" in f or "gap" in f:
        return "C17:FindDirectory:gap-before-directory"
    return "C17:read:" + (e[:40].replace(" ", "-") or "mismatch")


def oracle_archive(c, py, F, writer_output, rootkey=None):
    """c: case with go/relic/stream observations of one VALID archive; py: Python's view. Reports into F.
    Returns True when relic read the archive without any disagreement (used to decide what else can be judged)."""
    g, r = c["go"], c["relic"]
    if g["err"] or py["err"]:
        return False                      # a standard reader rejects it: nothing to agree with (counted by the caller)
    gm, pm = g["members"], py["members"]
    # the two standard readers must agree with each other before they are used as the reference
    if [m["name"] for m in gm] != [m["name"] for m in pm] or any(
            (a["csize"], a["usize"], a["crc"], a["sha256"]) != (b["csize"], b["usize"], b["crc"], b["sha256"]) for a, b in zip(gm, pm)):
        c["_refs_disagree"] = True
        return False
    if r["err"] or r["panic"]:
        F.add(rootkey() if rootkey else classify_read_failure(c), "standard readers list %d members; zipslicer.Read fails: %s" % (len(gm), (r["err"] + r["panic"])[:80]), c)
        return False
    rm = r["members"] or []
    if [m["name"] for m in rm] != [m["name"] for m in gm]:
        F.add("C17:read:member-list", "member names differ from archive/zip and zipfile", c)
        return False
    ok = True
    truth = truth_in_cd_order(c)
    contiguous = not ({"gap", "gapcd"} & feats(c))
    for i, (a, b, p) in enumerate(zip(rm, gm, pm)):
        nm = bytes.fromhex(a["name"]).decode("latin1")[:30]
        if (a["csize"], a["usize"]) != (b["csize"], b["usize"]):
            F.add("C17:read:sizes", "member %r sizes %s vs standard readers %s" % (nm, (a["csize"], a["usize"]), (b["csize"], b["usize"])), c)
            ok = False
        if a["off"] != p["off"]:
            F.add("C17:read:offset", "member %r offset %d vs zipfile %d" % (nm, a["off"], p["off"]), c)
            ok = False
        if a["crc0"] != b["crc"]:
            F.add("C17:read:crc", "member %r directory crc differs" % nm, c)
            ok = False
        # whole-entry length: ground truth of the harness writer, else what the readers' offsets imply
        want = truth[i]["total"] if truth and i < len(truth) else (boundaries(py, i) if contiguous else None)
        if a["total_err"]:
            key = "C17:readDataDesc:nosig" if "signature is missing" in a["total_err"] else "C17:GetTotalSize:" + a["total_err"][:30].replace(" ", "-")
            F.add(key, "member %r: GetTotalSize fails (%s) on an archive both standard readers accept" % (nm, a["total_err"]), c)
            ok = False
            continue
        if want is not None and a["total"] != want:
            key = dd64_key(a) if (a["usize"] == 0 and want - a["total"] == 8) else "C17:GetTotalSize:wrong-length"
            F.add(key, "member %r: GetTotalSize=%d (descriptor %d bytes) but the entry is %d bytes long" % (nm, a["total"], a["ddlen"], want), c)
            ok = False
        if a["crc"] != b["crc"]:
            F.add("C17:read:crc", "member %r crc after descriptor differs" % nm, c)
            ok = False
        if a["open_err"] or a["sha256"] != b["sha256"]:
            F.add("C17:read:contents", "member %r: contents differ from the standard readers (%s)" % (nm, a["open_err"]), c)
            ok = False
    # streaming mode must behave like random access
    if ok:
        for mode in ("stream", "stream_layout"):
            s = c[mode]
            bad = None
            if s["err"] or s["panic"]:
                bad = (s["err"] + s["panic"])[:80]
            else:
                sm = s["members"] or []
                if len(sm) != len(rm):
                    bad = (sm[-1]["total_err"] or sm[-1]["open_err"]) if sm else "no members"
                else:
                    for a, x in zip(rm, sm):
                        if x["total_err"] or x["open_err"] or x["total"] != a["total"] or (mode == "stream" and x["sha256"] != a["sha256"]):
                            bad = "member differs: %s %s" % (x["total_err"], x["open_err"])
                            break
            if bad:
                key = "C17:stream:differs-from-random-access"
                if "seek backwards" in bad and "cd-reordered" in feats(c):
                    key = "C17:stream:directory-order-differs-from-file-order"
                elif "seek backwards" in bad and any(a["flags"] & 8 and a["usize"] == 0 and a["ddlen"] == 16 and a["reader"] >= 45 for a in rm[:-1]):
                    # a real 16-byte descriptor of an empty member with version-needed >= 45: readDataDesc tries the 64-bit
                    # form first and thereby consumes 8 bytes of the next local header from the forward-only stream
                    key = "C17:stream:desc16-empty-version45-overread"
                F.add(key, "%s pass fails where random access succeeds: %s" % (mode, bad), c)
                ok = False
                break
    # re-serialising the unmodified directory must reproduce the original tail bytes
    zb = bytes.fromhex(c["zip"])
    tail = zb[r["dirloc"]:].hex()
    if not r["wd_err"] and not r["wd_panic"]:
        if not tail.startswith(r["wd_cd"]):
            F.add("C17:WriteDirectory:entries-not-reproduced", "re-emitted directory entries differ from the original bytes", c)
        elif r["wd_cd"] + r["wd_eod"] != tail or r["wd1"] != tail:
            F.add("C17:WriteDirectory:end-records-not-reproduced",
                  "unmodified directory: entries identical, end records differ (original %d bytes, re-emitted %d)" % (len(tail) // 2 - len(r["wd_cd"]) // 2, len(r["wd_eod"]) // 2), c)
    else:
        F.add("C17:WriteDirectory:fails", "WriteDirectory on an unmodified directory: %s%s" % (r["wd_err"], r["wd_panic"]), c)
    for k, trim in (("orig_false", False), ("orig_true", True)):
        o = r[k]
        if "nil pointer" in o["panic"]:
            F.add("C17:GetOriginalDirectory:nil-writer-panic", "GetOriginalDirectory(%s) panics: %s" % (trim, o["panic"]), c)
        elif "signature is missing" in o["err"]:
            F.add("C17:readDataDesc:nosig", "GetOriginalDirectory(%s) fails: %s" % (trim, o["err"]), c)
        elif o["panic"] or o["err"]:
            F.add("C17:GetOriginalDirectory:fails", "GetOriginalDirectory(%s): %s%s" % (trim, o["err"], o["panic"]), c)
        elif o["cd"] + o["eod"] != tail and not trim:
            F.add("C17:GetOriginalDirectory:not-original", "GetOriginalDirectory(false) differs from the original directory bytes", c)
    return ok


def writer_root_cause(c, src, srcpy):
    """attribute a bad relic-written archive to the defect that caused it (mis-measured member of the source, non-contiguous source)"""
    kind = c["kind"]
    # attribute to the reader defect when relic mis-measured a member of the source archive
    if src is not None and srcpy is not None and not srcpy["err"] and src.get("relic") and not (src["relic"]["err"] or src["relic"]["panic"]):
        sf = feats(src) | feats(c)
        rm = src["relic"]["members"] or []
        if len(rm) == len(srcpy["members"]):
            for i, a in enumerate(rm):
                if "signature is missing" in a["total_err"]:
                    return "C17:readDataDesc:nosig"
                if not ({"gap", "gapcd"} & sf) and not a["total_err"] and a["total"] != boundaries(srcpy, i):
                    return dd64_key(a) if a["usize"] == 0 and boundaries(srcpy, i) - a["total"] == 8 else "C17:GetTotalSize:wrong-length"
        if {"gap", "gapcd", "cd-reordered"} & sf:
            return "C17:AddFile:source-not-contiguous-in-directory-order"
    return "C17:writer:%s:output-unreadable" % kind


def oracle_writer(c, py, src, srcpy, F):
    """an archive relic wrote (mangle/jar/fresh) must be read by the standard readers as the expected member list"""
    kind = c["kind"]

    def root_cause():
        return writer_root_cause(c, src, srcpy)
    if not c.get("zip"):
        why = c.get("mangle_err", "") + c.get("mangle_panic", "") + c.get("jar_err", "") + c.get("fresh_err", "") + c.get("patch_err", "")
        if src is not None and src.get("valid", True) and src["go"]["err"] == "" and not (src["relic"]["err"] or src["relic"]["panic"]):
            F.add(root_cause(), "%s of a readable archive fails: %s" % (kind, why[:100]), c)
        return False
    g = c["go"]
    exp = c["expect"]
    if g["err"] or py["err"]:
        F.add(root_cause(), "%s output is rejected by the standard readers (archive/zip: %s; zipfile: %s)" % (kind, g["err"][:50], py["err"][:50]), c)
        return False
    for who, ms in (("archive/zip", g["members"]), ("zipfile", py["members"])):
        got = [(m["name"], m["sha256"], m["usize"]) for m in ms]
        want = [(e["name"], e["sha256"], e["usize"]) for e in exp]
        if got != want:
            bad = next((i for i, (a, b) in enumerate(zip(got, want)) if a != b), min(len(got), len(want)))
            F.add(root_cause(), "%s output: %s sees %d members, expected %d; first difference at index %d (%s)" % (
                kind, who, len(got), len(want), bad, (ms[bad]["err"] if bad < len(ms) else "missing")[:60]), c)
            return False
    return True


# ------------------------------------------------------------------ rewrites around the 4 GiB thresholds (driver c17layout)
class SparseFile(io.RawIOBase):
    """read-only file object over (offset, bytes) segments; everything else reads as zero; nothing big is ever allocated"""

    def __init__(self, size, segs):
        super().__init__()
        self.size = size
        self.segs = sorted((o, bytes.fromhex(h)) for o, h in segs)
        self.pos = 0

    def seekable(self):
        return True

    def readable(self):
        return True

    def tell(self):
        return self.pos

    def seek(self, off, whence=0):
        self.pos = off if whence == 0 else (self.pos + off if whence == 1 else self.size + off)
        if self.pos < 0:
            raise OSError("negative seek")
        return self.pos

    def read(self, n=-1):
        if n is None or n < 0:
            n = self.size - self.pos
        n = max(0, min(n, self.size - self.pos))
        if n > 1 << 27:
            raise OSError("sparse read of %d bytes refused" % n)
        buf = bytearray(n)
        a, b = self.pos, self.pos + n
        for o, d in self.segs:
            if o >= b:
                break
            if o + len(d) <= a:
                continue
            x, y = max(o, a), min(o + len(d), b)
            buf[x - a:y - a] = d[x - o:y - o]
        self.pos = b
        return bytes(buf)


def py_layout_view(out):
    """Python zipfile on a sparse archive: directory fields, plus the local header each entry points to"""
    fp = SparseFile(out["size"], out["segs"])
    try:
        zf = zipfile.ZipFile(fp)
    except Exception as e:
        return {"err": "%s: %s" % (type(e).__name__, e), "members": []}
    ms = []
    for zi in zf.infolist():
        enc = "utf-8" if zi.flag_bits & 0x800 else "cp437"
        m = {"name": zi.orig_filename.encode(enc, "replace").hex(), "off": zi.header_offset, "csize": zi.compress_size, "usize": zi.file_size,
             "crc": zi.CRC, "err": ""}
        try:
            fp.seek(zi.header_offset)
            h = fp.read(30)
            if len(h) != 30 or h[:4] != b"PK\x03\x04":
                m["err"] = "no local file header at offset %d" % zi.header_offset
            else:
                n = int.from_bytes(h[26:28], "little")
                if fp.read(n).hex() != m["name"]:
                    m["err"] = "local header at offset %d belongs to another member" % zi.header_offset
        except Exception as e:
            m["err"] = "%s: %s" % (type(e).__name__, e)
        ms.append(m)
    return {"err": "", "members": ms, "start_dir": zf.start_dir}


def zip64_records(wd_hex):
    """per directory entry of an emitted directory: how many extra records carry header id 0x0001 (model-free byte walk)"""
    b = bytes.fromhex(wd_hex)
    out, p = [], 0
    while p + 46 <= len(b) and b[p:p + 4] == b"PK\x01\x02":
        n, e, k = (int.from_bytes(b[p + 28 + 2 * i:p + 30 + 2 * i], "little") for i in range(3))
        x, q, cnt = b[p + 46 + n:p + 46 + n + e], 0, 0
        while q + 4 <= len(x):
            cnt += 1 if x[q:q + 2] == b"\x01\x00" else 0
            q += 4 + int.from_bytes(x[q + 2:q + 4], "little")
        out.append(cnt)
        p += 46 + n + e + k
    return out


def oracle_layout(c, py, F):
    """the archive relic wrote (pieces laid out physically by the harness + relic's directory) must be read by archive/zip,
    zipfile and relic itself as exactly the intended members at the offsets where their bytes are"""
    flow = c.get("flow", "free")
    exp = c.get("expect") or []
    if c.get("err") or c.get("panic") or "go" not in c:
        F.add("C17:rewrite:%s:fails" % flow, "rewrite of valid archives fails: %s%s" % (c.get("err", ""), c.get("panic", "")), c)
        return False
    want = [(e["name"], e["off"], e["csize"], e["usize"], e["crc"]) for e in exp]
    verdict = {}
    g = c["go"]
    if g["err"] or g.get("panic"):
        verdict["archive/zip"] = "rejects the archive: %s" % (g["err"] or g.get("panic"))
    else:
        got = [(m["name"], (m["dataoff"] - e["lfhlen"]) if m["dataoff"] >= 0 else None, m["csize"], m["usize"], m["crc"]) for m, e in zip(g["members"], exp)]
        if len(g["members"]) != len(exp) or got != want:
            i = next((i for i, (a, b) in enumerate(zip(got, want)) if a != b), min(len(got), len(want)))
            verdict["archive/zip"] = "member %d %r: %s" % (i, bytes.fromhex(want[i][0]).decode("latin1") if i < len(want) else "?",
                                                          (g["members"][i]["err"] or "reads (offset,csize,usize,crc)=%s, member is at %s" % (got[i][1:], want[i][1:])) if i < len(got) and i < len(want) else "member count %d, expected %d" % (len(got), len(want)))
    if py["err"]:
        verdict["zipfile"] = "rejects the archive: %s" % py["err"]
    else:
        got = [(m["name"], m["off"], m["csize"], m["usize"], m["crc"]) for m in py["members"]]
        bad = next((i for i, m in enumerate(py["members"]) if m["err"]), None)
        if got != want:
            i = next((i for i, (a, b) in enumerate(zip(got, want)) if a != b), min(len(got), len(want)))
            verdict["zipfile"] = "member %d: reads (offset,csize,usize,crc)=%s, member is at %s" % (i, got[i][1:] if i < len(got) else None, want[i][1:] if i < len(want) else None)
        elif bad is not None:
            verdict["zipfile"] = "member %d: %s" % (bad, py["members"][bad]["err"])
    r = c["relic"]
    if r["err"] or r["panic"]:
        verdict["zipslicer"] = "cannot read its own output: %s%s" % (r["err"], r["panic"])
    else:
        got = [(m["name"], m["off"], m["csize"], m["usize"], m["crc0"]) for m in r["members"]]
        bad = next((i for i, m in enumerate(r["members"]) if m["total_err"] or m.get("panic")), None)
        if got != want:
            i = next((i for i, (a, b) in enumerate(zip(got, want)) if a != b), min(len(got), len(want)))
            verdict["zipslicer"] = "member %d: reads (offset,csize,usize,crc)=%s, member is at %s" % (i, got[i][1:] if i < len(got) else None, want[i][1:] if i < len(want) else None)
        elif bad is not None:
            verdict["zipslicer"] = "member %d: %s" % (bad, r["members"][bad]["total_err"] or r["members"][bad].get("panic"))
    if c.get("wd2") is not None and not c.get("wd2_err") and c["wd2"] != c.get("wd1"):
        # re-serialising the unmodified Directory must reproduce the bytes (lib/signappx digests the first output, writes the second)
        F.add("C17:WriteDirectory:second-call-differs", "%s [%s]: a second WriteDirectory on the same Directory emits %d bytes, the first %d" % (
            flow, c.get("sub", "")[:90], len(c["wd2"]) // 2, len(c["wd1"]) // 2), c)
    if not verdict:
        return True
    c["_verdict"] = verdict
    # which field of which member is wrong, by the readers that do list the members
    wrong = set()
    for got in ([(m["name"], (m["dataoff"] - e["lfhlen"]) if m["dataoff"] >= 0 else None, m["csize"], m["usize"], m["crc"]) for m, e in zip(g["members"], exp)] if not g["err"] else [],
                [(m["name"], m["off"], m["csize"], m["usize"], m["crc"]) for m in py["members"]],
                [(m["name"], m["off"], m["csize"], m["usize"], m["crc0"]) for m in (r["members"] or [])]):
        for a, b in zip(got, want):
            if a[0] != b[0]:
                wrong.add("names")
            elif a[1] != b[1]:
                wrong.add("offset")
            elif a[2:4] != b[2:4]:
                wrong.add("sizes")
            elif a[4] != b[4]:
                wrong.add("crc")
        if got and len(got) != len(want):
            wrong.add("names")
    if set(verdict) == {"zipfile"} and max(zip64_records(c.get("wd1", "")) or [0]) > 1:
        # the entry relic rebuilt keeps the ZIP64 record of the cached original behind the new one; zipfile consults every
        # record when a value equals 0xffffffff exactly
        key = "C17:GetDirectoryHeader:stale-zip64-record-kept"
    elif "offset" in wrong or any("local" in v for v in verdict.values()):
        key = "C17:rewrite:%s:member-offset" % flow
    elif "sizes" in wrong:
        key = "C17:rewrite:%s:member-sizes" % flow
    elif wrong:
        key = "C17:rewrite:%s:member-%s" % (flow, sorted(wrong)[0])
    else:
        key = "C17:rewrite:%s:directory-unreadable" % flow
    F.add(key, "%s [%s]: %s" % (flow, c.get("sub", "")[:90], "; ".join("%s %s" % kv for kv in sorted(verdict.items()))), c)
    return False


def layout_model_vals(c):
    srcs = [[s["size"], [[o, Hex(h)] for o, h in s["segs"]]] for s in c["sources"]]
    def nf(o):
        return [0, Hex(o[1]), Hex(o[2])] + list(o[3:9]) + [bool(o[9])]
    if c.get("flow") == "mangle":
        return [6, srcs[0], [bool(x) for x in c["delete_flags"]], [nf(o) for o in c.get("model_news") or []], bool(c["force64"])]
    return [5, srcs, [nf(o) if o[0] == 0 else list(o) for o in c.get("model_ops") or []], bool(c["force64"])]


def compare_layout(c, o):
    """model (generated AddFile / GetDirectoryHeader / WriteDirectory bodies) vs the real code on one layout case"""
    diffs = []
    if tuple(o[0]) != (0, 0):
        return ["model status %s, relic wrote a directory" % (o[0],)]
    if o[1] != c["dirloc"]:
        diffs.append("DirLoc model %d relic %d" % (o[1], c["dirloc"]))
    if str(o[2]) + str(o[3]) != c["wd1"]:
        diffs.append("WriteDirectory bytes differ (model %d bytes, relic %d)" % ((len(str(o[2])) + len(str(o[3]))) // 2, len(c["wd1"]) // 2))
    if c.get("wd2") is not None and not c.get("wd2_err") and str(o[4]) + str(o[5]) != c["wd2"]:
        diffs.append("second WriteDirectory bytes differ")
    want = [[e["name"], e["off"], e["csize"], e["usize"], e["crc"]] for e in c["expect"]]
    for idx, what in ((6, "APPNOTE reader (Coq) on the model's directory"), (7, "APPNOTE reader (Coq) on the second directory"),
                      (8, "zipfile-style reader (Coq) on the model's directory")):
        v = o[idx]
        got = [[str(x) if isinstance(x, Hex) else x for x in e] for e in v[1]] if v[0] == 1 else None
        if got != want and not (idx == 7 and c.get("wd2") is None):
            diffs.append("%s does not yield the intended members" % what)
    got = [[str(x) if isinstance(x, Hex) else x for x in e] for e in o[9]]
    if got != want:
        diffs.append("model's intended list differs from the harness ground truth")
    if c.get("flow") == "mangle" and c.get("patches") is not None:
        # binpatch coalesces adjacent patches and splits those above 4 GiB: compare the replaced byte ranges as merged intervals
        def merged(rs):
            out = []
            for a, n in sorted(rs):
                if n <= 0:
                    continue
                if out and a <= out[-1][1]:
                    out[-1][1] = max(out[-1][1], a + n)
                else:
                    out.append([a, a + n])
            return out
        cuts = merged([[a, b] for a, b in o[10]] + [[o[11], c["sources"][0]["size"] - o[11]]])
        rel = merged([[p[0], p[1]] for p in c["patches"]])
        if cuts != rel:
            diffs.append("replaced ranges of the source differ: model %s relic %s" % (cuts[:4], rel[:4]))
    return diffs


# ------------------------------------------------------------------ correspondence with the Coq model
def rd_val(c):
    if c.get("segs") is not None:
        return [c["size"], [[o, Hex(h)] for o, h in c["segs"]]]
    return [c["size"], [[0, Hex(c["zip"])]]]


def member_val(m):
    return [Hex(m["name"]), Hex(m["lextra"]), Hex(m["cextra"]), Hex(m["comment"]), m["creator"], m["reader"], m["flags"], m["method"],
            m["mtime"], m["mdate"], m["crc"], Hex(m["cdata"]), m["usize"], m["iattrs"], m["eattrs"], m["disk"], m["desc"],
            m["lz64"], m["satu"], m["satc"], m["sato"], m["z64last"]]


def opts_val(o, n):
    order = o.get("cdorder") or []
    if order == list(range(n)):
        order = []
    gaps = o.get("gaps") or []
    if not any(gaps):
        gaps = []
    return [Hex(o["prefix"]), Hex(o["comment"]), o["zip64end"], o["e64creator"], o["e64reader"], [Hex(g) for g in gaps], Hex(o["gapcd"]), order]


def newfile_val(w):
    return [Hex(w["name"]), Hex(w.get("extra", "")), Hex(w["cdata"]), w["usize"], w["crc"], w["method"], w.get("mtime", 0), w.get("mdate", 0), bool(w["usedesc"])]


def compare_read(c, out):
    """model output of run_read vs relic's observations; returns list of difference descriptions"""
    r = c["relic"]
    diffs = []
    want = status_of(r["err"], r["panic"])
    got = tuple(out[0])
    if got != want:
        return ["Read status: model %s, relic %s (%s)" % (got, want, (r["err"] + r["panic"])[:60])]
    if want != (0, 0):
        return []
    if out[1] != r["dirloc"]:
        diffs.append("DirLoc model %d relic %d" % (out[1], r["dirloc"]))
    rm = r["members"] or []
    if len(out[2]) != len(rm):
        return diffs + ["member count model %d relic %d" % (len(out[2]), len(rm))]
    for i, (mv, a) in enumerate(zip(out[2], rm)):
        relv = [a["name"], a["off"], a["csize"], a["usize"], a["crc0"], a["method"], a["flags"], a["reader"], a["creator"], a["extra"], a["comment"]]
        if [str(x) if isinstance(x, Hex) else x for x in mv] != relv:
            diffs.append("member %d fields model %s relic %s" % (i, str(mv)[:150], str(relv)[:150]))
        sv = out[3][i]
        ws = status_of(a["total_err"], a.get("panic", ""))
        if tuple(sv[:2]) != ws:
            diffs.append("member %d GetTotalSize status model %s relic %s (%s)" % (i, sv[:2], ws, a["total_err"]))
        elif ws == (0, 0) and sv[2:6] != [a["total"], a["ddlen"], a["crc"], a["lfhlen"]]:
            diffs.append("member %d (total,ddlen,crc,lfhlen) model %s relic %s" % (i, sv[2:6], [a["total"], a["ddlen"], a["crc"], a["lfhlen"]]))
    nx = out[4]
    wn = status_of(r["next_err"], r.get("next_panic", ""))
    # (after a failed GetTotalSize relic keeps half-initialised state and a second call "succeeds"; only compare clean runs)
    if rm and rm[-1]["total_err"]:
        pass
    elif tuple(nx[:2]) != wn or (wn == (0, 0) and nx[2] != r["next"]):
        diffs.append("NextFileOffset model %s relic %s/%s" % (nx, r["next"], r["next_err"]))
    wd = out[5]
    ww = status_of(r["wd_err"], r["wd_panic"])
    if tuple(wd[:2]) != ww or (ww == (0, 0) and (str(wd[2]), str(wd[3])) != (r["wd_cd"], r["wd_eod"])):
        diffs.append("WriteDirectory differs (model status %s, relic %s)" % (wd[:2], ww))
    if not (r.get("wd1_err") or r.get("wd1_panic")) and ww == (0, 0) and tuple(wd[:2]) == (0, 0) and str(wd[2]) + str(wd[3]) != r["wd1"]:
        diffs.append("WriteDirectory(w,w) differs")
    for idx, k in ((6, "orig_false"), (7, "orig_true")):
        o = r[k]
        wo = status_of(o["err"], o["panic"])
        if tuple(out[idx][:2]) != wo:
            diffs.append("GetOriginalDirectory %s: model %s relic %s" % (k, out[idx][:2], wo))
        elif wo == (0, 0) and (str(out[idx][2]), str(out[idx][3])) != (o["cd"], o["eod"]):
            diffs.append("GetOriginalDirectory %s: bytes differ" % k)
    # streaming layout pass: per-file results until the first failure
    s = c["stream_layout"]
    if not (s["err"] or s["panic"]):
        sm = s["members"] or []
        ms = out[8]
        if len(ms) != len(sm):
            diffs.append("streaming pass length model %d relic %d" % (len(ms), len(sm)))
        else:
            for i, (mv, a) in enumerate(zip(ms, sm)):
                ws = status_of(a["total_err"])
                if tuple(mv[:2]) != ws or (ws == (0, 0) and mv[2] != a["total"]):
                    diffs.append("streaming member %d model %s relic %s/%s" % (i, mv[:3], a["total"], a["total_err"]))
                    break
    return diffs


def run(ctx, replay=None):
    st = ctx.prepare(["C17_gen"], ["C17"], "C17.Run")
    fp = ["lib/zipslicer"]
    trusted = ["srcgen translator (constants, wire-struct layouts, branch conditions, serialised struct literals of lib/zipslicer)",
               "correspondence harness cmd/drv-c17 (real zipslicer Read/ReadZipTar/GetTotalSize/WriteDirectory/GetOriginalDirectory/Mangle/NewFile/AddFile/Truncate)",
               "whole-body translations of AddFile / GetDirectoryHeader / WriteDirectory loop by srcgen (state passing; any statement outside the translated forms is a broken tie)",
               "Go archive/zip and Python zipfile as the standard readers; compress/flate, hash/crc32 (library functions, not modelled)",
               "harness-owned zip writer (validated on every archive by archive/zip and zipfile and against the Coq APPNOTE builder)"]
    if not st["harness_ok"]:
        ctx.proof_verdict()
        return ctx.finish("proof", ctx.proof_coverage(trusted, fp), [])
    # ---------------------------------------------------------------- run the implementation
    if replay:
        rc, out, err = ctx.drv(["c17replay", replay])
        big_out, lay_out = "", ""
    else:
        rc, out, err = ctx.drv(["c17"], timeout=900)
        rcb, big_out, errb = ctx.drv(["c17big"], timeout=600)
        if rcb != 0:
            ctx.violation("C17:driver-crash", "driver c17big failed: " + errb[-300:], {"stderr": errb[-2000:]}, False)
        rcl, lay_out, errl = ctx.drv(["c17layout"], timeout=600)
        if rcl != 0:
            ctx.violation("C17:driver-crash", "driver c17layout failed: " + errl[-300:], {"stderr": errl[-2000:]}, False)
    if rc != 0:
        ctx.violation("C17:driver-crash", "driver failed: " + err[-400:], {"stderr": err[-2000:]}, False)
    if "WRITER SELFCHECK FAILED" in err:
        ctx.violation("C17:harness-writer", "harness zip writer disagrees with archive/zip: " + err[:300], {"stderr": err[-2000:]}, False)
    cases = [json.loads(l) for l in out.splitlines() if l.strip()]
    big = [json.loads(l) for l in big_out.splitlines() if l.strip()]
    layout = [c for c in cases if c["kind"] == "layout"] + [json.loads(l) for l in lay_out.splitlines() if l.strip()]
    cases = [c for c in cases if c["kind"] != "layout"]
    byid = {c["id"]: c for c in cases}
    F = Findings()
    pyv = {}
    stats = {"valid_archives": 0, "relic_agrees": 0, "refs_reject": 0, "refs_disagree": 0, "writer_outputs": 0, "writer_ok": 0,
             "malformed": 0, "malformed_panics": 0, "big": len(big), "truncate_obs": 0}
    kinds = {}
    featc = {}
    # ---------------------------------------------------------------- model-free oracle
    stats["layout"] = len(layout)
    stats["layout_ok"] = 0
    stats["layout_second_write_differs"] = 0
    for c in layout:
        kinds["layout:" + c.get("flow", "")] = kinds.get("layout:" + c.get("flow", ""), 0) + 1
        py = py_layout_view(c["out"]) if c.get("out") else {"err": "no output", "members": []}
        c["py"] = py
        if oracle_layout(c, py, F):
            stats["layout_ok"] += 1
        if c.get("wd2") is not None and c.get("wd1") != c.get("wd2"):
            stats["layout_second_write_differs"] += 1
    for c in cases:
        kinds[c["kind"]] = kinds.get(c["kind"], 0) + 1
        for f in c.get("features") or []:
            featc[f] = featc.get(f, 0) + 1
        if c.get("truncate"):
            stats["truncate_obs"] += len(c["truncate"])
        if not c.get("zip"):
            if c["kind"] in ("mangle", "mangle2", "jar", "fresh"):
                src = byid.get(c.get("src"))
                if src is None or src["kind"] == "gen" or src.get("_ok"):
                    oracle_writer(c, None, src, pyv.get(c.get("src")), F)
            continue
        zb = bytes.fromhex(c["zip"])
        if c["kind"] == "malformed":
            stats["malformed"] += 1
            stats["malformed_panics"] += 1 if c["relic"]["panic"] else 0
            continue
        py = pyv[c["id"]] = py_view(zb)
        c["py"] = {"err": py["err"], "n": len(py["members"])}
        if c["kind"] in ("gen", "probe"):
            stats["valid_archives"] += 1
            if c["go"]["err"] or py["err"]:
                stats["refs_reject"] += 1
            if c.get("truth") and not py["err"] and not (feats(c) & {"prefix"}):
                # the writer's ground truth is what the standard readers see
                tl = truth_in_cd_order(c)
                for i, p in enumerate(py["members"]):
                    t = tl[i] if i < len(tl) else None
                    if t is None or (t["off"], t["csize"], t["usize"], t["crc"], t["sha256"]) != (p["off"], p["csize"], p["usize"], p["crc"], p["sha256"]):
                        F.add("C17:harness-writer", "harness ground truth differs from zipfile for member %s" % p["name"][:20], c, False)
                        break
            if oracle_archive(c, py, F, False):
                stats["relic_agrees"] += 1
            if c.get("_refs_disagree"):
                stats["refs_disagree"] += 1
        else:
            stats["writer_outputs"] += 1
            src = byid.get(c.get("src"))
            if src is not None and src["kind"] != "gen" and not src.get("_ok"):
                stats["skipped_broken_source"] = stats.get("skipped_broken_source", 0) + 1
                continue
            okw = oracle_writer(c, py, src, pyv.get(c.get("src")), F)
            # relic must read back what it wrote exactly like the standard readers
            okr = oracle_archive(c, py, F, True, lambda: writer_root_cause(c, src, pyv.get(c.get("src")))) if okw else False
            c["_ok"] = okw and okr
            if okw and okr:
                stats["writer_ok"] += 1
    for c in big:
        g, r = c["go"], c["relic"]
        if g["err"]:
            stats["refs_reject"] += 1
            continue
        if r["err"] or r["panic"]:
            F.add(classify_read_failure(c), ">=4GiB archive (sparse): archive/zip lists %d members; zipslicer.Read fails: %s" % (len(g["members"]), r["err"] + r["panic"]), c)
            continue
        tl = truth_in_cd_order(c)
        for i, (a, b) in enumerate(zip(r["members"] or [], g["members"])):
            t = tl[i] if i < len(tl) else {}
            if (a["name"], a["csize"], a["usize"], a["crc0"]) != (b["name"], b["csize"], b["usize"], b["crc"]) or a["off"] != t.get("off"):
                F.add("C17:read:big-member", ">=4GiB archive: member fields differ from archive/zip / layout", c)
            elif a["total_err"] or a["total"] != t.get("total"):
                F.add("C17:GetTotalSize:big", ">=4GiB archive: GetTotalSize %s %s, entry is %s bytes" % (a["total"], a["total_err"], t.get("total")), c)
    # ---------------------------------------------------------------- model correspondence
    evaluated, mism = 0, []
    if st["model_ok"]:
        try:
            # (a) reader model on every archive (valid, malformed, relic-written, sparse)
            rcases = [c for c in cases if c.get("zip")] + big
            outs = ctx.run_model([[0, rd_val(c)] for c in rcases])
            evaluated += len(outs)
            for c, o in zip(rcases, outs):
                if c["kind"] == "big":
                    c = dict(c, stream_layout={"err": "skip", "panic": "", "members": []})
                    for k in ("orig_false", "orig_true"):
                        c["relic"].setdefault(k, {"err": "", "panic": "nil pointer", "cd": "", "eod": ""})
                d = compare_read(c, o)
                if d:
                    mism.append(("read", c, d))
            # (b) Coq APPNOTE builder vs the harness writer, and its view vs the ground truth
            gcases = [c for c in cases if c["kind"] == "gen" and c.get("spec")]
            outs = ctx.run_model([[2, [member_val(m) for m in c["spec"]["members"]], opts_val(c["spec"]["opts"], len(c["spec"]["members"]))] for c in gcases])
            evaluated += len(outs)
            for c, o in zip(gcases, outs):
                if str(o[0]) != c["zip"]:
                    mism.append(("build", c, ["Coq APPNOTE builder output differs from the harness writer's archive"]))
                    continue
                tm = c["truth"]["members"]
                order = c["spec"]["opts"].get("cdorder") or list(range(len(tm)))
                want = [[tm[i]["name"], tm[i]["off"], tm[i]["csize"], tm[i]["usize"], tm[i]["crc"], tm[i]["total"], tm[i]["ddlen"]] for i in order]
                got = [[str(x) if isinstance(x, Hex) else x for x in v] for v in o[1]]
                if got != want:
                    mism.append(("view", c, ["Coq spec view differs from the writer's ground truth"]))
            # (c) writer model: fresh archives and mangled archives byte for byte
            fcases = [c for c in cases if c["kind"] == "fresh" and c.get("zip") and c.get("writer_inputs") is not None]
            outs = ctx.run_model([[3, [newfile_val(w) for w in c["writer_inputs"]], bool(c["ops"]["force64"])] for c in fcases])
            evaluated += len(outs)
            for c, o in zip(fcases, outs):
                if str(o[0]) != c["zip"]:
                    mism.append(("fresh", c, ["model NewFile*/WriteDirectory bytes differ from relic's"]))
            mcases = [c for c in cases if c["kind"] in ("mangle", "mangle2") and c.get("zip") and c.get("writer_inputs") is not None
                      and not c.get("writer_inputs_err") and (c.get("src_zip") or (byid.get(c["src"]) or {}).get("zip"))]
            outs = ctx.run_model([[4, rd_val({"size": len(c.get("src_zip") or byid[c["src"]]["zip"]) // 2, "zip": c.get("src_zip") or byid[c["src"]]["zip"]}),
                                   [bool(x) for x in (c["ops"].get("delete_flags") or [])],
                                   [newfile_val(w) for w in c["writer_inputs"]], bool(c["ops"]["force64"])] for c in mcases])
            evaluated += len(outs)
            for c, o in zip(mcases, outs):
                if tuple(o[0]) != (0, 0) or str(o[1]) != c["zip"]:
                    mism.append(("mangle", c, ["model Mangle/NewFile/MakePatch result differs from relic's (model status %s)" % (o[0],)]))
            # (d) layout-level writer: generated bodies of AddFile / GetDirectoryHeader / WriteDirectory loop, Mangle, and the Coq APPNOTE reader
            # (directories of more than 3000 entries are judged by the three readers only: the extracted list model is quadratic there)
            lcases = [c for c in layout if c.get("wd1") is not None and not c.get("err") and not c.get("panic") and len(c.get("expect") or []) <= 3000]
            outs = ctx.run_model([layout_model_vals(c) for c in lcases])
            evaluated += len(outs)
            for c, o in zip(lcases, outs):
                d = compare_layout(c, o)
                if d:
                    mism.append(("layout", c, d))
        except RuntimeError as e:
            ctx.violation("C17:model-eval", str(e)[-300:], {"output": str(e)}, False)

    # ---------------------------------------------------------------- verdicts
    def slim(c):
        d = {k: v for k, v in c.items() if k not in ("py", "_refs_disagree", "_ok")}
        if c["kind"] == "layout":
            d = {k: v for k, v in c.items() if k not in ("py", "out", "go", "relic")}
            d["zipfile"] = c.get("py")
        if c.get("src") is not None and c["src"] in byid and c["kind"] in ("mangle", "mangle2"):
            s = byid[c["src"]]
            d["src_zip"] = s.get("zip", "")
            d["src_expect"] = s.get("expect") or [{"name": m["name"], "sha256": m["sha256"], "usize": m["usize"]} for m in (s.get("truth") or {}).get("members", [])]
        return d
    for key, (n, size, detail, case, found, extra) in sorted(F.by_key.items()):
        ctx.violation(key, "%s [%d cases; smallest input %s bytes, kind %s, %s]" % (detail, n, case.get("size"), case["kind"], case.get("sub", "")[:60]),
                      {"cases": [slim(case)], "occurrences": n}, found)
    if mism and not any(v[2] for v in ctx.violations):
        what, c, d = mism[0]
        ctx.violation("C17:correspondence:" + what, "model and implementation disagree on %d cases (first: %s); no property violation found on them" % (len(mism), d[0][:160]),
                      {"cases": [slim(c)], "differences": d[:10], "broken": "correspondence C17.Run." + what}, False)
    elif mism:
        ctx.notes.append("model/implementation differences on %d cases (first: %s %s)" % (len(mism), mism[0][0], mism[0][2][0][:120]))
    if not st["proofs_ok"] and any(v[2] for v in ctx.violations):
        # concrete failing inputs exist, but they need not be caused by what broke the proofs: name the broken obligations too
        what = st["broken"] or st["hygiene"] or [t for t, v in st["built"].items() if not v] or ["no theorems found"]
        ctx.violation("C17:proof", "proof obligations no longer check: %s (failing inputs found by the oracle are reported under their own keys)" % (what,),
                      {"broken": what, "coq_log_tail": (ctx.coq or {}).get("log_tail", "")[-2500:]}, False)
    ctx.proof_verdict()
    cov = ctx.proof_coverage(trusted, fp)
    nontrivial = len({hashlib.sha256(c["zip"].encode()).hexdigest() for c in cases if c.get("zip") and c["kind"] != "malformed" and (c["go"]["members"] or [])})
    samples = [{"kind": c["kind"], "sub": c.get("sub", "")[:80], "size": c.get("size"), "features": c.get("features"),
                "relic_err": (c.get("relic") or {}).get("err"), "members": len((c.get("go") or {}).get("members") or [])} for c in cases[40:43] + cases[-400:-398]]
    nontrivial += len({hashlib.sha256((c.get("wd1") or "").encode() + json.dumps(c.get("expect")).encode()).hexdigest() for c in layout if c.get("wd1")})
    samples += [{"kind": "layout", "flow": c.get("flow"), "sub": c.get("sub", "")[:100], "size": c.get("size"), "members": len(c.get("expect") or [])}
                for c in layout[3:5] + layout[-2:]]
    cov.update({"evaluations": evaluated, "distinct_nontrivial": nontrivial,
                "rule": "harness-owned APPNOTE writer: exhaustive descriptor-variant x size x method cross product, all 8 ZIP64 saturation masks, "
                        "name/extra/comment length boundaries, archive comment/prefix/gaps/reordered directory, forced ZIP64 end records + seeded random archives (0-40 members); "
                        "every archive read by archive/zip, zipfile, relic random-access, relic streaming; relic writer: Mangle/NewFile/MakePatch twice, JAR-style AddFile rewrite, "
                        "fresh NewFile archives; sparse >=4GiB layouts; malformed stream for model correspondence only; rewrites on sparse sources (driver c17layout): "
                        "members just below / at / above offset 0xffffffff before and after re-indexing, upwards (new members of every size class or a 4 GiB donor in front) and "
                        "downwards (small or 4 GiB members dropped), cached raw entries with / without ZIP64 record (APPNOTE, Go-writer and forced styles), sizes at 2^32-1, "
                        "DirLoc at the threshold, Directory API and Mangle/MakePatch, random sequences; judged by archive/zip, zipfile and relic on the physically assembled "
                        "archive. non-trivial = distinct valid archives with >=1 member + distinct rewritten directories",
                "samples": samples, "exhaustive": False, "input_distribution": kinds, "feature_counts": featc, "oracle_stats": stats,
                "model_mismatches": len(mism), "findings_by_key": {k: v[0] for k, v in F.by_key.items()}})
    return ctx.finish("proof", cov, ["deflate/inflate and CRC-32 are library functions (contents compared by sha256 against archive/zip and zipfile)",
                                     "bytes.Reader / os.File ReadAt semantics as modelled by rd_bytes (short read = error)",
                                     "theorems cover the explicit class K stated in C17/Properties.v; outside it the check relies on the differential oracle",
                                     "rewrite theorem (rewrite_directory_spec_read): cached raw entries are assumed to be read by the APPNOTE reader as the File's fields (raw_ok; proved for entries relic wrote itself, checked on every harness case by running the Coq reader on the emitted directory)"])
