# FMTCAT — format module for the small signers that had no unit: signers/cat (re-signing a Windows security catalog), signers/pkcs
# (+ the pkcs7 builder entry points: detached / attached PKCS#7 over arbitrary content, the --content verification path),
# signers/cosign (simple-signing payload, OCI signature manifest) and signers/rpm (relic's own part: the patch over lead + signature
# header, the verify report; go-rpmutils is third party and modelled as observed), plus the clauses of lib/magic.Detect that route
# files to them.  Serves C01 C02 C03 C05 C08 C11 through body(ctx); run(ctx) is the standalone entry (bin/check FMTCAT).
#
# The oracles below are written from the specifications (X.690 DER, RFC 5652 sections 5.3 - 5.6, PKCS#1 v1.5, RFC 4648, RFC 8259,
# RFC 4880 section 5.2.4, the rpm.org package format, the cosign signature specification / containers-signature(5)); they never
# look at the model.  openssl (cms / smime / dgst) and gpgv are second, external opinions, capability-probed.
import base64, hashlib, json, os, shutil, subprocess
from vlib.common import Hex, REPO

ASPECT_THEOREMS = {
    "C01": ["cat_sign_then_verify", "cat_refuses_clean", "pkcs_attached_verify_roundtrip", "pkcs_detached_verify_roundtrip", "pkcs_builder_refuses",
            "cosign_signature_over_payload", "cosign_refuses_clean", "cosign_signs_signable", "rpm_law_extract", "rpm_law_hashin", "rpm_sign_then_verify",
            "rpm_refuses_clean", "srv_sign_dispatch_spec", "magic_detect_spec", "magic_routes_catalog", "magic_routes_every_catalog_refuted"],
    "C02": ["pkcs_attached_verify_roundtrip", "pkcs_detached_verify_roundtrip", "rpm_protect"],
    "C03": ["cat_content_preserved", "rpm_law_payload", "rpm_only_signature_header_differs"],
    "C05": ["cat_digest_is_econtent_octets", "cat_no_signed_attributes", "pkcs_digest_is_content", "cosign_payload_spec", "cosign_digest_wellformed",
            "cosign_base64_roundtrip", "hex_roundtrip", "json_roundtrip", "cosign_signature_over_payload", "rpm_header_digest_spec"],
    "C08": ["cat_content_preserved", "cat_resign_replaces", "cat_hashin_ignores_signature", "cms_is_signed_spec", "rpm_law_hashin", "rpm_resign_history", "rpm_is_signed_spec"],
    "C11": ["cosign_no_panic", "rpm_refuses_clean", "rpm_verify_report_total", "rpm_nevra_no_panic", "srv_sign_dispatch_spec", "magic_detect_spec"],
}

HASHES = {"sha1": (hashlib.sha1, "3021300906052b0e03021a05000414", "2b0e03021a", 3),
          "sha256": (hashlib.sha256, "3031300d060960864801650304020105000420", "608648016503040201", 5),
          "sha384": (hashlib.sha384, "3041300d060960864801650304020205000430", "608648016503040202", 6),
          "sha512": (hashlib.sha512, "3051300d060960864801650304020305000440", "608648016503040203", 7),
          "md5": (hashlib.md5, "3020300c06082a864886f70d020505000410", "2a864886f70d0205", 2)}
OID2HASH = {v[2]: k for k, v in HASHES.items()}
OID_DATA, OID_SIGNED, OID_CTL = "2a864886f70d010701", "2a864886f70d010702", "2b060104018237 0a01".replace(" ", "")
OID_ATTR_CT, OID_ATTR_MD = "2a864886f70d010903", "2a864886f70d010904"
FT = {"unknown": 0, "rpm": 1, "deb": 2, "pgp": 3, "pkcs7": 5, "cat": 10}


# ------------------------------------------------------------------ X.690 DER (strict: definite, minimal lengths; single-octet identifiers)
class DerError(Exception):
    pass


def der_hdr(b, i, end):
    if i + 2 > end:
        raise DerError("truncated header at %d" % i)
    tag = b[i]
    if tag & 0x1f == 0x1f:
        raise DerError("multi-octet identifier at %d" % i)
    l0 = b[i + 1]
    j = i + 2
    if l0 < 0x80:
        n = l0
    elif l0 == 0x80:
        raise DerError("indefinite length at %d" % i)
    else:
        k = l0 & 0x7f
        if j + k > end:
            raise DerError("truncated length at %d" % i)
        if b[j] == 0:
            raise DerError("length with leading zero at %d" % i)
        n = int.from_bytes(b[j:j + k], "big")
        if n < 0x80:
            raise DerError("non-minimal length at %d" % i)
        j += k
    if j + n > end:
        raise DerError("element at %d (%d content octets) exceeds its container" % (i, n))
    return tag, j, j + n


def der_kids(b, s, e):
    out, i = [], s
    while i < e:
        tag, bs, be = der_hdr(b, i, e)
        out.append((tag, i, bs, be))
        i = be
    return out


def der_one(b):
    ks = der_kids(b, 0, len(b))
    if len(ks) != 1:
        raise DerError("%d top-level elements" % len(ks))
    return ks[0]


# ------------------------------------------------------------------ RFC 5652 reader
def read_signed_data(b, allow_nul_padding=False):
    """strict RFC 5652 SignedData reader; returns a dict, raises DerError"""
    if allow_nul_padding:       # pkcs7.Unmarshal tolerates NUL bytes after the structure (and nothing else)
        tag, bs, be = der_hdr(b, 0, len(b))
        if b[be:].strip(b"\0"):
            raise DerError("trailing bytes other than NUL after the structure")
        b = b[:be]
    tag, hs, bs, be = der_one(b)
    if tag != 0x30:
        raise DerError("ContentInfo is not a SEQUENCE")
    top = der_kids(b, bs, be)
    if len(top) != 2 or top[0][0] != 6 or top[1][0] != 0xa0:
        raise DerError("ContentInfo shape")
    if b[top[0][2]:top[0][3]].hex() != OID_SIGNED:
        raise DerError("not signedData")
    w = der_kids(b, top[1][2], top[1][3])
    if len(w) != 1 or w[0][0] != 0x30:
        raise DerError("[0] does not hold exactly one SEQUENCE")
    f = der_kids(b, w[0][2], w[0][3])
    if len(f) < 4 or f[0][0] != 2 or f[1][0] != 0x31 or f[2][0] != 0x30:
        raise DerError("SignedData shape")
    sd = {"version": int.from_bytes(b[f[0][2]:f[0][3]], "big"), "digest_algs": [], "certs": [], "crls": False, "sis": []}
    for a in der_kids(b, f[1][2], f[1][3]):
        ak = der_kids(b, a[2], a[3])
        sd["digest_algs"].append(b[ak[0][2]:ak[0][3]].hex())
    eci = der_kids(b, f[2][2], f[2][3])
    if not eci or eci[0][0] != 6 or len(eci) > 2:
        raise DerError("EncapsulatedContentInfo shape")
    sd["eci_full"] = b[f[2][1]:f[2][3]]
    sd["eci_range"] = (f[2][1], f[2][3])
    sd["ectype"] = b[eci[0][2]:eci[0][3]].hex()
    sd["econtent"], sd["econtent_tag"], sd["econtent_full"] = None, None, None
    if len(eci) == 2:
        if eci[1][0] != 0xa0:
            raise DerError("eContent wrapper is not [0]")
        inner = der_kids(b, eci[1][2], eci[1][3])
        if len(inner) != 1:
            raise DerError("eContent [0] holds %d elements" % len(inner))
        sd["econtent_tag"] = inner[0][0]
        sd["econtent"] = b[inner[0][2]:inner[0][3]]       # RFC 5652 5.4: the content octets WITHOUT identifier and length octets
        sd["econtent_full"] = b[inner[0][1]:inner[0][3]]
    rest = f[3:]
    if rest and rest[0][0] == 0xa0:
        sd["certs"] = [b[c[1]:c[3]] for c in der_kids(b, rest[0][2], rest[0][3])]
        sd["certs_present"] = True
        rest = rest[1:]
    if rest and rest[0][0] == 0xa1:
        sd["crls"] = True
        rest = rest[1:]
    if len(rest) != 1 or rest[0][0] != 0x31:
        raise DerError("signerInfos missing")
    for s in der_kids(b, rest[0][2], rest[0][3]):
        k = der_kids(b, s[2], s[3])
        if len(k) < 5 or k[0][0] != 2 or k[1][0] != 0x30 or k[2][0] != 0x30:
            raise DerError("SignerInfo shape")
        si = {"full": b[s[1]:s[3]], "version": int.from_bytes(b[k[0][2]:k[0][3]], "big")}
        ias = der_kids(b, k[1][2], k[1][3])
        si["issuer"] = b[ias[0][1]:ias[0][3]]
        si["serial"] = int.from_bytes(b[ias[1][2]:ias[1][3]], "big", signed=True)
        si["serial_raw"] = b[ias[1][2]:ias[1][3]]
        da = der_kids(b, k[2][2], k[2][3])
        si["digest_alg"] = b[da[0][2]:da[0][3]].hex()
        si["digest_alg_params"] = b[da[1][1]:da[1][3]] if len(da) > 1 else b""
        j = 3
        si["signed_attrs"] = None
        if k[j][0] == 0xa0:
            si["signed_attrs"] = b[k[j][1]:k[j][3]]
            si["signed_attrs_kids"] = [(b[a[1]:a[3]]) for a in der_kids(b, k[j][2], k[j][3])]
            j += 1
        sa = der_kids(b, k[j][2], k[j][3])
        si["sig_alg"] = b[sa[0][2]:sa[0][3]].hex()
        si["sig_alg_params"] = b[sa[1][1]:sa[1][3]] if len(sa) > 1 else b""
        if k[j + 1][0] != 4:
            raise DerError("signature is not an OCTET STRING")
        si["signature"] = b[k[j + 1][2]:k[j + 1][3]]
        si["unsigned_attrs"] = len(k) > j + 2
        sd["sis"].append(si)
    return sd


def attr_values(attr_der):
    """(oid hex, [value elements]) of one Attribute"""
    t, hs, bs, be = der_one(attr_der)
    k = der_kids(attr_der, bs, be)
    vals = [attr_der[v[1]:v[3]] for v in der_kids(attr_der, k[1][2], k[1][3])]
    return attr_der[k[0][2]:k[0][3]].hex(), vals, attr_der[k[1][2]:k[1][3]], k[1][0]


def cert_info(der):
    t, hs, bs, be = der_one(der)
    tbs = der_kids(der, bs, be)[0]
    f = der_kids(der, tbs[2], tbs[3])
    i = 1 if f[0][0] == 0xa0 else 0
    serial = int.from_bytes(der[f[i][2]:f[i][3]], "big", signed=True)
    issuer = der[f[i + 2][1]:f[i + 2][3]]
    spki = der[f[i + 5][1]:f[i + 5][3]]
    sk = der_kids(der, f[i + 5][2], f[i + 5][3])
    alg = der_kids(der, sk[0][2], sk[0][3])
    info = {"serial": serial, "issuer": issuer, "spki": spki, "rsa": None}
    if der[alg[0][2]:alg[0][3]].hex() == "2a864886f70d010101":
        bits = der[sk[1][2] + 1:sk[1][3]]
        t2, h2, b2, e2 = der_one(bits)
        ne = der_kids(bits, b2, e2)
        info["rsa"] = (int.from_bytes(bits[ne[0][2]:ne[0][3]], "big"), int.from_bytes(bits[ne[1][2]:ne[1][3]], "big"))
    return info


class SigCheck:
    """signature verification: RSA PKCS#1 v1.5 by hand; ECDSA through `openssl dgst -verify` (capability-probed)"""

    def __init__(self, scratch):
        self.scratch = scratch
        self.openssl = shutil.which("openssl")
        self.n = 0

    def rsa(self, n, e, hname, msg, sig):
        hf, prefix = HASHES[hname][0], bytes.fromhex(HASHES[hname][1])
        k = (n.bit_length() + 7) // 8
        h = hf(msg).digest()
        want = b"\x00\x01" + b"\xff" * (k - 3 - len(prefix) - len(h)) + b"\x00" + prefix + h
        return len(sig) == k and pow(int.from_bytes(sig, "big"), e, n).to_bytes(k, "big") == want

    def ec(self, spki, hname, msg, sig):
        if not self.openssl:
            return None
        self.n += 1
        d = os.path.join(self.scratch, "ec%05d" % self.n)
        os.makedirs(d, exist_ok=True)
        pem = "-----BEGIN PUBLIC KEY-----\n" + base64.encodebytes(spki).decode() + "-----END PUBLIC KEY-----\n"
        open(os.path.join(d, "pub.pem"), "w").write(pem)
        open(os.path.join(d, "msg"), "wb").write(msg)
        open(os.path.join(d, "sig"), "wb").write(sig)
        p = subprocess.run([self.openssl, "dgst", "-" + hname, "-verify", os.path.join(d, "pub.pem"), "-signature", os.path.join(d, "sig"), os.path.join(d, "msg")],
                           stdout=subprocess.PIPE, stderr=subprocess.PIPE, timeout=60)
        shutil.rmtree(d, ignore_errors=True)
        return p.returncode == 0 and b"Verified OK" in p.stdout

    def verify(self, cert_der, hname, msg, sig):
        ci = cert_info(cert_der)
        if ci["rsa"]:
            return self.rsa(ci["rsa"][0], ci["rsa"][1], hname, msg, sig)
        return self.ec(ci["spki"], hname, msg, sig)


def cms_verify(sd, content, sigcheck, certs_extra=()):
    """RFC 5652 5.4 - 5.6 for every SignerInfo.  content: the octets to digest (eContent octets, or the external content).
    Returns (ok, why, details)."""
    if not sd["sis"]:
        return False, "no signer infos", {}
    certs = list(sd["certs"]) + list(certs_extra)
    last = {}
    for si in sd["sis"]:
        hname = OID2HASH.get(si["digest_alg"])
        if not hname:
            return False, "unknown digest algorithm " + si["digest_alg"], {}
        cert = None
        for c in certs:
            ci = cert_info(c)
            if ci["issuer"] == si["issuer"] and ci["serial"] == si["serial"]:
                cert = c
        if cert is None:
            return False, "signer certificate not in the bundle", {}
        if si["signed_attrs"] is not None:
            attrs = {}
            for a in si["signed_attrs_kids"]:
                oid, vals, _, _ = attr_values(a)
                attrs.setdefault(oid, []).append(vals)
            if len(attrs.get(OID_ATTR_MD, [])) != 1 or len(attrs[OID_ATTR_MD][0]) != 1:
                return False, "message-digest attribute missing or not single", {}
            md = attrs[OID_ATTR_MD][0][0]
            if md[0] != 4 or md[2:] != HASHES[hname][0](content).digest():
                return False, "message-digest attribute does not equal the digest of the content", {}
            if len(attrs.get(OID_ATTR_CT, [])) != 1 or len(attrs[OID_ATTR_CT][0]) != 1 or attrs[OID_ATTR_CT][0][0][2:].hex() != sd["ectype"]:
                return False, "content-type attribute missing or different from eContentType", {}
            msg = b"\x31" + si["signed_attrs"][1:]
        else:
            msg = content
        ok = sigcheck.verify(cert, hname, msg, si["signature"])
        if ok is None:
            return None, "no ECDSA verifier available", {}
        if not ok:
            return False, "signature value does not verify over the RFC 5652 5.4 preimage (%s, %d octets)" % (hname, len(msg)), {}
        last = {"hash": hname, "cert": cert, "signed_attrs": si["signed_attrs"] is not None}
    return True, "", last


# ------------------------------------------------------------------ RPM package format (rpm.org) reader
def rpm_split(f):
    """(lead, signature header incl. padding, header, payload) or raises ValueError"""
    if len(f) < 96 or f[:4] != b"\xed\xab\xee\xdb":
        raise ValueError("no lead")

    def hdr(b, i):
        if b[i:i + 4] != b"\x8e\xad\xe8\x01" or len(b) < i + 16:
            raise ValueError("bad header magic at %d" % i)
        il, dl = int.from_bytes(b[i + 8:i + 12], "big"), int.from_bytes(b[i + 12:i + 16], "big")
        n = 16 + 16 * il + dl
        if i + n > len(b):
            raise ValueError("header at %d exceeds the file" % i)
        return n, il, dl
    n, il, dl = hdr(f, 96)
    ns = n + (8 - n % 8) % 8
    if 96 + ns > len(f):
        raise ValueError("signature padding exceeds the file")
    m, _, _ = hdr(f, 96 + ns)
    return f[:96], f[96:96 + ns], f[96 + ns:96 + ns + m], f[96 + ns + m:]


def rpm_sig_area(f):
    """size of lead + padded signature header, or None"""
    if len(f) < 112 or f[:4] != b"\xed\xab\xee\xdb" or f[96:100] != b"\x8e\xad\xe8\x01":
        return None
    il, dl = int.from_bytes(f[104:108], "big"), int.from_bytes(f[108:112], "big")
    n = 16 + 16 * il + dl
    n += (8 - n % 8) % 8
    return 96 + n if 96 + n <= len(f) else None


def rpm_index(h):
    """{tag: (type, data bytes)} of one header structure"""
    il, dl = int.from_bytes(h[8:12], "big"), int.from_bytes(h[12:16], "big")
    store = h[16 + 16 * il:16 + 16 * il + dl]
    ents = []
    for i in range(il):
        e = h[16 + 16 * i:32 + 16 * i]
        ents.append((int.from_bytes(e[0:4], "big"), int.from_bytes(e[4:8], "big"), int.from_bytes(e[8:12], "big", signed=True), int.from_bytes(e[12:16], "big")))
    out = {}
    for tag, typ, off, cnt in ents:
        if typ == 7:
            out[tag] = (typ, store[off:off + cnt])
        elif typ in (6, 8, 9):
            end = off
            for _ in range(cnt):
                end = store.index(b"\0", end) + 1
            out[tag] = (typ, store[off:end])
        elif typ == 4:
            out[tag] = (typ, store[off:off + 4 * cnt])
        else:
            out[tag] = (typ, b"")
    return out


def pgp_packets(b):
    i = 0
    while i < len(b):
        t = b[i]
        i += 1
        if not t & 0x80:
            raise ValueError("bad packet tag")
        if t & 0x40:
            tag = t & 0x3f
            o1 = b[i]
            if o1 < 192:
                n, i = o1, i + 1
            elif o1 < 224:
                n, i = ((o1 - 192) << 8) + b[i + 1] + 192, i + 2
            elif o1 == 255:
                n, i = int.from_bytes(b[i + 1:i + 5], "big"), i + 5
            else:
                raise ValueError("partial length")
        else:
            tag, lt = (t >> 2) & 0xf, t & 3
            k = 1 << lt
            n = int.from_bytes(b[i:i + k], "big")
            i += k
        yield tag, b[i:i + n]
        i += n


PGP_HASH = {2: "sha1", 8: "sha256", 9: "sha384", 10: "sha512"}


def pgp_verify_binary_sig(sigbin, data, rsa_keys):
    """RFC 4880 5.2.4: one v4 signature packet of type 0x00 over `data`; RSA PKCS#1 v1.5"""
    pk = list(pgp_packets(sigbin))
    if len(pk) != 1 or pk[0][0] != 2:
        return False, "not exactly one signature packet"
    body = pk[0][1]
    if body[0] != 4 or body[1] != 0:
        return False, "version %d type %d" % (body[0], body[1])
    halg = body[3]
    hl = int.from_bytes(body[4:6], "big")
    hashed = body[:6 + hl]
    i = 6 + hl
    i += 2 + int.from_bytes(body[i:i + 2], "big")
    left16 = body[i:i + 2]
    i += 2
    if halg not in PGP_HASH:
        return False, "hash algorithm %d" % halg
    hname = PGP_HASH[halg]
    hf, prefix = HASHES[hname][0], bytes.fromhex(HASHES[hname][1])
    h = hf(data + hashed + b"\x04\xff" + len(hashed).to_bytes(4, "big")).digest()
    if h[:2] != left16:
        return False, "left 16 bits of the digest differ (signature is not over these bytes)"
    bits = int.from_bytes(body[i:i + 2], "big")
    s = int.from_bytes(body[i + 2:i + 2 + (bits + 7) // 8], "big")
    for n, e in rsa_keys:
        k = (n.bit_length() + 7) // 8
        want = b"\x00\x01" + b"\xff" * (k - 3 - len(prefix) - len(h)) + b"\x00" + prefix + h
        if pow(s, e, n).to_bytes(k, "big") == want:
            return True, hname
    return False, "RSA verification failure"


def pgp_rsa_pubkeys(armored):
    lines = [l.strip() for l in armored.decode().splitlines()]
    i = lines.index("") + 1
    b64 = ""
    while not lines[i].startswith("=") and not lines[i].startswith("-----END"):
        b64 += lines[i]
        i += 1
    keybin = base64.b64decode(b64)
    out = []
    for tag, body in pgp_packets(keybin):
        if tag in (6, 14) and body[0] == 4 and body[5] in (1, 3):
            bits = int.from_bytes(body[6:8], "big")
            k = (bits + 7) // 8
            n = int.from_bytes(body[8:8 + k], "big")
            j = 8 + k
            eb = int.from_bytes(body[j:j + 2], "big")
            e = int.from_bytes(body[j + 2:j + 2 + (eb + 7) // 8], "big")
            out.append((n, e))
    return out


# ------------------------------------------------------------------ helpers
def first_diff(a, b):
    n = min(len(a), len(b))
    for i in range(n):
        if a[i] != b[i]:
            return i
    return n


def cms_err_class(e):
    """class of a relic error text, comparable with the model's status"""
    if not e:
        return 0
    t = [("sequence truncated", 1), ("truncated tag or length", 1), ("data truncated", 1), ("indefinite length", 2), ("non-minimal length", 3),
         ("superfluous leading zeros", 3), ("length too large", 4), ("tags don't match", 6), ("trailing garbage", 8), ("zero length explicit tag", 9),
         ("explicit tag has no child", 9), ("not a security catalog", 101), ("failed signature self-check", 102)]
    for s, c in t:
        if s in e:
            return c
    return 99


class Tool:
    def __init__(self, scratch):
        self.scratch = scratch
        self.openssl = shutil.which("openssl")
        self.gpgv = shutil.which("gpgv")
        self.n = 0
        self.smime_other = None      # can `openssl smime -verify` digest non-data (Authenticode style) content?

    def tmp(self, name, data):
        self.n += 1
        p = os.path.join(self.scratch, "t%05d-%s" % (self.n, name))
        open(p, "wb").write(data)
        return p

    def cms_verify(self, sig, content=None):
        """openssl cms -verify (id-data content); returns (ok, text) or (None, why)"""
        if not self.openssl:
            return None, "openssl not installed"
        sp = self.tmp("sig.der", sig)
        cmd = [self.openssl, "cms", "-verify", "-binary", "-inform", "DER", "-in", sp, "-noverify", "-out", os.devnull]
        if content is not None:
            cmd += ["-content", self.tmp("content.bin", content)]
        p = subprocess.run(cmd, stdout=subprocess.PIPE, stderr=subprocess.PIPE, timeout=120)
        return p.returncode == 0, (p.stderr.decode(errors="replace"))[-300:]

    def smime_verify(self, sig):
        """openssl smime -verify (PKCS#7 code, handles `other` content types since 3.2); returns (ok, extracted content, text)"""
        if not self.openssl:
            return None, None, "openssl not installed"
        sp = self.tmp("sig.der", sig)
        op = self.tmp("content.out", b"")
        p = subprocess.run([self.openssl, "smime", "-verify", "-binary", "-inform", "DER", "-in", sp, "-noverify", "-out", op], stdout=subprocess.PIPE, stderr=subprocess.PIPE, timeout=120)
        return p.returncode == 0, open(op, "rb").read(), p.stderr.decode(errors="replace")[-300:]

    def cms_sign(self, content, key, cert, detached, noattr, md):
        if not self.openssl:
            return None
        cp = self.tmp("content.bin", content)
        op = self.tmp("sig.der", b"")
        cmd = [self.openssl, "cms", "-sign", "-binary", "-in", cp, "-signer", cert, "-inkey", key, "-outform", "DER", "-out", op, "-md", md]
        if not detached:
            cmd.append("-nodetach")
        if noattr:
            cmd.append("-noattr")
        p = subprocess.run(cmd, stdout=subprocess.PIPE, stderr=subprocess.PIPE, timeout=120)
        if p.returncode != 0:
            return None
        return open(op, "rb").read()


def run_model_big(ctx, vals):
    """ctx.run_model with a larger stack for the extracted OCaml (recursion depth = input length, up to a few MiB)"""
    import resource
    soft, hard = resource.getrlimit(resource.RLIMIT_STACK)
    want = 1 << 30
    try:
        resource.setrlimit(resource.RLIMIT_STACK, (want if hard == resource.RLIM_INFINITY or hard >= want else hard, hard))
    except (ValueError, OSError):
        pass
    try:
        return ctx.run_model(vals, timeout=900)
    finally:
        try:
            resource.setrlimit(resource.RLIMIT_STACK, (soft, hard))
        except (ValueError, OSError):
            pass


# ------------------------------------------------------------------ the check
def body(ctx, replay=None):
    pid = ctx.pid
    rel = (lambda a: pid.startswith("FMT") or pid == a)
    st = ctx.prepare(["FmtCAT_gen", "C16_gen"], ["FmtCAT"], "FmtCAT.Run")
    res = {"unit": "fmtcat", "status": st, "evaluations": 0, "distinct": 0, "samples": [], "notes": [], "cases": {}, "mismatches": 0}
    if not st["harness_ok"]:
        return res
    distinct = set()

    def viol(aspect, what, detail, obj, found=True):
        if any(rel(a) for a in aspect.split("+")):
            ctx.violation("%s:cat:%s" % (pid, what), detail, obj, found)

    args = ["fmtcat"]
    robj = json.load(open(replay)) if replay else None
    if robj and robj.get("part"):
        args.append(robj["part"])
    rc, out, err = ctx.drv(args, timeout=900)
    if rc != 0:
        viol("C01+C05", "driver-crash", "driver failed: " + err[-400:], {"stderr": err[-2000:]}, False)
        return res
    recs = [json.loads(l) for l in out.splitlines() if l.strip()]
    keys = {r["name"]: r for r in recs if r["t"] == "key"}
    sigcheck = SigCheck(ctx.scratch)
    tool = Tool(ctx.scratch)
    if not tool.openssl:
        res["notes"].append("openssl not installed: CMS outputs judged by the RFC 5652 reference computation only")
    mism = []        # model / implementation disagreements
    model_jobs = []  # (val, callback)

    def job(val, cb):
        model_jobs.append((val, cb))

    def signer_val(kname, dalg_oid, dalg_params, ealg_oid, ealg_params):
        k = keys[kname]
        ci = cert_info(bytes.fromhex(k["leaf"]))
        serial = ci["serial"].to_bytes((ci["serial"].bit_length() + 8) // 8, "big", signed=True) if ci["serial"] else b"\0"
        return [[bytes.fromhex(c) for c in k["chain"]], bytes.fromhex(k["issuer"]), serial, bytes.fromhex(dalg_oid), dalg_params, bytes.fromhex(ealg_oid), ealg_params, 1]

    # ================================================================ magic
    M = [r for r in recs if r["t"] == "magic"]
    CTL_TLV, SD_TLV = bytes.fromhex("0609" + OID_CTL), bytes.fromhex("0609" + OID_SIGNED)

    def magic_spec(b):
        """lib/magic.Detect as documented: first bytes / a marker within the first 256 bytes, in the order of the clauses"""
        if b[:4] == b"\xed\xab\xee\xdb":
            return FT["rpm"]
        if b[:14] == b"!<arch>\ndebian":
            return FT["deb"]
        if b[:14] == b"-----BEGIN PGP":
            return FT["pgp"]
        if CTL_TLV in b[:256]:
            return FT["cat"]
        if SD_TLV in b[:256]:
            return FT["pkcs7"]
        return None

    def magic_case(name, b, typ):
        res["evaluations"] += 1
        want = magic_spec(b)
        distinct.add(("magic", want, min(len(b), 300) // 64))
        if want is not None and typ != want:
            viol("C01", "magic-misroute", "magic.Detect classifies input %s (%d bytes) as type %d, the documented markers say %d" % (name, len(b), typ, want), {"cases": [{"name": name, "in": b[:400].hex(), "type": typ}], "part": "magic"})

        def cb(m, name=name, typ=typ, want=want):
            mt = m[0]
            if (mt == -2 and want is not None) or (mt != -2 and mt != typ):
                mism.append(("magic", name, "model %d, real %d" % (mt, typ)))
        job([0, b[:600]], cb)
    for r in M:
        magic_case(r["name"], bytes.fromhex(r["in"]), r["type"])

    # ================================================================ catalogs
    CAT = [r for r in recs if r["t"] == "cat"]
    cov_cat = {"cases": len(CAT), "lax_inputs_signed": [], "signed_rounds": 0, "refused": 0, "reference_verified": 0, "openssl_smime_good": 0, "openssl_skipped": 0, "content_sizes": []}
    for r in CAT:
        x = bytes.fromhex(r["in"])
        magic_case("cat:" + r["name"], x, r["magic"])
        res["evaluations"] += 1
        # what an RFC 5652 reader makes of the input
        try:
            sd_in = read_signed_data(x, allow_nul_padding=True)
            wf_in = sd_in["ectype"] == OID_CTL and sd_in["econtent"] is not None
        except (DerError, IndexError):
            sd_in, wf_in = None, False
        distinct.add(("cat-in", wf_in, len(x) // 128 if len(x) < 1024 else 8 + len(x) // 16384, len(sd_in["sis"]) if sd_in else -1))
        cur_sd, cur = sd_in, x
        first = True
        for rd in r["rounds"]:
            what = "%s round %s/%s" % (r["name"], rd["key"], rd["hash"])
            rep = {"cases": [{"name": r["name"], "in": r["in"], "round": {k: v for k, v in rd.items() if k not in ("out", "ms")}}], "part": "cat"}
            if rd["st"] == "panic":
                viol("C11+C01", "cat-sign-panic", "signers/cat.sign panicked on %s: %s" % (what, rd.get("err")), rep)
                break
            if not rd.get("untouched", True):
                viol("C01+C03", "cat-input-modified", "the input file was modified although the output went to another path (%s)" % what, rep)
            if rd["st"] != "ok":
                cov_cat["refused"] += 1
                if first and wf_in:
                    viol("C01", "cat-refused-wellformed", "relic refuses to sign the well-formed catalog %s: %s" % (what, rd.get("err")), rep)
                # correspondence of the refusal class
                if first:
                    def cb(m, r=r, rd=rd):
                        want = cms_err_class(rd.get("err"))
                        got = m[0]
                        if got == 0 and m[2] == 0:
                            got = 102      # content absent: the self check refuses
                        if got != want and not (want == 99 and got not in (0, 101, 102)):
                            mism.append(("cat-refusal", r["name"], "model status %d, real error %r (class %d)" % (got, rd.get("err"), want)))
                    job([1, x], cb)
                break
            cov_cat["signed_rounds"] += 1
            y = bytes.fromhex(rd["out"])
            # ---- model-free oracle: the output, read by an RFC 5652 reader
            try:
                sd = read_signed_data(y)
            except (DerError, IndexError) as e:
                if cur_sd is None:      # the input was not DER either (relic's parser is laxer than the RFC reader): garbage in, garbage out
                    cov_cat["lax_inputs_signed"].append(r["name"])
                else:
                    viol("C01+C03+C05", "cat-output-not-der", "the catalog relic wrote for %s is not a DER SignedData: %s" % (what, e), rep)
                break
            ok_in = cur_sd is not None
            if ok_in:
                if sd["eci_full"] != cur_sd["eci_full"]:
                    k = first_diff(sd["eci_full"], cur_sd["eci_full"])
                    viol("C03+C08", "cat-content-changed", "re-signing %s changed the encapsulated content info (the CTL): %d -> %d octets, first difference at octet %d of the element" %
                         (what, len(cur_sd["eci_full"]), len(sd["eci_full"]), k), rep)
                    break
                cov_cat["content_sizes"].append(len(sd["econtent"] or b""))
            if len(sd["sis"]) != 1:
                viol("C08", "cat-signer-count", "after signing %s the catalog carries %d signer infos (the new signature must replace the earlier ones)" % (what, len(sd["sis"])), rep)
                break
            want_chain = [bytes.fromhex(c) for c in keys[rd["key"]]["chain"]]
            if sd["certs"] != want_chain:
                viol("C01+C08", "cat-certificates", "certificates in the output of %s are not the configured chain (%d found, %d expected)" % (what, len(sd["certs"]), len(want_chain)), rep)
            if sd["econtent"] is None:
                viol("C01+C03", "cat-content-missing", "output of %s has no content" % what, rep)
                break
            si = sd["sis"][0]
            if OID2HASH.get(si["digest_alg"]) != rd["hash"] or sd["digest_algs"] != [si["digest_alg"]]:
                viol("C01", "cat-digest-alg", "requested %s, SignerInfo says %s, digestAlgorithms %s (%s)" % (rd["hash"], OID2HASH.get(si["digest_alg"]), sd["digest_algs"], what), rep)
            ok, why, info = cms_verify(sd, sd["econtent"], sigcheck)
            if ok is False:
                viol("C01+C05", "cat-bad-signature", "the signature relic wrote for %s does not verify per RFC 5652 over the content octets of the eContent (%d octets, tag and length excluded): %s" %
                     (what, len(sd["econtent"]), why), rep)
            elif ok:
                cov_cat["reference_verified"] += 1
                if info["cert"] != bytes.fromhex(keys[rd["key"]]["leaf"]):
                    viol("C01", "cat-wrong-signer", "signature of %s verifies under another certificate than the configured one" % what, rep)
            # relic's own verifier, is-signed probe
            v = rd["verify"]
            if v["st"] != "ok":
                viol("C01", "cat-self-verify", "relic's verifier rejects relic's output for %s: %s" % (what, v["err"]), rep)
            else:
                if v["hash"] != rd["hash"] or v["leaf"] != keys[rd["key"]]["leaf"] or v["chain"] != "ok":
                    viol("C01", "cat-verify-names", "verify of %s reports hash %s / chain %s / another leaf: expected %s and the configured certificate" % (what, v["hash"], v["chain"], rd["hash"]), rep)
            if rd["issigned"] != "true":
                viol("C08", "cat-issigned-output", "is-signed probe answers %r for relic's output of %s" % (rd["issigned"], what), rep)
            if rd["magic"] != r["magic"] and r["magic"] == FT["cat"]:
                viol("C08", "cat-output-type", "the output of %s is detected as file type %d, the input as %d" % (what, rd["magic"], r["magic"]), rep)
            # openssl smime -verify: second opinion, incl. the content it extracts
            if tool.openssl and tool.smime_other is not False and sd["econtent_tag"] == 0x30:
                oko, content, txt = tool.smime_verify(y)
                if tool.smime_other is None:
                    tool.smime_other = bool(oko)       # capability probe on the first case
                    if not oko:
                        res["notes"].append("openssl smime -verify cannot handle non-data content here (%s): catalogs judged by the reference computation only" % txt[-120:].strip())
                if oko:
                    cov_cat["openssl_smime_good"] += 1
                    if content != sd["econtent"]:
                        viol("C03+C05", "cat-openssl-content", "openssl extracts %d content octets from %s, the RFC 5652 reader %d" % (len(content), what, len(sd["econtent"])), rep)
                elif tool.smime_other:
                    viol("C05", "cat-openssl-rejects", "openssl smime -verify rejects relic's catalog for %s: %s" % (what, txt[-200:].replace("\n", " | ")), rep)
            else:
                cov_cat["openssl_skipped"] += 1
            # ---- correspondence: digest preimage and emitted bytes
            def cb_pre(m, r=r, rd=rd, cur=cur, sd=sd, si=si, what=what, y=y):
                if m[0] != 0 or m[2] != 1:
                    mism.append(("cat-pre", r["name"], "model refuses (status %d, content present %d), the real code signed" % (m[0], m[2])))
                    return
                pre = bytes.fromhex(m[1])
                if pre != sd["econtent"]:
                    mism.append(("cat-preimage", r["name"], "model digests %d octets, the output's eContent has %d" % (len(pre), len(sd["econtent"]))))
                hf = HASHES[rd["hash"]][0]
                sval = signer_val(rd["key"], si["digest_alg"], si["digest_alg_params"], si["sig_alg"], si["sig_alg_params"])

                def cb_emit(m2):
                    if m2[0] != 0:
                        mism.append(("cat-emit", r["name"], "model status %d for %s" % (m2[0], what)))
                    elif bytes.fromhex(m2[1]) != y:
                        mism.append(("cat-emit", r["name"], "emitted bytes differ at %d (%s)" % (first_diff(bytes.fromhex(m2[1]), y), what)))
                    elif not (m2[2] and m2[3] and m2[4]):
                        mism.append(("cat-validator", r["name"], "RFC walker on the output: content kept %d, certificates are the chain %d, one signer info %d" % (m2[2], m2[3], m2[4])))
                later.append(([2, cur, sval, hf(pre).digest(), si["signature"]], cb_emit))
            job([1, cur], cb_pre)
            cur_sd, cur, first = sd, y, False
        # unsigned / signed probe on the input
        if sd_in is not None and wf_in:
            want = "true" if sd_in["sis"] else "false"
            if r["issigned_in"] not in (want,) and not (sd_in["sis"] and r["issigned_in"].startswith("err")):
                viol("C08", "cat-issigned-input", "is-signed probe answers %r for %s which has %d signer infos" % (r["issigned_in"], r["name"], len(sd_in["sis"])), {"cases": [{"name": r["name"], "in": r["in"]}], "part": "cat"})
    later = []
    res["cat"] = cov_cat

    # ================================================================ PKCS#7 over arbitrary content
    PK = [r for r in recs if r["t"] == "pkcs"]
    cov_p = {"signatures": len(PK), "verifications": 0, "openssl_good": 0, "openssl_rejects_wrong": 0, "third_party": 0}
    extern = []     # (id, sig, content or None, nodigests, expect ok, description, pool)
    for r in PK:
        res["evaluations"] += 1
        content = bytes.fromhex(r["content"])
        what = "%s (%d bytes, %s, %s, %s/%s, %s)" % (r["name"], len(content), "detached" if r["detached"] else "attached", "signed attributes" if r["attrs"] else "no attributes", r["key"], r["hash"], r["mode"])
        rep = {"cases": [{k: v for k, v in r.items() if k != "verifs"}], "part": "pkcs"}
        distinct.add(("pkcs", r["detached"], r["attrs"], r["key"], r["hash"], r["mode"], min(len(content), 70000) // 300))
        if r["st"] != "ok":
            viol("C01", "pkcs-sign-failed", "signing %s failed: %s" % (what, r.get("err")), rep)
            continue
        sig = bytes.fromhex(r["sig"])
        try:
            sd = read_signed_data(sig)
        except (DerError, IndexError) as e:
            viol("C01+C05", "pkcs-output-not-der", "the SignedData relic wrote for %s is not DER: %s" % (what, e), rep)
            continue
        if (sd["econtent"] is None) != bool(r["detached"]) or (sd["econtent"] is not None and (sd["econtent"] != content or sd["econtent_tag"] != 4)):
            viol("C01+C03", "pkcs-content-field", "content field of %s: %s" % (what, "absent" if sd["econtent"] is None else "%d octets, tag %02x" % (len(sd["econtent"]), sd["econtent_tag"])), rep)
        if sd["ectype"] != OID_DATA or len(sd["sis"]) != 1:
            viol("C05", "pkcs-shape", "content type %s, %d signer infos (%s)" % (sd["ectype"], len(sd["sis"]), what), rep)
            continue
        if (sd["sis"][0]["signed_attrs"] is not None) != bool(r["attrs"]):
            viol("C05", "pkcs-attrs", "signed attributes %s for %s" % ("present" if sd["sis"][0]["signed_attrs"] else "absent", what), rep)
        ok, why, info = cms_verify(sd, content, sigcheck)
        if ok is False:
            viol("C01+C05", "pkcs-bad-signature", "the signature for %s does not verify per RFC 5652 over the content: %s" % (what, why), rep)
        # the reference verdict for every (signature, content) pair vs relic's
        for v in r["verifs"]:
            cov_p["verifications"] += 1
            res["evaluations"] += 1
            ext = bytes.fromhex(v["content"]) if "content" in v else None
            if v["nodigests"]:
                want, wwhy = True, ""          # integrity check switched off by the caller: only the signer info is inspected
            elif sd["econtent"] is not None:
                want, wwhy = (ext is None or ext == sd["econtent"]), "external content differs from the embedded content"
            elif ext is None:
                want, wwhy = False, "detached signature without content"
            else:
                o2, w2, _ = cms_verify(sd, ext, sigcheck)
                want, wwhy = o2, w2
            if want is None:
                continue
            got = v["st"] == "ok"
            vrep = dict(rep, verification={k: x for k, x in v.items()})
            if got and not want:
                viol("C02", "pkcs-accepts-other-content", "relic verify accepts %s with content variant %r although %s" % (what, v["what"], wwhy), vrep)
            elif want and not got:
                viol("C01", "pkcs-rejects-valid", "relic verify rejects %s with content variant %r: %s" % (what, v["what"], v["err"]), vrep)
            elif got and not v["nodigests"] and (v["hash"] != r["hash"] or v["leaf"] != keys[r["key"]]["leaf"]):
                viol("C01", "pkcs-verify-names", "verify of %s reports hash %s / another certificate" % (what, v["hash"]), vrep)

            # correspondence of the crypto-free selection
            def cb(m, r=r, v=v, ext=ext, sd=sd, what=what):
                sel, e = m[1], m[2]
                if m[0] != 0:
                    mism.append(("pkcs-select", r["name"], "model cannot parse relic's own output (%d)" % m[0]))
                    return
                real_err = v["err"]
                if sel == 2:
                    if v["st"] == "ok" or not ("missing content" in real_err or "not equal" in real_err):
                        mism.append(("pkcs-select", r["name"], "model rejects before any signature check (%d), real: %r (%s / %s)" % (e, real_err or "ok", what, v["what"])))
                else:
                    if "missing content" in real_err or "not equal" in real_err:
                        mism.append(("pkcs-select", r["name"], "model selects content, real: %r (%s / %s)" % (real_err, what, v["what"])))
                    chosen = bytes.fromhex(m[3])
                    expect = b"" if v["nodigests"] else (sd["econtent"] if sd["econtent"] is not None else ext)
                    if sel == 1 and chosen != expect:
                        mism.append(("pkcs-select", r["name"], "model verifies against %d octets, expected %d (%s / %s)" % (len(chosen), len(expect or b""), what, v["what"])))
            job([3, sig, 1 if v["nodigests"] else 0, b"p" if ext is not None else b"", ext if ext is not None else b""], cb)
        if r["issigned"] != "true":
            viol("C08", "pkcs-issigned", "is-signed probe answers %r for %s" % (r["issigned"], what), rep)
        # openssl: accepts with the content, rejects with other content
        if tool.openssl and r["mode"] == "data" and len(content) <= 70000:
            oko, txt = tool.cms_verify(sig, content if r["detached"] else None)
            if oko:
                cov_p["openssl_good"] += 1
            else:
                viol("C05", "pkcs-openssl-rejects", "openssl cms -verify rejects relic's signature for %s: %s" % (what, txt[-200:].replace("\n", " | ")), rep)
            if r["detached"] and content:
                okw, _ = tool.cms_verify(sig, content[:-1] + bytes([content[-1] ^ 1]))
                if okw is False:
                    cov_p["openssl_rejects_wrong"] += 1
        # correspondence: emitted bytes (mode data)
        if r["mode"] == "data":
            si = sd["sis"][0]
            attrs = []
            if si["signed_attrs"] is not None:
                for a in si["signed_attrs_kids"]:
                    oid, vals, setbody, settag = attr_values(a)
                    if oid not in (OID_ATTR_CT, OID_ATTR_MD):
                        attrs.append([bytes.fromhex(oid), settag, setbody])
            hf = HASHES[r["hash"]][0]
            sval = signer_val(r["key"], si["digest_alg"], si["digest_alg_params"], si["sig_alg"], si["sig_alg_params"])

            def cb(m, r=r, sig=sig, si=si, sd=sd, what=what, content=content, hf=hf):
                if m[0] != 0:
                    mism.append(("pkcs-emit", r["name"], "model status %d for %s" % (m[0], what)))
                    return
                if bytes.fromhex(m[1]) != sig:
                    mism.append(("pkcs-emit", r["name"], "emitted bytes differ at %d (%s)" % (first_diff(bytes.fromhex(m[1]), sig), what)))
                pre = bytes.fromhex(m[3])
                want_pre = (b"\x31" + si["signed_attrs"][1:]) if si["signed_attrs"] is not None else hf(content).digest()
                if pre != want_pre or m[2] != (1 if si["signed_attrs"] is not None else 0):
                    mism.append(("pkcs-preimage", r["name"], "model signs over kind %d / %d octets, the RFC 5652 preimage of the output has %d (%s)" % (m[2], len(pre), len(want_pre), what)))
            job([4, content, 1 if r["detached"] else 0, attrs, sval, hf(content).digest(), si["signature"]], cb)
    for r in [r for r in recs if r["t"] == "p7misc"]:
        res["evaluations"] += 1
        want_err = {"detached-digest-size": r.get("dlen") != r.get("hsize"), "sign-without-content": True, "sign-foreign-cert": True, "sign-no-cert": True}[r["what"]]
        if (r["st"] != "ok") != want_err:
            viol("C01", "pkcs-builder-guard", "builder case %s: status %s (%s)" % (r["what"], r["st"], r["err"]), {"cases": [r], "part": "pkcs"})
    # third-party signatures (openssl cms -sign) through relic's verifier, with the right / a wrong / no content
    kd = os.path.join(REPO, "functest", "testkeys")
    if tool.openssl and not replay:
        items, meta = [], {}
        mof = open(os.path.join(REPO, "functest", "packages", "hello.mof"), "rb").read()
        n = 0
        for content in (mof, b"", b"x" * 70000):
            for detached in (True, False):
                for noattr in (False, True):
                    for md in ("sha256", "sha1", "sha512"):
                        s = tool.cms_sign(content, os.path.join(kd, "rsa2048.key"), os.path.join(kd, "rsa2048.crt"), detached, noattr, md)
                        if s is None:
                            continue
                        for what, ext in (("same", content), ("other", content + b"!"), ("none", None)):
                            n += 1
                            iid = "ossl%03d" % n
                            items.append({"id": iid, "sig": s.hex(), "content": (ext or b"").hex(), "have": ext is not None, "nodigests": False})
                            want = (ext == content) if detached else (ext is None or ext == content)
                            if detached and ext is None:
                                want = False
                            meta[iid] = (want, "openssl cms -sign (%d bytes, %s, %s, %s) verified with content variant %r" % (len(content), "detached" if detached else "attached", "noattr" if noattr else "attrs", md, what), md)
        lp = os.path.join(ctx.scratch, "pkcs-list.json")
        json.dump(items, open(lp, "w"))
        rc2, out2, err2 = ctx.drv(["fmtcat-verify", lp], timeout=600)
        if rc2 != 0:
            viol("C05", "driver-crash", "fmtcat-verify failed: " + err2[-300:], {"stderr": err2[-1500:]}, False)
        else:
            for l in out2.splitlines():
                v = json.loads(l)
                if v.get("t") != "pkcsv":
                    continue
                cov_p["third_party"] += 1
                res["evaluations"] += 1
                want, desc, md = meta[v["id"]]
                got = v["st"] == "ok"
                it = [i for i in items if i["id"] == v["id"]][0]
                if got and not want:
                    viol("C02", "pkcs-accepts-other-content", "relic verify accepts: " + desc, {"cases": [dict(it, result=v)], "part": "pkcs"})
                elif want and not got:
                    viol("C01+C05", "pkcs-rejects-third-party", "relic verify rejects (%s): %s" % (v["err"], desc), {"cases": [dict(it, result=v)], "part": "pkcs"})
                elif got and v["hash"] != md:
                    viol("C01", "pkcs-verify-names", "relic reports digest %s for: %s" % (v["hash"], desc), {"cases": [dict(it, result=v)], "part": "pkcs"})
    res["pkcs"] = cov_p

    # ================================================================ cosign
    CS = [r for r in recs if r["t"] == "cosign"]
    cov_c = {"cases": len(CS), "signed": 0, "refused": 0, "signature_verified": 0}
    ALLOWED = {"application/vnd.oci.image.manifest.v1+json", "application/vnd.oci.image.index.v1+json",
               "application/vnd.docker.distribution.manifest.v2+json", "application/vnd.docker.distribution.manifest.list.v2+json"}
    MAXSIZE = 4 * 1024 * 1024
    for r in CS:
        res["evaluations"] += 1
        manifest = bytes.fromhex(r["manifest"]) if "manifest" in r else open(r["manifest_path"], "rb").read()
        what = "%s (%d bytes, %s/%s%s)" % (r["name"], len(manifest), r["key"], r["hash"], ", --optional " + r["optional"] if r["optional"] else "")
        rep = {"cases": [{k: v for k, v in r.items() if k not in ("out", "ms")}], "part": "cosign"}
        if len(manifest) > 100000:
            rep["cases"][0].pop("manifest", None)
        distinct.add(("cosign", r["name"].split(":")[0], r["hash"], r["key"], r["st"]))
        # what the specification says about this manifest
        try:
            mj = json.loads(manifest.decode("utf-8"))
            mt = mj.get("mediaType") if isinstance(mj, dict) else None
            if isinstance(mj, dict) and mt is None:
                for k2, v2 in mj.items():      # encoding/json matches keys case-insensitively; relic relies on it
                    if k2.lower() == "mediatype":
                        mt = v2
            signable = isinstance(mt, str) and mt in ALLOWED
        except (ValueError, UnicodeDecodeError, RecursionError):
            signable = False
        optional_ok = True
        if r["optional"]:
            try:
                oj = json.loads(r["optional"])
                optional_ok = oj is None or isinstance(oj, dict)
            except ValueError:
                optional_ok = False
        should_sign = signable and len(manifest) <= MAXSIZE and r["hash"] in ("sha256", "sha384", "sha512") and optional_ok
        if r["st"] == "panic":
            viol("C11", "cosign-panic", "signers/cosign.sign panicked on %s: %s" % (what, r.get("err")), rep)
            continue
        if r["ms"] > 20000:
            viol("C11", "cosign-slow", "signers/cosign.sign took %d ms on %s" % (r["ms"], what), rep)
        if r["st"] != "ok":
            cov_c["refused"] += 1
            if should_sign:
                viol("C01", "cosign-refused", "relic refuses to sign the manifest %s: %s" % (what, r.get("err")), rep)
        else:
            cov_c["signed"] += 1
            if not should_sign:
                viol("C01+C11", "cosign-signed-unsignable", "relic signed %s although the manifest %s" % (what, "exceeds 4 MiB" if len(manifest) > MAXSIZE else "has no signable media type / the options are invalid"), rep)
            outb = bytes.fromhex(r["out"]) if "out" in r else open(r["out_path"], "rb").read()
            hf = HASHES[r["hash"]][0]
            try:
                oj = json.loads(outb)
                layer = oj["layers"][0]
                payload = base64.b64decode(layer["data"], validate=True)
                pj = json.loads(payload)
                sigb = base64.b64decode(layer["annotations"]["dev.cosignproject.cosign/signature"], validate=True)
            except Exception as e:
                viol("C01+C05", "cosign-output-unreadable", "the signature manifest for %s cannot be read: %s" % (what, e), rep)
                continue
            mdig = "%s:%s" % (r["hash"], hf(manifest).hexdigest())
            problems = []
            crit = pj.get("critical", {})
            if crit.get("type") != "cosign container image signature":
                problems.append("critical.type is %r" % crit.get("type"))
            if crit.get("image", {}).get("docker-manifest-digest") != mdig:
                problems.append("critical.image.docker-manifest-digest is %r, the manifest digest is %s" % (crit.get("image", {}).get("docker-manifest-digest"), mdig))
            if list(pj.keys()) != ["critical", "optional"] or not isinstance(pj.get("optional"), dict) or "creator" not in pj["optional"]:
                problems.append("top-level members %s / optional.creator missing" % list(pj.keys()))
            if r["optional"]:
                uo = json.loads(r["optional"]) or {}
                for k2, v2 in uo.items():
                    if k2 != "creator" and pj["optional"].get(k2) != v2:
                        problems.append("optional.%s is %r, requested %r" % (k2, pj["optional"].get(k2), v2))
            sub = oj.get("subject", {})
            if sub.get("digest") != mdig or sub.get("size") != len(manifest) or sub.get("mediaType") != mt:
                problems.append("subject descriptor %s does not describe the manifest (%s, %d, %s)" % (sub, mdig, len(manifest), mt))
            pdig = "%s:%s" % (r["hash"], hf(payload).hexdigest())
            if layer.get("digest") != pdig or layer.get("size") != len(payload) or layer.get("mediaType") != "application/vnd.dev.cosign.simplesigning.v1+json":
                problems.append("layer descriptor (digest %s size %s type %s) does not describe the stored payload (%s, %d)" % (layer.get("digest"), layer.get("size"), layer.get("mediaType"), pdig, len(payload)))
            if oj.get("artifactType") != "application/vnd.dev.cosign.artifact.sig.v1+json" or oj.get("mediaType") != "application/vnd.oci.image.manifest.v1+json" or oj.get("schemaVersion") != 2:
                problems.append("artifact manifest header %s / %s / %s" % (oj.get("artifactType"), oj.get("mediaType"), oj.get("schemaVersion")))
            cert_pem = layer["annotations"].get("dev.sigstore.cosign/certificate", "")
            try:
                cert_der = base64.b64decode("".join(cert_pem.strip().splitlines()[1:-1]))
            except Exception:
                cert_der = b""
            if cert_der != bytes.fromhex(keys[r["key"]]["leaf"]):
                problems.append("certificate annotation is not the configured leaf certificate")
            else:
                okv = sigcheck.verify(cert_der, r["hash"], payload, sigb)
                if okv is False:
                    problems.append("the signature does not verify over the stored payload bytes with the annotated certificate")
                elif okv:
                    cov_c["signature_verified"] += 1
            if problems:
                viol("C01+C05", "cosign-payload", "signature manifest for %s: %s" % (what, "; ".join(problems[:3])), dict(rep, problems=problems))
            if "identity" not in crit:
                res.setdefault("cosign_notes", set()).add("critical.identity (docker-reference) is absent from every payload relic writes")
            # correspondence (default options only: the model covers the payload without --optional)
            if not r["optional"]:
                def cb(m, r=r, payload=payload, mdig=mdig, pdig=pdig, layer=layer, what=what):
                    if m[0] != 0:
                        mism.append(("cosign", r["name"], "model status %d, real signed (%s)" % (m[0], what)))
                    elif bytes.fromhex(m[1]) != payload:
                        mism.append(("cosign-payload", r["name"], "payload differs at %d (%s)" % (first_diff(bytes.fromhex(m[1]), payload), what)))
                    elif bytes.fromhex(m[2]).decode() != mdig or bytes.fromhex(m[3]).decode() != pdig:
                        mism.append(("cosign-digest", r["name"], "digest strings %s / %s" % (bytes.fromhex(m[2]), bytes.fromhex(m[3]))))
                    elif bytes.fromhex(m[4]).decode() != layer["annotations"]["dev.cosignproject.cosign/signature"] or not m[5]:
                        mism.append(("cosign-b64", r["name"], "base64 of the signature / spec readers (%d)" % m[5]))
                job([5, len(manifest), HASHES[r["hash"]][3], 1 if r["json_ok"] else 0, bytes.fromhex(r["media_type"]), hf(manifest).digest(), hf(payload).digest(), sigb], cb)
        if r["st"] != "ok" and not r["optional"]:
            def cb(m, r=r, what=what):
                cls = {"exceeds": 120, "unsupported digest": 121, "unable to determine mediaType:": 122, "unable to determine mediaType": 123, "cannot be signed": 124}
                want = 99
                for k2, c in cls.items():
                    if k2 in (r.get("err") or ""):
                        want = c
                        break
                if m[0] != want:
                    mism.append(("cosign-refusal", r["name"], "model status %d, real %r (%s)" % (m[0], r.get("err"), what)))
            job([5, len(manifest), HASHES.get(r["hash"], (0, 0, 0, 0))[3], 1 if r["json_ok"] else 0, bytes.fromhex(r["media_type"]), b"", b"", b""], cb)
    for n in sorted(res.pop("cosign_notes", [])):
        res["notes"].append("cosign: " + n + " (containers-signature(5) requires it; the cosign signature specification ignores it on verification)")
    res["cosign"] = cov_c

    # ================================================================ RPM
    RP = [r for r in recs if r["t"] == "rpm"]
    cov_r = {"cases": len(RP), "signed_rounds": 0, "refused": 0, "pgp_reference_verified": 0, "gpgv_good": 0}
    try:
        pgp_keys = pgp_rsa_pubkeys(open(os.path.join(kd, "rsa2048.pgp"), "rb").read())
    except Exception:
        pgp_keys = []
    for r in RP:
        res["evaluations"] += 1
        f = bytes.fromhex(r["in"])
        magic_case("rpm:" + r["name"], f, r["magic"])
        try:
            parts = rpm_split(f)
            sig_idx = rpm_index(parts[1])
            gen_idx = rpm_index(parts[2])
            wf = True
        except (ValueError, IndexError):
            parts, wf = None, False
        distinct.add(("rpm-in", wf, len(f) // 256 if len(f) < 4096 else 20, tuple(sorted(sig_idx)) if wf else ()))
        cur, cur_parts = f, parts
        first = True
        for rd in r["rounds"]:
            what = "%s round %s" % (r["name"], rd["hash"])
            rep = {"cases": [{"name": r["name"], "in": r["in"], "round": {k: v for k, v in rd.items() if k not in ("out", "blob", "ms")}}], "part": "rpm"}
            if rd["st"] == "panic":
                e = rd.get("err") or ""
                if "relic: rpm.nevra" in e:
                    viol("C11", "rpm-sign-panic-nevra", "signers/rpm.sign panicked on %s (general header without a NAME / VERSION / RELEASE / ARCH tag: GetNEVRA fails, nevra() drops the error "
                         "and calls String() on the nil result): %s" % (what, e), rep)
                elif "innermost: rpmutils." in e:
                    cov_r["third_party_panics"] = cov_r.get("third_party_panics", 0) + 1      # inside go-rpmutils: C11's recorded findings (C11:rpm.sign:slice / :index / :alloc)
                else:
                    viol("C11", "rpm-sign-panic", "signers/rpm.sign panicked on %s: %s" % (what, e), rep)
                break
            if not rd.get("untouched", True):
                viol("C01+C03", "rpm-input-modified", "input modified although the output went to another path (%s)" % what, rep)
            if rd["st"] != "ok":
                cov_r["refused"] += 1
                break
            cov_r["signed_rounds"] += 1
            g = bytes.fromhex(rd["out"])
            try:
                gp = rpm_split(g)
                gsig = rpm_index(gp[1])
            except (ValueError, IndexError) as e:
                viol("C01+C03", "rpm-output-malformed", "the package relic wrote for %s is not a well-formed RPM: %s" % (what, e), rep)
                break
            if cur_parts and (gp[2] != cur_parts[2] or gp[3] != cur_parts[3] or gp[0] != cur_parts[0]):
                viol("C03+C08", "rpm-payload-changed", "signing %s changed %s" % (what, "the header" if gp[2] != cur_parts[2] else "the payload" if gp[3] != cur_parts[3] else "the lead"), rep)
                break
            if 1002 not in gsig or 268 not in gsig or 1005 in gsig or 267 in gsig:
                viol("C01+C08", "rpm-signature-tags", "signature header tags after %s: %s (expected RSA 268 and PGP 1002, no DSA 267 / GPG 1005)" % (what, sorted(gsig)), rep)
                break
            # the two signatures, checked by an RFC 4880 computation over exactly the bytes the RPM format prescribes
            if pgp_keys:
                o1, w1 = pgp_verify_binary_sig(gsig[268][1], gp[2], pgp_keys)
                o2, w2 = pgp_verify_binary_sig(gsig[1002][1], gp[2] + gp[3], pgp_keys)
                if not o1 or not o2:
                    viol("C01+C05", "rpm-bad-signature", "%s: header-only signature (tag 268) over the header: %s; header+payload signature (tag 1002): %s" % (what, w1 if not o1 else "ok", w2 if not o2 else "ok"), rep)
                else:
                    cov_r["pgp_reference_verified"] += 1
                    if w1 != rd["hash"] or w2 != rd["hash"]:
                        viol("C01", "rpm-digest-alg", "requested %s, signatures use %s / %s (%s)" % (rd["hash"], w1, w2, what), rep)
            # old digests of the signature header must still describe the package
            v = rd["verify"]
            if v["st"] != "ok" or v["nsigs"] < 1 or v["signer"] != keys["rsa2048"].get("pgp_keyid"):
                viol("C01", "rpm-self-verify", "relic's verifier on its own output for %s: %s %s (signer %s)" % (what, v["st"], v["err"], v["signer"]), rep)
            elif v["hash"] != rd["hash"]:
                viol("C01", "rpm-verify-names", "verify of %s reports digest %s" % (what, v["hash"]), rep)
            elif wf:
                def tag_s(t):
                    return gen_idx[t][1].split(b"\0")[0].decode("latin1") if t in gen_idx else None
                nm, ve, re_, ar = tag_s(1000), tag_s(1001), tag_s(1002), tag_s(1022)
                ep = int.from_bytes(gen_idx[1003][1][:4], "big") if 1003 in gen_idx else 0
                want_pkg = "" if None in (nm, ve, re_, ar) else "%s-%s%s-%s.%s" % (nm, "%d:" % ep if ep else "", ve, re_, ar)
                if v["package"] != want_pkg:
                    viol("C01", "rpm-verify-package", "verify of %s names the package %r, the header says %r" % (what, v["package"], want_pkg), rep)
            if rd["verify_nokeys"]["st"] == "ok":
                viol("C02", "rpm-accepts-unknown-key", "relic verify without any trusted key accepts %s" % what, rep)
            if rd["issigned"] != "true":
                viol("C08", "rpm-issigned-output", "is-signed probe answers %r for relic's output of %s" % (rd["issigned"], what), rep)
            if tool.gpgv and pgp_keys and cov_r["gpgv_good"] < 12:
                hp, sp = tool.tmp("hdr.bin", gp[2]), tool.tmp("sig.pgp", gsig[268][1])
                kr = os.path.join(ctx.scratch, "rpm-keyring.gpg")
                if not os.path.exists(kr):
                    arm = open(os.path.join(kd, "rsa2048.pgp"), "rb").read().decode().splitlines()
                    b64 = "".join(l for l in arm[arm.index("") + 1:] if not l.startswith("=") and not l.startswith("-----"))
                    open(kr, "wb").write(base64.b64decode(b64))
                home = os.path.join(ctx.scratch, "gpgv-home")
                os.makedirs(home, exist_ok=True)
                os.chmod(home, 0o700)
                p = subprocess.run([tool.gpgv, "--homedir", home, "--keyring", kr, "--status-fd", "1", sp, hp], stdout=subprocess.PIPE, stderr=subprocess.PIPE, timeout=60)
                if p.returncode == 0 and b"GOODSIG" in p.stdout:
                    cov_r["gpgv_good"] += 1
                else:
                    viol("C05", "rpm-gpgv-rejects", "gpgv rejects the header signature of %s over the header region: %s" % (what, (p.stdout + p.stderr).decode(errors="replace")[-200:].replace("\n", " | ")), rep)
            # ---- correspondence
            blob = bytes.fromhex(rd["blob"]) if "blob" in rd else None
            if blob is not None:
                def cb(m, r=r, rd=rd, cur=cur, g=g, gp=gp, blob=blob, what=what, cur_parts=cur_parts):
                    span, gstart, glen, hh, ha, nsigs, est, gm, extract_ok, spec_ok = m[:10]
                    if span != rd["patch"][1] or rd["patch"][0] != 0:
                        mism.append(("rpm-span", r["name"], "model: signature area %d bytes, relic's patch replaces [%d, +%d) (%s)" % (span, rd["patch"][0], rd["patch"][1], what)))
                    if est != 0 or bytes.fromhex(gm) != g:
                        mism.append(("rpm-embed", r["name"], "model status %d / output differs at %d (%s)" % (est, first_diff(bytes.fromhex(gm), g), what)))
                    if bytes.fromhex(hh) != gp[2] or bytes.fromhex(ha) != gp[2] + gp[3]:
                        mism.append(("rpm-hashin", r["name"], "model preimages are not header / header+payload of the format reader (%s)" % what))
                    if not extract_ok or not spec_ok:
                        mism.append(("rpm-laws", r["name"], "extract(embed) = blob: %d, spec split agrees: %d (%s)" % (extract_ok, spec_ok, what)))
                job([6, cur, blob], cb)
            cur, cur_parts, first = g, gp, False
        # the probes on the input: model vs real
        def cb(m, r=r, f=f, wf=wf):
            span, ex = m[0], m[10]
            iss = r["issigned_in"]
            if span > 0 and iss in ("true", "false"):
                if (ex == 1) != (iss == "true"):
                    mism.append(("rpm-issigned", r["name"], "model %d, real %s" % (ex, iss)))
            if span <= 0 and iss in ("true", "false"):
                mism.append(("rpm-span", r["name"], "model refuses the signature area (%d), real probe answers %s" % (span, iss)))
            if span > 0 and rpm_sig_area(f) != span:
                mism.append(("rpm-span", r["name"], "model: signature area of %d bytes, the format reader: %s" % (span, rpm_sig_area(f))))
            if span <= 0 and rpm_sig_area(f) is not None:
                mism.append(("rpm-span", r["name"], "model refuses (%d) a signature area the format reader finds (%d bytes)" % (span, rpm_sig_area(f))))
        job([6, f, b""], cb)
        if wf and r["issigned_in"] in ("true", "false"):
            has = any(t in sig_idx for t in (267, 268, 1002, 1005))
            if has != (r["issigned_in"] == "true"):
                viol("C08", "rpm-issigned-input", "is-signed probe answers %s for %s whose signature header has tags %s" % (r["issigned_in"], r["name"], sorted(sig_idx)), {"cases": [{"name": r["name"], "in": r["in"]}], "part": "rpm"})
    # signers/rpm.verify report: de-duplication and the unknown-signer rule, model only (the real function needs real signatures)
    for sigs, nochain in (([], False), ([(5, True)], False), ([(5, True), (5, True)], False), ([(5, False)], True), ([(5, False)], False), ([(1, True), (2, False), (1, True)], True)):
        def cb(m, sigs=sigs, nochain=nochain):
            want_kids = []
            for k2, known in sigs:
                if k2 not in want_kids:
                    want_kids.append(k2)
            if not sigs:
                ok = m[0] == 0 and m[1] == -1
            elif any(not known for _, known in sigs) and not nochain:
                ok = m[0] != 0
            else:
                ok = m[0] == 0 and m[2] == want_kids
            if not ok:
                mism.append(("rpm-report", str(sigs), "model %s" % (m,)))
        job([7, [[a, 1 if b else 0] for a, b in sigs], 1 if nochain else 0], cb)
    res["rpm"] = cov_r

    # ================================================================ single-bit changes of signed artefacts (C02)
    TM = [r for r in recs if r["t"] == "tamper"]
    cov_t = {"artefacts": len(TM), "flips": 0, "rejected": 0, "accepted_outside_protected": 0, "accepted_examples": []}
    for r in TM:
        base = bytes.fromhex(r["base"])
        framing = (0, 0)
        prot = []      # (start, end, what): the byte ranges the format protects, computed by the independent readers
        try:
            if r["fmt"] == "cat":
                sd = read_signed_data(base)
                k = base.find(sd["econtent_full"], sd["eci_range"][0])
                hl = len(sd["econtent_full"]) - len(sd["econtent"])
                prot.append((k + hl, k + len(sd["econtent_full"]), "content octets of the eContent"))
                framing = (sd["eci_range"][0], k + hl)      # content type, [0] and the identifier / length octets of the element: covered only through signed attributes
                for si in sd["sis"]:
                    o = base.find(si["full"])
                    for what, sub in (("signature value", si["signature"]), ("signer identifier", si["issuer"]), ("signer serial", si["serial_raw"]), ("digest algorithm", bytes.fromhex(si["digest_alg"]))):
                        k = si["full"].find(sub)
                        if k >= 0 and sub:
                            prot.append((o + k, o + k + len(sub), what))
                    for c in sd["certs"]:
                        ci = cert_info(c)
                        if ci["issuer"] == si["issuer"] and ci["serial"] == si["serial"]:
                            k = base.find(ci["spki"])
                            prot.append((k, k + len(ci["spki"]), "public key of the signer certificate"))
            else:
                parts = rpm_split(base)
                o = 96 + len(parts[1])
                prot.append((o, o + len(parts[2]), "header"))
                prot.append((o + len(parts[2]), len(base), "payload"))
        except (DerError, ValueError, IndexError):
            continue
        for f in r["flips"]:
            res["evaluations"] += 1
            cov_t["flips"] += 1
            accepted = f["st"] == "ok" and (r["fmt"] != "cat" or f.get("chain") == "ok")
            if not accepted:
                if f["st"] == "panic":
                    if "innermost: rpmutils." in f["err"] or "go-rpmutils" in f["err"].split("; relic:")[0]:
                        cov_t["third_party_panics"] = cov_t.get("third_party_panics", 0) + 1      # inside go-rpmutils: C11's recorded findings (C11:rpm.verify:slice / :index / :alloc)
                    else:
                        viol("C11", "%s-verify-panic" % r["fmt"], "verifier panicked on %s with bit %d of byte %d flipped: %s" % (r["name"], f["bit"], f["pos"], f["err"]),
                             {"cases": [{"name": r["name"], "base": r["base"], "flip": f}], "part": r["fmt"]})
                cov_t["rejected"] += 1
                continue
            hit = [w for a, b, w in prot if a <= f["pos"] < b]
            if r["fmt"] == "cat" and not hit and framing[0] <= f["pos"] < framing[1]:
                cov_t["accepted_in_econtent_framing"] = cov_t.get("accepted_in_econtent_framing", 0) + 1
            if hit:
                viol("C02", "%s-tamper-accepted" % r["fmt"], "relic verify (integrity and chain checks on) accepts %s with bit %d of byte %d flipped, inside the %s" % (r["name"], f["bit"], f["pos"], hit[0]),
                     {"cases": [{"name": r["name"], "base": r["base"], "flip": f}], "part": r["fmt"]})
            else:
                cov_t["accepted_outside_protected"] += 1
                if len(cov_t["accepted_examples"]) < 8:
                    cov_t["accepted_examples"].append({"artefact": r["name"], "pos": f["pos"], "bit": f["bit"], "context": base[max(0, f["pos"] - 3):f["pos"] + 4].hex()})
            distinct.add(("tamper", r["fmt"], bool(hit), accepted))
    res["tamper"] = cov_t

    # ================================================================ the same signers behind the server's /sign endpoint
    SRV = [r for r in recs if r["t"] == "srv"]
    srv_panics = {}
    for l in err.splitlines():      # the server logs a recovered panic with its stack
        if '"stack"' not in l:
            continue
        try:
            j = json.loads(l)
        except ValueError:
            continue
        frames = [x.strip() for x in j.get("stack", "").split("\n")]
        top = ""
        seen_panic = False
        for i, fr in enumerate(frames):
            if fr.startswith("panic("):
                seen_panic = True
            elif seen_panic and "sassoftware/relic/v8/" in fr and "zhttp" not in fr and i + 1 < len(frames):
                top = fr.rsplit("(", 1)[0].split("/v8/")[-1] + " at " + frames[i + 1].split(" +0x")[0].replace("/repo/", "")
                break
        srv_panics[j.get("url", "")] = (j.get("error", ""), top)
    for r in SRV:
        res["evaluations"] += 1
        distinct.add(("srv", r.get("name")))
        if r.get("what") == "setup":
            res["notes"].append("in-process server could not be built: %s" % r.get("err"))
            continue
        pan = [v for u, v in srv_panics.items() if "sigtype=%s&" % r["sigtype"] in u + "&" and ("filename=" + {"pkcs7-verify-only-module": "x.p7s", "rpm-no-name": "x.rpm"}.get(r["name"], "\0")) in u]
        rep = {"cases": [{k: v for k, v in r.items() if k not in ("out",)}], "part": "srv"}
        if r["st"] == "panic":
            viol("C11", "srv-panic-unrecovered", "POST /sign (sigtype %s, case %s) panicked through the middleware: %s" % (r["sigtype"], r["name"], r.get("err")), rep)
        elif r["name"] == "pkcs7-verify-only-module" and r["status"] == 200:
            viol("C01+C11", "srv-signed-garbage", "the server answered 200 to sigtype=pkcs7, a module that cannot sign", rep)
        elif r["name"] == "pkcs7-verify-only-module" and (pan or r["status"] == 500):
            viol("C11", "srv-sign-verify-only-module-panic", "POST /sign with sigtype=pkcs7 (a module that only verifies: Signer.Sign is nil) by an authorised client: the handler calls the nil function "
                 "(%s); recovered by the middleware, the client gets 500; the command line guards this case with `can't sign files of type`" % (pan[0][1] if pan else "status 500"), rep)
        elif r["name"] == "rpm-no-name" and (pan or r["status"] == 500):
            viol("C11", "rpm-sign-panic-nevra", "POST /sign with an RPM whose header has no NAME tag: %s (%s)" % (pan[0][0] if pan else "status 500", pan[0][1] if pan else ""), rep)
        elif r["name"] in ("cat", "rpm", "cosign", "rpm-no-name"):     # rpm-no-name: well-formed package without NAME tag, regression input of fix 1e87259
            if r["status"] != 200:
                viol("C01", "srv-sign-failed", "signing fixture %s through the server fails with status %d: %s" % (r["name"], r["status"], r.get("body")), rep)
            elif r["name"] == "cat" and not r.get("equal_standalone"):
                viol("C01", "srv-differs-from-standalone", "the catalog signed through the server differs from the standalone result (same key, same digest, deterministic RSA signature)", rep)
        elif r["status"] == 200:
            viol("C01+C11", "srv-signed-garbage", "the server signed the malformed input of case %s" % r["name"], rep)
    res["srv"] = {"cases": len(SRV), "recovered_panics": len(srv_panics)}

    # ================================================================ codecs against python's own implementations
    for b in (b"", b"\0", b"\xff", b"ab", b"abc", b"abcd", bytes(range(256)), hashlib.sha512(b"x").digest()):
        def cb(m, b=b):
            if bytes.fromhex(m[0]) != b.hex().encode() or bytes.fromhex(m[1]) != base64.b64encode(b) or m[2] != [1, Hex(b.hex())] or m[3] != [1, Hex(b.hex())]:
                mism.append(("codec", b[:8].hex(), "hex / base64 of the model differ from the library"))
        job([8, b], cb)
        res["evaluations"] += 1

    # ================================================================ run the model
    if st["model_ok"]:
        rounds = 0
        while model_jobs and rounds < 3:
            jobs, model_jobs[:] = list(model_jobs), []
            try:
                outs = run_model_big(ctx, [j[0] for j in jobs])
            except RuntimeError as e:
                viol("C05", "model-eval", str(e)[-300:], {"output": str(e)}, False)
                break
            for (val, cb), m in zip(jobs, outs):
                try:
                    cb(m)
                except Exception as e:      # a callback must never hide a disagreement
                    mism.append(("callback", str(val[0]), repr(e)[:200]))
            model_jobs.extend(later)
            later.clear()
            rounds += 1
        if mism:
            kinds = {}
            for m in mism:
                kinds[m[0]] = kinds.get(m[0], 0) + 1
            viol("C05", "correspondence", "model and implementation disagree on %d observation(s) (first: %s)" % (len(mism), " / ".join(str(x) for x in mism[0])),
                 {"mismatches": [list(m) for m in mism[:25]], "by_kind": kinds, "broken": "correspondence FmtCAT.Run"}, False)
    res["mismatches"] = len(mism)
    res["cases"] = {"magic": len(M), "catalogs": len(CAT), "pkcs_signatures": len(PK), "pkcs_verifications": cov_p["verifications"], "third_party_signatures": cov_p["third_party"],
                    "cosign": len(CS), "rpm": len(RP), "server": len(SRV)}
    res["distinct"] = len(distinct)
    res["samples"] = [{"cat": CAT[0]["name"], "rounds": [(x["key"], x["hash"], x["st"]) for x in CAT[0]["rounds"]]} if CAT else {},
                      {"pkcs": PK[0]["name"], "detached": PK[0]["detached"], "verifs": [(v["what"], v["st"]) for v in PK[0].get("verifs", [])]} if PK else {},
                      {"cosign": CS[0]["name"], "st": CS[0]["st"]} if CS else {}, {"rpm": RP[0]["name"], "rounds": [(x["hash"], x["st"], x.get("patch")) for x in RP[0]["rounds"]]} if RP else {}]
    cov_cat["content_sizes"] = sorted(set(cov_cat["content_sizes"]))[:40]
    return res


def run(ctx, replay=None):
    ctx.unit = "fmtcat"
    try:
        cb = body(ctx, replay)
    except Exception:          # an oracle that crashes must not pass silently, nor hide what was found before
        import traceback
        tb = traceback.format_exc()
        ctx.violation("%s:cat:check-crash" % ctx.pid, "the check itself failed: " + tb.strip().splitlines()[-1], {"traceback": tb[-3000:]}, False)
        cb = {"evaluations": 0, "distinct": 0, "samples": [], "notes": ["check crashed"], "cases": {}, "mismatches": None}
        if not hasattr(ctx, "status"):
            ctx.status = {"proofs_ok": False, "broken": [], "hygiene": [], "built": {}, "theorems": [], "discharged": 0, "props": []}
    ctx.proof_verdict()
    cov = ctx.proof_coverage(["srcgen translator (signers/cat.sign, signers/pkcs.Verify, pkcs7 builder entry points, TimestampAndMarshal call shape, magic.Detect clauses, "
                              "signers/cosign sign / newPayload / digestManifest / digestPayload incl. struct tags, constants and literal fields, signers/rpm sign / verify / nevra; "
                              "go-rpmutils, go-digest and image-spec constants from the module cache)",
                              "C16's CMS model (parser, emitter, ContentInfo.Bytes, builder, SignedData.Verify) and its theorems, reused",
                              "correspondence harness cmd/drv-fmtcat: the real Signer.Sign / Verify / IsSigned through GetTransform + Apply, the real pkcs7 builder and pkcs.Verify, magic.Detect",
                              "modelled as observed, tied by correspondence and constants only: go-rpmutils (header sizes, which tag covers what, DumpSignatureHeader output), encoding/json, "
                              "encoding/base64, go-digest formatting, crypto primitives"],
                             ["signers/cat:.sign", "signers/pkcs:.Verify", "signers/cosign:.sign", "signers/cosign:.newPayload", "signers/cosign:.digestManifest", "signers/rpm:.sign",
                              "signers/rpm:.verify", "signers/rpm:.nevra", "lib/pkcs7:SignatureBuilder.SetContentInfo", "lib/pkcs7:SignatureBuilder.Sign", "lib/magic:.Detect"])
    cov.update({"evaluations": cb["evaluations"], "distinct_nontrivial": cb["distinct"],
                "rule": "catalogs: fixture hyperv.cat (whole, truncated, NUL padded, with garbage) and harness-written SignedData with CTL content whose sizes cross the 127/128, 255/256 and "
                        "65535/65536 length-encoding boundaries, 0-2 foreign signer infos, foreign certificates, unsigned, detached, OCTET STRING eContent, wrong content types, lax wrappers, "
                        "BER, bit flips; three signing rounds with changing key (RSA, ECDSA chain of two) and digest; every output read by an RFC 5652 reader and verified by hand (RSA) / openssl dgst (ECDSA) "
                        "and by openssl smime -verify. PKCS#7: content sizes 0..65536 (+fixture hello.mof) x detached/attached x signed attributes x key x digest, verified by relic with the same, "
                        "flipped, truncated, extended, empty and no content and with integrity checks off; openssl cms -verify on relic's output, relic on openssl cms -sign output. cosign: every "
                        "allowed media type x key x digest, unsignable and malformed manifests, 4 MiB boundary, --optional variants; payload, descriptors and signature re-derived. RPM: fixture and "
                        "harness-written packages (payload 0..70000, reserved space -1..2000, digest tag subsets, region tags), three rounds; signatures verified by an RFC 4880 computation over the "
                        "header / header+payload of an independent format reader, gpgv on the header signature",
                "samples": cb["samples"], "case_counts": cb.get("cases"), "model_mismatches": cb.get("mismatches"),
                "cat": cb.get("cat"), "pkcs": cb.get("pkcs"), "srv": cb.get("srv"), "tamper": cb.get("tamper"), "cosign": cb.get("cosign"), "rpm": cb.get("rpm"), "unit_notes": cb.get("notes"), "aspect_theorems": ASPECT_THEOREMS})
    return ctx.finish("proof", cov, ["cryptographic primitives are symbolic in the theorems (C16's crypto record / Laws.Pipeline section variables); the harness checks real RSA and ECDSA signatures",
                                     "timestamping is not exercised (no TSA offline): cert.Timestamper is nil in every run and in the model; C10 / C16 cover the token path",
                                     "go-rpmutils, encoding/json, encoding/base64 and go-digest are third-party: their results are inputs of the model (json_ok / media type, header sizes) or "
                                     "re-implemented from the specification and compared on every case",
                                     "cosign --optional values other than the default are judged by the model-free oracle only (the Coq model covers the default payload)"])
