# C08 — re-signing replaces the signature; digests ignore existing signatures (end-to-end half + Coq laws)
import concurrent.futures, json, os, shutil, zipfile
from vlib import e2e, formats, c03_readers as R, c03_derive as D

NOT_SIGNABLE = {"mach-o-fat"}
# formats whose signatures live in named slots (a second signature under another name is additional, not a replacement)
SLOTTED = {"deb"}
# histories: (key, digest) per round; digests restricted per type by what the type supports
HISTORIES = [[("rsa2048", "sha256"), ("rsa2048", "sha256")],
             [("rsa2048", "sha256"), ("p256", "sha512"), ("rsa3072", "sha256")],
             [("p384", "sha256"), ("rsa2048", "sha512"), ("p521", "sha256"), ("rsa2048", "sha256"), ("p256", "sha256")]]
PGP_HISTORIES = [[("rsa2048", "sha256"), ("rsa2048", "sha512")], [("rsa2048", "sha512"), ("rsa2048", "sha256"), ("rsa2048", "sha384")]]
SUPPORTED_DIGESTS = {"apk": {"sha256", "sha512"}, "appx": {"sha256", "sha384", "sha512"}, "dmg": {"sha1", "sha256", "sha384"}, "mach-o": {"sha1", "sha256", "sha384"},
                     "xar": {"sha1", "sha256", "sha512"}}


def zip_payload(path):
    """independent view of a zip-based artefact: non-signature members (name, bytes), in order"""
    out = []
    with zipfile.ZipFile(path) as z:
        for i in z.infolist():
            n = i.filename
            up = n.upper()
            if up.startswith("META-INF/") and (up.endswith((".SF", ".RSA", ".EC", ".DSA")) or up == "META-INF/MANIFEST.MF"):
                continue
            if n.startswith("package/services/digital-signature/") or n in ("AppxSignature.p7x", "AppxMetadata/CodeIntegrity.cat", "[Content_Types].xml", "_rels/.rels", "AppxBlockMap.xml", "AppxManifest.xml"):   # AppxManifest: publisher identity is rewritten to the signer's
                continue
            out.append((n, z.read(i)))
    return out


def run(ctx, replay=None):
    frag, units = formats.proof_part(ctx)
    kit = e2e.Kit(ctx, with_server=False)
    if kit.build_error:
        ctx.violation("C08:relic-build", "relic binary / probe does not build: " + kit.build_error[-400:], {"stderr": kit.build_error[-3000:]}, False)
        return ctx.finish("proof", dict(frag, evaluations=1, distinct_nontrivial=0, rule="build failed", samples=[]), [])
    outdir = os.path.join(kit.dir, "c08")
    os.makedirs(outdir, exist_ok=True)
    jobs = []
    for fx, (st, trust) in e2e.FIXTURES.items():
        if st in NOT_SIGNABLE or st == "pgp":        # detached PGP signatures have no container to re-sign
            continue
        hs = PGP_HISTORIES if trust == "pgp" else HISTORIES
        if ctx.tier != "thorough":
            hs = hs[:2] if trust != "pgp" else hs[:1]
        for hi, h in enumerate(hs):
            ok = SUPPORTED_DIGESTS.get(st)
            h2 = [(k, d if not ok or d in ok else "sha256") for k, d in h]
            jobs.append((fx, st, trust, hi, h2))

    # generated compound files (harness-owned writer): plain, 4096-byte sectors, and inputs that already carry a signature stream whose
    # size sits at the mini-stream cutoff — the history then replaces a stream stored in the OTHER allocation table
    for name, vclass, blob in D.cfb_variants(ctx.tier):
        if vclass not in ("generated", "v4", "foreign-signature", "free-sectors"):
            continue
        p = os.path.join(outdir, name + ".msi")
        with open(p, "wb") as f:
            f.write(blob)
        for hi, h in enumerate(HISTORIES[:2] if ctx.tier != "thorough" else HISTORIES):
            jobs.append((p, "msi", "x509", hi, list(h)))

    def one(j):
        fx, st, trust, hi, hist = j
        src = fx if os.path.isabs(fx) else kit.fixture(fx)
        tag = fx.replace("/", "_")
        res = {"fixture": fx, "sigtype": st, "history": hist, "rounds": []}
        probe0 = kit.issigned([src])
        res["input_signed_probe"] = probe0[0].get("signed") if probe0 else None
        cur = src
        base_payload = None
        if zipfile.is_zipfile(src):
            try:
                base_payload = zip_payload(src)
            except Exception as e:
                res["payload_reader_error"] = str(e)
        base_view = None
        if st == "msi":
            # independent CFB reader (written from MS-CFB, shared with C03): streams, storages, names, order, metadata
            base_view = R.read("msi", open(src, "rb").read(), os.path.basename(src))
            if base_view.wf:
                res["payload_reader_error"] = "; ".join(base_view.wf[:2])
                base_view = None
        for ri, (key, dg) in enumerate(hist):
            out = os.path.join(outdir, "h%d.r%d.%s" % (hi, ri, tag))
            rc, txt = kit.sign(key, cur, out, digest=dg)
            rd = {"key": key, "digest": dg, "sign_exit": rc, "msg": txt.strip().splitlines()[-1][:200] if txt.strip() else ""}
            if rc != 0:
                res["rounds"].append(rd)
                break
            v = kit.verifyjson([out], key=key)[0]
            rd["verify_ok"] = v.get("ok")
            rd["verify_err"] = v.get("err")
            rd["nsigs"] = len(v.get("sigs") or [])
            rd["leaf_ok"] = any(s.get("leaf_sha1") == kit.leaf_sha1(key) for s in v.get("sigs") or []) if trust == "x509" else any(s.get("pgp_keyid") for s in v.get("sigs") or [])
            # the previous key's certificate alone must no longer validate it (signature replaced), unless same key
            if ri > 0 and hist[ri - 1][0] != key and trust == "x509":
                vp = kit.verifyjson([out], key=hist[ri - 1][0])[0]
                rd["old_key_still_accepted"] = bool(vp.get("ok"))
            pr = kit.issigned([out])
            rd["probe_signed"] = pr[0].get("signed") if pr else None
            if base_payload is not None:
                try:
                    rd["payload_same"] = zip_payload(out) == base_payload
                except Exception as e:
                    rd["payload_same"] = False
                    rd["payload_err"] = str(e)
            if base_view is not None:
                vout = R.read("msi", open(out, "rb").read(), os.path.basename(out))
                diffs = R.compare("msi", base_view, vout)
                if vout.wf or vout.soft:
                    rd["payload_same"], rd["payload_err"] = False, "output is not a well-formed compound file: " + "; ".join((vout.wf + vout.soft)[:3])
                elif diffs:
                    rd["payload_same"], rd["payload_err"] = False, "; ".join(diffs[:3])
                else:
                    rd["payload_same"] = True
            res["rounds"].append(rd)
            cur = out
        return res

    with concurrent.futures.ThreadPoolExecutor(max_workers=12) as ex:
        results = list(ex.map(one, jobs))
    kit.close()
    n_eval, distinct = 0, set()
    unsigned_fixtures = {"hello.jar", "ClassLibrary1.dll", "dummy.msi", "dummy.cab", "hello.ps1", "hello.ps1xml", "hello.mof",
                         "dummy.xap", "dummy.apk", "zlib1g_1.2.8.dfsg-5_i386.deb", "WindowsFormsApplication1.exe.manifest", "dummy.dmg", "dummy.pkg"}
    for r in results:
        ident = {"fixture": r["fixture"], "history": r["history"]}
        st = r["sigtype"]
        if r["fixture"] in unsigned_fixtures and r["input_signed_probe"] is True:
            ctx.violation("C08:spec:%s:probe-true-on-unsigned" % st, "is-signed probe answers true for the unsigned fixture %s" % r["fixture"], ident)
        for ri, rd in enumerate(r["rounds"]):
            n_eval += 1
            where = "round %d (%s/%s) of %s" % (ri + 1, rd["key"], rd["digest"], r["fixture"])
            if rd["sign_exit"] != 0:
                ctx.violation("C08:spec:%s:resign-failed" % st if ri > 0 else "C08:spec:%s:sign-failed" % st, "%s: signing failed: %s" % (where, rd["msg"]), dict(ident, round=ri))
                break
            distinct.add(json.dumps([st, ri, rd["key"], rd["digest"]]))
            if not rd["verify_ok"] or not rd["leaf_ok"]:
                ctx.violation("C08:spec:%s:not-verifiable-after-resign" % st, "%s: output does not verify under the last key: %s" % (where, rd.get("verify_err")), dict(ident, round=ri))
            if rd.get("old_key_still_accepted"):
                ctx.violation("C08:spec:%s:old-signature-kept" % st, "%s: still validates with only the PREVIOUS key trusted — earlier signature was not replaced" % where, dict(ident, round=ri))
            if st not in SLOTTED and rd["nsigs"] > (2 if st == "apk" else 1):
                ctx.violation("C08:spec:%s:signature-count" % st, "%s: %d signatures present after re-signing" % (where, rd["nsigs"]), dict(ident, round=ri))
            if rd["probe_signed"] is not True:
                ctx.violation("C08:spec:%s:probe-false-on-signed" % st, "%s: is-signed probe does not answer true for relic's output" % where, dict(ident, round=ri))
            if rd.get("payload_same") is False:
                ctx.violation("C08:spec:%s:payload-changed" % st, "%s: payload items differ from the original's (%s)" % (where, rd.get("payload_err", "content/order")), dict(ident, round=ri))
    cov = dict(frag)
    cov.update({"evaluations": n_eval, "distinct_nontrivial": len(distinct),
                "rule": "every signable container fixture (unsigned, and the third-party-signed hyperv.cat, App1 appx, rocky rpm) signed 2-3 times (5 in thorough) with changing keys (RSA-2048/3072, P-256/384/521) and digests; after each round: verify under the last key, previous key alone must fail, signature count, is-signed probe true (false on unsigned inputs), zip-based payload (python zipfile) equal to the original; distinct = (type, round, key, digest)",
                "samples": [{"fixture": r["fixture"], "rounds": [{k: rd.get(k) for k in ("key", "digest", "sign_exit", "verify_ok", "nsigs")} for rd in r["rounds"]]} for r in results[:3]]})
    return ctx.finish("proof", cov, ["symbolic cryptography in the Coq laws", "byte-level per-format digest-stability proofs come from the format modules"])
