# C04 — a key is used only for callers entitled to it
import ipaddress, json

FP = ["internal/authmodel:", "internal/realip:", "config:Config.GetKey", "config:ClientConfig.Match", "server:Server.serve", "server:Server.Handler"]
CERT_FP = {"leaf1": 101, "leaf2": 102, "leafA": 103, "leafAnoeku": 104, "leafAexp": 105, "leafB": 106}
CERT_CA = {"leafA": 1}            # only leafA verifies under the configured CA (EKU ok, not expired)
ROLE = {"r1": 1, "r2": 2, "r3": 3}
EPS = {"sign": 0, "getkey": 1, "list": 2, "home": 3}

def trusted_addr(a, nets):
    if a == "@":
        return True
    try:
        ip = ipaddress.ip_address(a)
    except ValueError:
        return False
    for n in nets:
        net = ipaddress.ip_network(n if "/" in n else n + ("/32" if ":" not in n else "/128"), strict=False)
        if ip.version == net.version and ip in net:
            return True
    return False

def strip_port(p):
    if p == "@":
        return p
    if p.startswith("["):
        return p[1:p.index("]")]
    return p.rsplit(":", 1)[0]

def hops_of(xff):
    out = []
    for v in xff or []:
        for h in v.split(","):
            h = h.strip()
            if h:
                out.append(h)
    return out

class Names:
    def __init__(self):
        self.ids = {"": 0}
    def id(self, s):
        if s not in self.ids:
            self.ids[s] = 1000 + len(self.ids)
        return self.ids[s]

def oracle(cs, rq):
    """expected observable from the property text: ('status', set_of_codes) or ('touch', token) or ('list', names)"""
    nets = cs["trusted"]
    peer = strip_port(rq["peer"])
    hops = hops_of(rq["xff"])
    proxied = trusted_addr(peer, nets) and len(hops) > 0
    certname = rq["hdr"] if proxied else rq["tls"]
    roles = None
    if certname:
        for cl in cs["clients"]:
            if cl["cert"] == certname:
                roles = set(cl["roles"] or [])
        if roles is None and certname in CERT_CA:
            for cl in cs["clients"]:
                if cl["cert"] == "CA:A":
                    roles = set(cl["roles"] or [])
    if roles is None:
        return ("status", {401})
    keys = {k["name"]: k for k in cs["keys"]}
    def resolve(n):
        k = keys.get(n)
        if k is None:
            return None
        if k["alias"]:
            k = keys.get(k["alias"])
        return k
    def could_sign(n):
        k = resolve(n)
        return k is not None and k["token"] != "" and bool(roles & set(k["roles"] or []))
    if rq["ep"] == "home":
        return ("status", {200})
    if rq["ep"] == "list":
        return ("list", sorted(n for n, k in keys.items() if not k["hide"] and could_sign(n) and not resolve(n)["hide"]))
    if rq["ep"] == "sign" and (rq["key"] == "" or rq["no_file"]):
        return ("status", {400})
    if not could_sign(rq["key"]):
        return ("status", {403})
    if rq["ep"] == "sign" and (rq["sigtype"] == "nosuch" or rq["digest"] == "md99"):
        return ("status", {400})
    tok = resolve(rq["key"])["token"]
    if tok not in cs["tokens"]:
        return ("status", {500})
    return ("touch", tok)

def run(ctx, replay=None):
    st = ctx.prepare(["C04_gen"], ["C04"], "C04.Run")
    if not st["harness_ok"]:
        return ctx.finish("proof", ctx.proof_coverage([], FP), [])
    if replay:
        rp = json.load(open(replay))
        cases, ipcases = rp.get("cases", []), rp.get("ipcases", [])
    else:
        rc, out, err = ctx.drv(["c04"], timeout=600)
        if rc != 0:
            ctx.violation("C04:driver-crash", "driver failed: " + err[-600:], {"stderr": err[-3000:]}, False)
        cases = [json.loads(l) for l in out.splitlines() if l.strip()]
        rc, out, err = ctx.drv(["c04ip"], timeout=300)
        ipcases = [json.loads(l) for l in out.splitlines() if l.strip()]
    n_eval, n_spec, n_corr = 0, 0, 0
    distinct = set()
    vals, meta = [], []
    for cs in cases:
        nm = Names()
        kvals = [[nm.id(k["name"]), nm.id(k["token"]), nm.id(k["alias"]), [ROLE[r] for r in (k["roles"] or [])], k["hide"]] for k in cs["keys"]]
        cvals = [[0, 1, [ROLE[r] for r in (c["roles"] or [])]] if c["cert"].startswith("CA:") else [CERT_FP[c["cert"]], 0, [ROLE[r] for r in (c["roles"] or [])]] for c in cs["clients"]]
        tvals = [nm.id(t) for t in cs["tokens"]]
        for rq in cs["reqs"]:
            n_eval += 1
            exp = oracle(cs, rq)
            touched = rq["touched"] or []
            got = ("touch", touched[0].split(":")[0]) if touched else (("list", rq["listing"]) if rq["ep"] == "list" and rq["status"] == 200 else ("status", rq["status"]))
            ok = (exp[0] == got[0] == "touch" and exp[1] == got[1] and len(touched) == 1) or \
                 (exp[0] == got[0] == "list" and exp[1] == got[1]) or (exp[0] == "status" and got[0] == "status" and got[1] in exp[1])
            if exp[0] != "status" or exp[1] != {401}:
                distinct.add(json.dumps([cs["id"], rq["ep"], rq["key"], rq["peer"], rq["tls"], rq["xff"], rq["hdr"]]))
            if not ok:
                n_spec += 1
                if n_spec <= 3:
                    kind = "token-touched-unentitled" if got[0] == "touch" else ("listing" if exp[0] == "list" else "refusal")
                    ctx.violation("C04:spec:" + kind, "expected %s, observed %s for %s %s (peer %s tls %s hdr %s xff %s)" % (exp, got, rq["ep"], rq["key"], rq["peer"], rq["tls"], rq["hdr"], rq["xff"]),
                                  {"cases": [dict(cs, reqs=[rq])]})
            peer = strip_port(rq["peer"])
            hops = [[nm.id(h), trusted_addr(h, cs["trusted"])] for h in hops_of(rq["xff"])]
            cert = lambda n: [[CERT_FP[n], CERT_CA.get(n, 0)]] if n else []
            vals.append([kvals, cvals, tvals, [EPS[rq["ep"]], nm.id(rq["key"]), not rq["no_file"], rq["sigtype"] != "nosuch", rq["digest"] != "md99", True,
                                               nm.id(peer), trusted_addr(peer, cs["trusted"]), hops, cert(rq["tls"]), cert(rq["hdr"])]])
            meta.append((cs, rq, nm, got))
    # realip in isolation: oracle = rightmost untrusted hop behind trusted peers, else the peer; headers ignored for untrusted peers
    nets = ["10.0.0.0/8", "192.168.7.7", "fd00::/8", "2001:db8::1"]
    for ic in ipcases:
        n_eval += 1
        peer = strip_port(ic["peer"])
        hops = hops_of(ic["xff"])
        if not trusted_addr(peer, nets) or not hops:
            exp_addr, proxied = peer, False
        else:
            unt = [h for h in hops if not trusted_addr(h, nets)]
            exp_addr, proxied = (unt[-1] if unt else hops[0]), True
        exp_src = ("hdr" if ic["has_hdr"] else "none") if proxied else ("tls" if ic["has_tls"] else "none")
        if (ic["addr"], ic["cert_src"]) != (exp_addr, exp_src):
            n_spec += 1
            ctx.violation("C04:spec:proxy-headers", "recorded address/cert source %s/%s, expected %s/%s" % (ic["addr"], ic["cert_src"], exp_addr, exp_src), {"ipcases": [ic]})
    if st["model_ok"] and vals:
        res = ctx.run_model(vals)
        for (cs, rq, nm, got), m in zip(meta, res):
            kind, a, b, listing, ip, proxied = m
            rev = {v: k for k, v in nm.ids.items()}
            if kind == 0:
                mo = ("status", a)
            elif kind == 1:
                mo = ("touch", rev.get(a, "?"))
            else:
                mo = ("list", sorted(rev.get(x, "?") for x in listing))
            if mo != got:
                n_corr += 1
                if n_corr <= 2 and not any(v[2] for v in ctx.violations):
                    ctx.violation("C04:correspondence", "model %s vs implementation %s for %s %s" % (mo, got, rq["ep"], rq["key"]),
                                  {"cases": [dict(cs, reqs=[rq])], "broken": "correspondence C04.Run"}, False)
            elif kind == 1 and rq["touched"] and rq["touched"][0].split(":")[2] != rev.get(b, "?"):
                n_corr += 1
                if n_corr <= 2 and not any(v[2] for v in ctx.violations):
                    ctx.violation("C04:correspondence-keyname", "model passes key %s to the token, implementation %s" % (rev.get(b), rq["touched"]),
                                  {"cases": [dict(cs, reqs=[rq])], "broken": "correspondence C04.Run"}, False)
    ctx.proof_verdict()
    cov = ctx.proof_coverage(["srcgen: GetKey conditions, serveSign denial condition and call order, serveListKeys/serveGetKey conditions",
                              "harness cmd/drv c04/c04ip: real server.Handler() (realip, logging, recovery, auth middleware, views) with recording fake tokens, real X.509 material minted per run; realip.Middleware/PeerCertificates in isolation",
                              "x509 chain verification is an oracle in the model (which CA verifies which leaf); OPA policy mode is not exercised by this check; TLS handshake not run"], FP)
    dist = {}
    for cs in cases:
        for rq in cs["reqs"]:
            k = "%s/status=%s" % (rq["ep"], rq["status"])
            dist[k] = dist.get(k, 0) + 1
    cov.update({"evaluations": n_eval, "distinct_nontrivial": len(distinct),
                "rule": "configurations: 11 key shapes (plain, hidden, token-less, unserved token, alias ok/dangling/chain/to-hidden/to-token-less/with-own-token) with random role sets x 3 clients (2 by fingerprint, 1 by CA) ; requests: 17 identity scenarios (trusted/untrusted/unix peers, TLS chain kinds, X-Forwarded-For / Ssl-Client-Cert) x (12 names x {sign, key-info} + list + home + malformed parameters); distinct = requests not ending in 401",
                "samples": [{"ep": r["ep"], "key": r["key"], "tls": r["tls"], "hdr": r["hdr"], "peer": r["peer"], "status": r["status"], "touched": r["touched"]} for r in (cases[0]["reqs"][:3] if cases else [])],
                "status_distribution": dist, "spec_mismatches": n_spec, "model_mismatches": n_corr, "realip_cases": len(ipcases)})
    return ctx.finish("proof", cov, ["x509 verification oracle", "policy (OPA) mode covered by model only"])
