# C04 — a key is used only for callers entitled to it
import ipaddress, json, os, collections

FP = ["internal/authmodel:", "internal/realip:", "config:Config.GetKey", "config:ClientConfig.Match", "config:KeyConfig.Name", "server:Server.serve", "server:Server.Handler",
      "server:Server.getKeyInfo", "server:Server.openTokens", "internal/signinit:", "token/filetoken:", "token/tokencache:Cache.GetKey", "token/worker:", "cmdline/workercmd:handler.handle"]
CERT_FP = {"leaf1": 101, "leaf2": 102, "leafA": 103, "leafAnoeku": 104, "leafAexp": 105, "leafB": 106}
CERT_CA = {"leafA": 1}            # only leafA verifies under the configured CA (EKU ok, not expired)
ROLE = {"r1": 1, "r2": 2, "r3": 3}
EPS = {"sign": 0, "getkey": 1, "list": 2, "home": 3}

def trusted_addr(a, nets):
    if a == "@":
        return True
    try:
        ip = ipaddress.ip_address(a)
    except ValueError:
        return False
    for n in nets:
        net = ipaddress.ip_network(n if "/" in n else n + ("/32" if ":" not in n else "/128"), strict=False)
        if ip.version == net.version and ip in net:
            return True
    return False

def strip_port(p):
    if p == "@":
        return p
    if p.startswith("["):
        return p[1:p.index("]")]
    return p.rsplit(":", 1)[0]

def hops_of(xff):
    out = []
    for v in xff or []:
        for h in v.split(","):
            h = h.strip()
            if h:
                out.append(h)
    return out

class Names:
    def __init__(self):
        self.ids = {"": 0}
    def id(self, s):
        if s not in self.ids:
            self.ids[s] = 1000 + len(self.ids)
        return self.ids[s]

def oracle(cs, rq):
    """expected observable from the property text: ('status', set_of_codes) or ('touch', token) or ('list', names)"""
    nets = cs["trusted"]
    peer = strip_port(rq["peer"])
    hops = hops_of(rq["xff"])
    proxied = trusted_addr(peer, nets) and len(hops) > 0
    certname = rq["hdr"] if proxied else rq["tls"]
    roles = None
    if certname:
        for cl in cs["clients"]:
            if cl["cert"] == certname:
                roles = set(cl["roles"] or [])
        if roles is None and certname in CERT_CA:
            for cl in cs["clients"]:
                if cl["cert"] == "CA:A":
                    roles = set(cl["roles"] or [])
    if roles is None:
        return ("status", {401})
    keys = {k["name"]: k for k in cs["keys"]}
    def resolve(n):
        k = keys.get(n)
        if k is None:
            return None
        if k["alias"]:
            k = keys.get(k["alias"])
        return k
    def could_sign(n):
        k = resolve(n)
        return k is not None and k["token"] != "" and bool(roles & set(k["roles"] or []))
    if rq["ep"] == "home":
        return ("status", {200})
    if rq["ep"] == "list":
        return ("list", sorted(n for n, k in keys.items() if not k["hide"] and could_sign(n) and not resolve(n)["hide"]))
    if rq["ep"] == "sign" and (rq["key"] == "" or rq["no_file"]):
        return ("status", {400})
    if not could_sign(rq["key"]):
        return ("status", {403})
    if rq["ep"] == "sign" and (rq["sigtype"] == "nosuch" or rq["digest"] == "md99"):
        return ("status", {400})
    tok = resolve(rq["key"])["token"]
    if tok not in cs["tokens"]:
        return ("status", {500})
    return ("touch", tok)


# ---------------------------------------------------------------------------------------------------------------------
# request sequences on one long-lived server (c04seq)
EKU_CLIENT, EKU_ANY = 2, 0

def seq_verifies(certs, roots, chain, now_ms):
    """RFC 5280 path validation restricted to what the harness varies, written from the specification: validity period at
    the time of the request, extended key usage (absent = unrestricted, any = every purpose) on every certificate of the
    path, signature path to a trust anchor through CA certificates presented by the peer."""
    if not chain or not roots:
        return False
    def time_ok(c):
        return c["nb_ms"] <= now_ms <= c["na_ms"]
    def eku_ok(c):
        return (not c["eku"]) or EKU_ANY in c["eku"] or EKU_CLIENT in c["eku"]
    leaf = certs[chain[0]]
    inter = [certs[n] for n in chain[1:]]
    if not (time_ok(leaf) and eku_ok(leaf)):
        return False
    if leaf["name"] in roots:
        return True
    def path(c, depth):
        if c["signer"] in roots and c["signer"] != c["name"]:
            return True
        if depth == 0:
            return False
        return any(i["name"] == c["signer"] and i["name"] != c["name"] and i["ca"] and time_ok(i) and eku_ok(i) and path(i, depth - 1) for i in inter)
    return path(leaf, len(inter))

def seq_recognisers(certs, cs, chain, now_ms):
    """the client entries that recognise the presented chain, by the property text: keyed by the certificate's public key,
    or the chain verifies now against the entry's CA pool"""
    out = []
    if not chain:
        return out
    leaf = certs[chain[0]]
    for cl in cs["clients"] or []:
        mk = cl["mapkey"]
        if mk[:3] in ("fp:", "FP:") and mk[3:] == leaf["key"]:
            out.append(cl)
        elif seq_verifies(certs, cl["ca"] or [], chain, now_ms):
            out.append(cl)
    return out

def seq_expect(cs, rq, roles):
    """expected observable for a caller with these roles (property text; same decision order as the single-request oracle)"""
    roles = set(roles or [])
    keys = {k["name"]: k for k in cs["keys"]}
    def resolve(n):
        k = keys.get(n)
        if k is None:
            return None
        if k["alias"]:
            k = keys.get(k["alias"])
        return k
    def could_sign(n):
        k = resolve(n)
        return k is not None and k["token"] != "" and bool(roles & set(k["roles"] or []))
    if rq["ep"] == "home":
        return ("status", 200)
    if rq["ep"] == "list":
        return ("list", sorted(n for n, k in keys.items() if not k["hide"] and could_sign(n) and not resolve(n)["hide"]))
    if rq["ep"] == "sign" and rq["key"] == "":
        return ("status", 400)
    if not could_sign(rq["key"]):
        return ("status", 403)
    tok = resolve(rq["key"])["token"]
    if tok not in cs["tokens"]:
        return ("status", 500)
    return ("touch", tok)

def seq_got(rq, o):
    touched = o["touched"] or []
    if touched:
        return ("touch", touched[0].split(":")[0]) if len(touched) == 1 else ("touch-many", touched)
    if rq["ep"] == "list" and o["status"] == 200:
        return ("list", sorted(o["listing"] or []))
    return ("status", o["status"])

def seq_effective(rq):
    """which presented chain counts: behind the trusted proxy the header, otherwise the TLS chain (the chain under test
    is always the one that counts; the decoy must be ignored)"""
    return rq["chain"] or []

def seq_replay_obj(certs, cs, upto):
    used = set()
    reqs = cs["reqs"][:upto + 1]
    for r in reqs:
        used.update(r["chain"] or [])
        used.update(r.get("decoy") or [])
    for cl in cs["clients"] or []:
        used.update(cl["ca"] or [])
        if cl["mapkey"][:3] in ("fp:", "FP:"):
            used.update(n for n, c in certs.items() if c["key"] == cl["mapkey"][3:])
    more = True
    while more:   # signers, so that the descriptions stay self-contained
        more = False
        for n in list(used):
            if certs[n]["signer"] not in used:
                used.add(certs[n]["signer"]); more = True
    return {"certs": [certs[n] for n in sorted(used)], "seqs": [dict(cs, reqs=reqs)],
            "how": "bin/check C04 --replay <this file> re-runs the sequence on the current tree (drv-c04 c04seq replay); the certificates are valid for about an hour after they were minted"}

def seq_judge(ctx, certs, seqs, counters):
    """model-free oracles on every request of every sequence: (1) property text, (2) equality with a fresh server"""
    reported = set()
    for cs in seqs:
        for i, rq in enumerate(cs["reqs"]):
            counters["seq_requests"] += 1
            chain = seq_effective(rq)
            recs = seq_recognisers(certs, cs, chain, rq["now_ms"])
            got = seq_got(rq, rq["got"])
            fresh = seq_got(rq, rq["fresh"])
            if recs:
                exps = [seq_expect(cs, rq, cl["roles"]) for cl in recs]
                counters["seq_recognised"] += 1
            else:
                exps = [("status", 401)]
            earlier_ok = any(seq_recognisers(certs, cs, seq_effective(p), p["now_ms"]) for p in cs["reqs"][:i])
            if not recs and earlier_ok:
                counters["seq_unrecognised_after_recognised"] += 1
            samekey_before = [p for p in cs["reqs"][:i] if seq_effective(p) and chain and certs[seq_effective(p)[0]]["key"] == certs[chain[0]]["key"]
                              and seq_effective(p)[0] != chain[0]]
            if samekey_before:
                counters["seq_same_key_other_certificate_before"] += 1
            auth = rq["got"]["auth"]
            auth_ok_expected = bool(recs)
            bad = None
            if got not in exps:
                if not recs:
                    what = "served" if got[0] in ("touch", "list", "touch-many") or got == ("status", 200) else "answered %s" % (got,)
                    kind = "unrecognised-certificate-" + ("served" if what == "served" else "not-401")
                    if what == "served" and earlier_ok:
                        kind += "-after-recognised-request"
                else:
                    kind = "token-touched-unentitled" if got[0].startswith("touch") else ("listing" if rq["ep"] == "list" else "refusal")
                bad = ("C04:spec:history:" + kind, True,
                       "request %d of a sequence on one server (%s): %s %s with chain %s via %s: expected %s by the property text, observed %s%s" %
                       (i + 1, cs["cfg"], rq["ep"], rq["key"], chain, rq["via"], exps if len(exps) > 1 else exps[0], got,
                        "; a fresh server answers %s" % (fresh,) if fresh != got else ""))
            elif auth["ok"] != auth_ok_expected or (auth["ok"] and not any(sorted(auth["roles"] or []) == sorted(cl["roles"] or []) for cl in recs)):
                bad = ("C04:spec:history:authenticator-identity", True,
                       "request %d of a sequence (%s): chain %s via %s: the long-lived authenticator reports %s, the entries recognising the certificate are %s" %
                       (i + 1, cs["cfg"], chain, rq["via"], {k: auth[k] for k in ("ok", "name", "roles")}, [(cl["mapkey"], cl["roles"]) for cl in recs]))
            elif rq["got"] != rq["fresh"]:
                g2, f2 = dict(rq["got"]), dict(rq["fresh"])
                bad = ("C04:history-dependence", False,
                       "request %d of a sequence (%s): %s %s with chain %s: the long-lived server answers %s / identity %s, a fresh server %s / %s (both acceptable by the property text, but the outcome depends on earlier requests)" %
                       (i + 1, cs["cfg"], rq["ep"], rq["key"], chain, got, g2["auth"], fresh, f2["auth"]))
            if bad:
                counters["seq_spec_mismatches" if bad[1] else "seq_history_dependent"] += 1
                if bad[0] not in reported and len(reported) < 4:
                    reported.add(bad[0])
                    ctx.violation(bad[0], bad[2], seq_replay_obj(certs, cs, i), bad[1])

def seq_model_vals(certs, seqs):
    """history inputs of C04.Run.run_history"""
    cert_id = {n: 100 + i for i, n in enumerate(sorted(certs))}
    key_id, subj_id = {}, {}
    for n in sorted(certs):
        key_id.setdefault(certs[n]["key"], 1000 + len(key_id))
        subj_id.setdefault(certs[n]["subject"], 2000 + len(subj_id))
    def xcert(n):
        c = certs[n]
        return [cert_id[n], key_id[c["key"]], subj_id[c["subject"]], cert_id[c["signer"]], c["nb_ms"], c["na_ms"], list(c["eku"] or []), bool(c["ca"])]
    vals, metas = [], []
    for cs in seqs:
        nm = Names()
        kvals = [[nm.id(k["name"]), nm.id(k["token"]), nm.id(k["alias"]), [ROLE[r] for r in (k["roles"] or [])], k["hide"]] for k in cs["keys"]]
        cvals = []
        for j, cl in enumerate(cs["clients"] or []):
            mk = cl["mapkey"]
            mkid = key_id[mk[3:]] if mk[:3] in ("fp:", "FP:") else 5000 + j
            cvals.append([mkid, [cert_id[x] for x in (cl["ca"] or [])], [ROLE[r] for r in (cl["roles"] or [])], nm.id(cl["nick"])])
        tvals = [nm.id(t) for t in cs["tokens"]]
        rvals = []
        for rq in cs["reqs"]:
            if rq["via"] == "tls":
                peer, trusted, hops, tls, hdr = "203.0.113.9", False, [], rq["chain"], []
            elif rq["via"] == "hdr":
                peer, trusted, hops, tls, hdr = "10.0.0.1", True, [[nm.id("198.51.100.7"), False]], rq.get("decoy") or [], rq["chain"]
            else:
                peer, trusted, hops, tls, hdr = "203.0.113.9", False, [[nm.id("198.51.100.7"), False]], rq["chain"], rq.get("decoy") or []
            rvals.append([EPS[rq["ep"]], nm.id(rq["key"]), True, True, True, True, nm.id(peer), trusted, hops, rq["now_ms"],
                          [xcert(n) for n in (tls or [])], [xcert(n) for n in (hdr or [])]])
        vals.append([1, kvals, cvals, tvals, rvals])
        metas.append((cs, nm))
    return vals, metas

def seq_compare_model(ctx, certs, seqs, counters):
    vals, metas = seq_model_vals(certs, seqs)
    res = ctx.run_model(vals)
    shown = 0
    for (cs, nm), outs in zip(metas, res):
        rev = {v: k for k, v in nm.ids.items()}
        for i, (rq, m) in enumerate(zip(cs["reqs"], outs)):
            kind, a, b, listing, ip, proxied, aok, aroles, anick, adn = m
            if kind == 0:
                mo = ("status", a)
            elif kind == 1:
                mo = ("touch", rev.get(a, "?"))
            else:
                mo = ("list", sorted(rev.get(x, "?") for x in listing))
            got = seq_got(rq, rq["got"])
            auth = rq["got"]["auth"]
            mroles = sorted(k for k, v in ROLE.items() if v in aroles)
            why = None
            if mo != got:
                why = "model %s vs implementation %s" % (mo, got)
            elif bool(aok) != bool(auth["ok"]):
                why = "model authenticated=%s vs implementation %s" % (bool(aok), auth)
            elif aok and (mroles != sorted(auth["roles"] or []) or bool(adn) != bool(auth["subject"])):
                why = "model identity roles %s dn=%s vs implementation %s" % (mroles, bool(adn), auth)
            elif aok and rev.get(anick, "") != "" and rev.get(anick) != auth["name"]:
                why = "model nickname %s vs implementation %s" % (rev.get(anick), auth["name"])
            elif aok and rev.get(anick, "") == "" and rq["chain"] and auth["name"] != certs[rq["chain"][0]]["fp"][:12]:
                why = "model derives the name from the fingerprint, implementation reports %s" % auth["name"]
            if why:
                counters["seq_model_mismatches"] += 1
                shown += 1
                if shown <= 2 and not any(v[2] for v in ctx.violations):
                    ctx.violation("C04:correspondence:history", "request %d of a sequence (%s, %s %s chain %s via %s): %s" % (i + 1, cs["cfg"], rq["ep"], rq["key"], rq["chain"], rq["via"], why),
                                  dict(seq_replay_obj(certs, cs, i), broken="correspondence C04.Run.run_history"), False)

# ---------------------------------------------------------------------------------------------------------------------
# key names end to end (c04names): which entry's key signed / whose certificate was disclosed
NROLE = {"ra": 11, "rb": 12, "rc": 13, "rd": 14}
NCALLER = {"ua": 201, "ub": 202, "uc": 203, "ud": 204, "ur": 205, "ux": 206}

def names_denotes(keys, n):
    """property text: the key a name resolves to, following ONE alias (whatever the entry reached contains)"""
    k = keys.get(n)
    if k is None:
        return None
    if k["alias"]:
        return keys.get(k["alias"])
    return k

def names_alias_of_alias(keys, n):
    """the entry the alias names is itself an alias: the property text allows to treat this as a malformed entry (refuse,
    relic since 1867fd2) or to use the entry reached after the one step — never any other entry"""
    k = keys.get(n)
    t = keys.get(k["alias"]) if k is not None and k["alias"] else None
    return t is not None and bool(t["alias"])

def names_entitled(k, roles):
    return k is not None and k["token"] != "" and bool(set(roles) & set(k["roles"] or []))

def names_judge(ctx, cases, counters):
    """MODEL-FREE oracle, from the property text only: a key is used (signature made with its private key, certificate
    disclosed) only for a recognised caller who shares a role with the entry the requested name resolves to following one
    alias — and the key used is the key of THAT entry; every other request is refused 401/403; listings are exact."""
    reported = set()
    def report(key, detail, cs, rq, found=True):
        counters["names_spec_mismatches"] += 1
        if key not in reported:
            reported.add(key)
            ctx.violation(key, detail, {"namecases": [dict(cs, reqs=[{"ep": rq["ep"], "key": rq["key"], "caller": rq["caller"]}])], "observed": rq,
                                        "how": "bin/check C04 --replay <this file> re-runs the request on the current tree (drv-c04 c04names replay); key material is minted per run, entries keep their pair numbers"}, found)
    for cs in cases:
        keys = {k["name"]: k for k in cs["keys"]}
        by_pair = {}
        for k in cs["keys"]:
            if k["pair"]:
                by_pair.setdefault(k["pair"], []).append(k["name"])
        clients = {c["cert"]: c["roles"] or [] for c in cs["clients"]}
        sign_status = {(r["caller"], r["key"]): r["status"] for r in cs["reqs"] if r["ep"] == "sign"}
        for rq in cs["reqs"]:
            counters["names_requests"] += 1
            roles = clients.get(rq["caller"])
            what = "%s %s as %s (roles %s)" % (rq["ep"], rq["key"], rq["caller"], roles)
            if roles is None:
                if rq["status"] != 401:
                    report("C04:spec:names:unrecognised-served", "%s: expected 401, observed %s" % (what, rq["status"]), cs, rq)
                continue
            if rq["ep"] == "list":
                # names whose alias names another alias are listed exactly when a signing request for them is not refused
                cand = [n for n, k in keys.items() if not k["hide"] and names_entitled(names_denotes(keys, n), roles) and not names_denotes(keys, n)["hide"]]
                exp = sorted(n for n in cand if not names_alias_of_alias(keys, n) or sign_status.get((rq["caller"], n), 403) != 403)
                if rq["status"] != 200 or sorted(rq["listing"] or []) != exp:
                    report("C04:spec:names:listing", "%s: expected %s, observed %s %s" % (what, exp, rq["status"], rq["listing"]), cs, rq)
                continue
            target = names_denotes(keys, rq["key"])
            if names_alias_of_alias(keys, rq["key"]) and rq["status"] == 403:
                counters["names_alias_of_alias_refused"] += 1
                continue
            ok = names_entitled(target, roles)
            via_worker = target is not None and target["token"] in (cs["workers"] or [])
            pre = "C04:spec:worker-" if via_worker else "C04:spec:"
            chain = []
            k, seen = keys.get(rq["key"]), 0
            visited = set()
            while k is not None and seen < 6 and k["name"] not in visited:
                visited.add(k["name"])
                chain.append("%s(roles %s%s)" % (k["name"], k["roles"] or [], ", own key" if k["pair"] else ""))
                if k["alias"] and k["alias"] in visited:
                    chain.append(k["alias"] + " (cycle)")
                k, seen = (keys.get(k["alias"]) if k["alias"] else None), seen + 1
            if not ok:
                if rq["status"] != 403:
                    counters["names_unentitled_not_403"] += 1
                    used = rq["signer"] or rq["disclosed"]
                    report(pre + ("key-used-unentitled" if rq["status"] == 200 else "names:refusal"),
                           "%s, alias path %s: the caller is not entitled to %s; expected 403, observed %s%s" %
                           (what, " -> ".join(chain), target["name"] if target else "anything (name does not resolve)", rq["status"],
                            " using the key of %s" % by_pair.get(used) if used else ""), cs, rq)
                continue
            counters["names_entitled"] += 1
            if rq["status"] == 200 and rq["ep"] == "sign":
                owners = by_pair.get(rq["signer"], [])
                if owners != [target["name"]]:
                    bad = keys.get(owners[0]) if owners else None
                    report("C04:spec:worker-signs-with-other-entry" if via_worker else "C04:spec:sign-uses-other-entry",
                           "%s, alias path %s: the request is authorised against entry %s (one alias), but the returned signature verifies under the certificate of pair %s = the key of entry %s (roles %s; the caller %s entitled to it%s); audit record names %s; %s" %
                           (what, " -> ".join(chain), target["name"], rq["signer"], owners, bad["roles"] if bad else "?",
                            "IS" if bad and names_entitled(bad, roles) else "is NOT", "" if not bad else ", asking for it by name gives %s" % ("200" if names_entitled(names_denotes(keys, bad["name"]), roles) else "403"),
                            rq["audit"], rq.get("verify_err") or "signature verified"), cs, rq)
                elif (rq["certs"] or []) != [rq["signer"]]:
                    report(pre + "sign-attaches-other-certificate", "%s: signed with pair %s, certificates found in the response: %s" % (what, rq["signer"], rq["certs"]), cs, rq)
                else:
                    counters["names_signed_with_checked_entry"] += 1
            elif rq["status"] == 200 and rq["ep"] == "getkey" and rq["disclosed"]:
                owners = [k["name"] for k in cs["keys"] if (k["cert"] or (k["pair"] if k["p12"] else 0)) == rq["disclosed"]]
                if owners != [target["name"]]:
                    bad = keys.get(owners[0]) if owners else None
                    report(pre + "keys-discloses-other-entry",
                           "%s, alias path %s: the request is authorised against entry %s (one alias), the certificate returned is the one of pair %s = entry %s (roles %s; the caller %s entitled to it)" %
                           (what, " -> ".join(chain), target["name"], rq["disclosed"], owners, bad["roles"] if bad else "?", "IS" if bad and names_entitled(bad, roles) else "is NOT"), cs, rq)
                else:
                    counters["names_disclosed_checked_entry"] += 1
            elif rq["status"] in (401, 403):
                report(pre + "names:entitled-refused", "%s, alias path %s: the caller shares a role with %s, observed %s" % (what, " -> ".join(chain), target["name"], rq["status"]), cs, rq)
            else:
                counters["names_entitled_failed_%s" % rq["status"]] += 1   # incomplete material, dangling second hop ... (not a refusal, no key used)

def names_model_vals(cases):
    vals, metas = [], []
    for cs in cases:
        nm = Names()
        kvals = [[nm.id(k["name"]), nm.id(k["token"]), nm.id(k["alias"]), [NROLE[r] for r in (k["roles"] or [])], k["hide"]] for k in cs["keys"]]
        cvals = [[NCALLER[c["cert"]], 0, [NROLE[r] for r in (c["roles"] or [])]] for c in cs["clients"]]
        tvals = [nm.id(t) for t in cs["tokens"]]
        mvals = [[nm.id(k["name"]), k["pair"], k["cert"], k["pair"] if k["p12"] else 0] for k in cs["keys"] if k["pair"] or k["cert"]]
        wvals = [nm.id(t) for t in (cs["workers"] or [])]
        for rq in cs["reqs"]:
            ep = {"sign": 0, "getkey": 1, "list": 2}[rq["ep"]]
            vals.append([2, kvals, cvals, tvals, mvals, wvals,
                         [ep, nm.id(rq["key"]), True, True, True, True, nm.id("203.0.113.9"), False, [], [[NCALLER[rq["caller"]], 0]], []]])
            metas.append((cs, rq, nm))
    return vals, metas

def names_compare_model(ctx, cases, counters):
    vals, metas = names_model_vals(cases)
    res = ctx.run_model(vals)
    shown = 0
    for (cs, rq, nm), m in zip(metas, res):
        kind, a, b, listing, ip, proxied, fk, f1, f2, f3, f4 = m
        rev = {v: k for k, v in nm.ids.items()}
        got = {"status": rq["status"]}
        if kind == 0:
            mo = {"status": a}
        elif kind == 2:
            mo = {"status": 200, "listing": sorted(rev.get(x, "?") for x in listing)}
            got["listing"] = sorted(rq["listing"] or [])
        elif fk == 1:
            mo = {"status": 400 if f1 == 6 else 500}     # sigerrors.ErrNoCertificate is a 400, every other failure behind the token a 500
        elif fk == 2:
            mo = {"status": 200, "signer": f2, "certs": [f3], "audit": rev.get(f4, "?")}
            got.update(signer=rq["signer"], certs=rq["certs"] or [], audit=rq["audit"])
        else:
            mo = {"status": 200, "disclosed": f2}
            got["disclosed"] = rq["disclosed"]
        if mo != got:
            counters["names_model_mismatches"] += 1
            shown += 1
            if shown <= 2 and not any(v[2] for v in ctx.violations):
                ctx.violation("C04:correspondence:names", "%s %s as %s: model %s vs implementation %s (%s)" % (rq["ep"], rq["key"], rq["caller"], mo, got, rq.get("body") or rq.get("verify_err") or ""),
                              {"namecases": [dict(cs, reqs=[{"ep": rq["ep"], "key": rq["key"], "caller": rq["caller"]}])], "broken": "correspondence C04.Run.run_names"}, False)

def run(ctx, replay=None):
    st = ctx.prepare(["C04_gen"], ["C04"], "C04.Run")
    if not st["harness_ok"]:
        return ctx.finish("proof", ctx.proof_coverage([], FP), [])
    seq_certs, seqs = {}, []
    def read_seq(out):
        for l in out.splitlines():
            if not l.strip():
                continue
            o = json.loads(l)
            if "certs" in o:
                seq_certs.update({c["name"]: c for c in o["certs"]})
            else:
                seqs.append(o)
    namecases = []
    if replay:
        rp = json.load(open(replay))
        cases, ipcases = rp.get("cases", []), rp.get("ipcases", [])
        if rp.get("namecases"):   # re-executed on the current tree with fresh key material
            rc, out, err = ctx.drv(["c04names", "replay", os.path.abspath(replay)], timeout=300)
            if rc != 0:
                ctx.violation("C04:driver-crash", "names replay failed: " + err[-600:], {"stderr": err[-3000:]}, False)
            namecases = [json.loads(l) for l in out.splitlines() if l.strip()]
        if rp.get("seqs"):   # sequences are re-executed on the current tree with the recorded certificates
            rc, out, err = ctx.drv(["c04seq", "replay", os.path.abspath(replay)], timeout=300)
            if rc != 0:
                ctx.violation("C04:driver-crash", "sequence replay failed: " + err[-600:], {"stderr": err[-3000:]}, False)
            read_seq(out)
    else:
        rc, out, err = ctx.drv(["c04seq"], timeout=600)
        if rc != 0:
            ctx.violation("C04:driver-crash", "sequence driver failed: " + err[-600:], {"stderr": err[-3000:]}, False)
        read_seq(out)
        rc, out, err = ctx.drv(["c04"], timeout=600)
        if rc != 0:
            ctx.violation("C04:driver-crash", "driver failed: " + err[-600:], {"stderr": err[-3000:]}, False)
        cases = [json.loads(l) for l in out.splitlines() if l.strip()]
        rc, out, err = ctx.drv(["c04ip"], timeout=300)
        ipcases = [json.loads(l) for l in out.splitlines() if l.strip()]
        rc, out, err = ctx.drv(["c04names"], timeout=600)
        if rc != 0:
            ctx.violation("C04:driver-crash", "names driver failed: " + err[-600:], {"stderr": err[-3000:]}, False)
        namecases = [json.loads(l) for l in out.splitlines() if l.strip()]
    n_eval, n_spec, n_corr = 0, 0, 0
    distinct = set()
    vals, meta = [], []
    for cs in cases:
        nm = Names()
        kvals = [[nm.id(k["name"]), nm.id(k["token"]), nm.id(k["alias"]), [ROLE[r] for r in (k["roles"] or [])], k["hide"]] for k in cs["keys"]]
        cvals = [[0, 1, [ROLE[r] for r in (c["roles"] or [])]] if c["cert"].startswith("CA:") else [CERT_FP[c["cert"]], 0, [ROLE[r] for r in (c["roles"] or [])]] for c in cs["clients"]]
        tvals = [nm.id(t) for t in cs["tokens"]]
        for rq in cs["reqs"]:
            n_eval += 1
            exp = oracle(cs, rq)
            touched = rq["touched"] or []
            got = ("touch", touched[0].split(":")[0]) if touched else (("list", rq["listing"]) if rq["ep"] == "list" and rq["status"] == 200 else ("status", rq["status"]))
            ok = (exp[0] == got[0] == "touch" and exp[1] == got[1] and len(touched) == 1) or \
                 (exp[0] == got[0] == "list" and exp[1] == got[1]) or (exp[0] == "status" and got[0] == "status" and got[1] in exp[1])
            if exp[0] != "status" or exp[1] != {401}:
                distinct.add(json.dumps([cs["id"], rq["ep"], rq["key"], rq["peer"], rq["tls"], rq["xff"], rq["hdr"]]))
            if not ok:
                n_spec += 1
                if n_spec <= 3:
                    kind = "token-touched-unentitled" if got[0] == "touch" else ("listing" if exp[0] == "list" else "refusal")
                    ctx.violation("C04:spec:" + kind, "expected %s, observed %s for %s %s (peer %s tls %s hdr %s xff %s)" % (exp, got, rq["ep"], rq["key"], rq["peer"], rq["tls"], rq["hdr"], rq["xff"]),
                                  {"cases": [dict(cs, reqs=[rq])]})
            peer = strip_port(rq["peer"])
            hops = [[nm.id(h), trusted_addr(h, cs["trusted"])] for h in hops_of(rq["xff"])]
            cert = lambda n: [[CERT_FP[n], CERT_CA.get(n, 0)]] if n else []
            vals.append([kvals, cvals, tvals, [EPS[rq["ep"]], nm.id(rq["key"]), not rq["no_file"], rq["sigtype"] != "nosuch", rq["digest"] != "md99", True,
                                               nm.id(peer), trusted_addr(peer, cs["trusted"]), hops, cert(rq["tls"]), cert(rq["hdr"])]])
            meta.append((cs, rq, nm, got))
    # realip in isolation: oracle = rightmost untrusted hop behind trusted peers, else the peer; headers ignored for untrusted peers
    nets = ["10.0.0.0/8", "192.168.7.7", "fd00::/8", "2001:db8::1"]
    for ic in ipcases:
        n_eval += 1
        peer = strip_port(ic["peer"])
        hops = hops_of(ic["xff"])
        if not trusted_addr(peer, nets) or not hops:
            exp_addr, proxied = peer, False
        else:
            unt = [h for h in hops if not trusted_addr(h, nets)]
            exp_addr, proxied = (unt[-1] if unt else hops[0]), True
        exp_src = ("hdr" if ic["has_hdr"] else "none") if proxied else ("tls" if ic["has_tls"] else "none")
        if (ic["addr"], ic["cert_src"]) != (exp_addr, exp_src):
            n_spec += 1
            ctx.violation("C04:spec:proxy-headers", "recorded address/cert source %s/%s, expected %s/%s" % (ic["addr"], ic["cert_src"], exp_addr, exp_src), {"ipcases": [ic]})
    counters = collections.Counter()
    seq_judge(ctx, seq_certs, seqs, counters)
    if st["model_ok"] and seqs:
        seq_compare_model(ctx, seq_certs, seqs, counters)
    names_judge(ctx, namecases, counters)
    if st["model_ok"] and namecases:
        names_compare_model(ctx, namecases, counters)
    n_eval += counters["names_requests"]
    n_spec += counters["names_spec_mismatches"]
    n_corr += counters["names_model_mismatches"]
    for cs in namecases:
        for rq in cs["reqs"]:
            if rq["status"] != 401:
                distinct.add(json.dumps(["names", cs["id"], rq["ep"], rq["key"], rq["caller"]]))
    n_eval += counters["seq_requests"]
    n_spec += counters["seq_spec_mismatches"]
    n_corr += counters["seq_model_mismatches"]
    for cs in seqs:
        for i, rq in enumerate(cs["reqs"]):
            if rq["got"]["status"] != 401:
                distinct.add(json.dumps([cs["cfg"], [c["roles"] for c in cs["clients"] or []], [(p["ep"], p["key"], p["chain"], p["via"]) for p in cs["reqs"][:i + 1]]]))
    if st["model_ok"] and vals:
        res = ctx.run_model(vals)
        for (cs, rq, nm, got), m in zip(meta, res):
            kind, a, b, listing, ip, proxied = m
            rev = {v: k for k, v in nm.ids.items()}
            if kind == 0:
                mo = ("status", a)
            elif kind == 1:
                mo = ("touch", rev.get(a, "?"))
            else:
                mo = ("list", sorted(rev.get(x, "?") for x in listing))
            if mo != got:
                n_corr += 1
                if n_corr <= 2 and not any(v[2] for v in ctx.violations):
                    ctx.violation("C04:correspondence", "model %s vs implementation %s for %s %s" % (mo, got, rq["ep"], rq["key"]),
                                  {"cases": [dict(cs, reqs=[rq])], "broken": "correspondence C04.Run"}, False)
            elif kind == 1 and rq["touched"] and rq["touched"][0].split(":")[2] != rev.get(b, "?"):
                n_corr += 1
                if n_corr <= 2 and not any(v[2] for v in ctx.violations):
                    ctx.violation("C04:correspondence-keyname", "model passes key %s to the token, implementation %s" % (rev.get(b), rq["touched"]),
                                  {"cases": [dict(cs, reqs=[rq])], "broken": "correspondence C04.Run"}, False)
    ctx.proof_verdict()
    cov = ctx.proof_coverage(["srcgen (key names end to end): every call site between the HTTP views and the code that loads key material, as a term tracing the argument back to the request name, a parameter, a map key, an RPC field or a GetKey result — serveSign (GetKey argument, entry given to Allowed, entry whose Token selects the token, name given to signinit.Init), serveGetKey / getKeyInfo, serveListKeys (skip test, GetKey argument, entry given to Allowed, appended name), signinit.Init / InitKey (name passed on, entry whose certificate is loaded, entry returned), tokencache Cache (inner name, every index into the cache) / Metrics / RateLimited, filetoken and p11token GetKey (name resolved, entry whose material is loaded), WorkerToken.GetKey / workerKey.SignContext / workerKey.Config, workercmd handler (GetKey and Sign arms), KeyConfig.Name, Normalize (names = map keys, default token type), GetKey (map look-ups, entry returned, the alias-of-alias guard with its refusal), openTokens (which types go through the worker, wrapper stack), runWorker (wrapper stack)",
                              "srcgen: GetKey conditions, serveSign denial condition and call order, serveListKeys/serveGetKey conditions; Authenticate (certificate-required / try-CA conditions, first lookup key, leaf index, action table of the client loop, reads and writes of authenticator state with their key class), fingerprint() (digested field, hash, encoding), ClientConfig.Match (skip condition, leaf / intermediates split, VerifyOptions fields, result mapping), Handler() route table and middleware order, authmodel.Middleware call order; inventory of package variables, struct fields and non-local writes of internal/authmodel, internal/realip, server, config, internal/httperror (must equal the reviewed lists of C04/History.v)",
                              "harness drv-c04 c04names: real server.Handler() over REAL file tokens opened by the production server.openTokens (Metrics, Cache), every complete entry with its own EC key pair, key file and certificate; the signature in every /sign response is applied to the payload and verified (authenticode.VerifyPE) to find the entry whose private key signed, the certificate of /keys/{key} is matched against the entries' certificates, the audit record is read back; PKCS#11 stand-in: the real token/worker client (VerifNew) talking over loopback HTTP to the real cmdline/workercmd handler (VerifHandler) around a real file token with PKCS#12 bundles (certificate supplied by the token) — process spawning and the PKCS#11 module itself are not run",
                              "harness cmd/drv c04/c04ip/c04seq: real server.Handler() (realip, logging, recovery, auth middleware, views) with recording fake tokens, real X.509 material minted per run; realip.Middleware/PeerCertificates in isolation; request sequences on one long-lived Handler() and a mirrored long-lived authmodel.Authenticator, every request repeated on a brand-new server",
                              "x509 path validation (crypto/x509 Verify) is modelled by the specification function verify_spec (validity period, EKU on every certificate of the path, signature path through presented CA certificates; trust anchors assumed within validity) and compared with the real verifier on every sequence request; with several entries recognising one certificate Go's map iteration order decides, the harness avoids such configurations and the theorems speak about SOME recognising entry; OPA policy mode is not exercised by this check; TLS handshake not run"], FP)
    dist = {}
    for cs in cases:
        for rq in cs["reqs"]:
            k = "%s/status=%s" % (rq["ep"], rq["status"])
            dist[k] = dist.get(k, 0) + 1
    cov.update({"evaluations": n_eval, "distinct_nontrivial": len(distinct),
                "rule": "single requests: configurations: 11 key shapes (plain, hidden, token-less, unserved token, alias ok/dangling/chain/to-hidden/to-token-less/with-own-token) with random role sets x 3 clients (2 by fingerprint, 1 by CA) ; requests: 17 identity scenarios (trusted/untrusted/unix peers, TLS chain kinds, X-Forwarded-For / Ssl-Client-Cert) x (12 names x {sign, key-info} + list + home + malformed parameters); distinct = requests not ending in 401",
                "samples": [{"ep": r["ep"], "key": r["key"], "tls": r["tls"], "hdr": r["hdr"], "peer": r["peer"], "status": r["status"], "touched": r["touched"]} for r in (cases[0]["reqs"][:3] if cases else [])],
                "names": {"configurations": len(namecases), "requests": counters["names_requests"],
                          "rule": "per configuration ~33 entries (+6 random from the third configuration on): three-step chain through complete entries on one token, two-step chain whose middle entry is on another token, two-cycle / self-alias / alias into the cycle, complete entry with a dangling alias and an alias of it, chains ending at a hidden key and through a hidden middle entry, middle entries without key file / certificate / roles, the same chains on a token behind token/worker with token-supplied (PKCS#12) and file certificates, random alias graphs; link roles ra rb rc (first configuration exactly, later ones sometimes random sets); callers: one per role (entitled to exactly one link), one with a random role set, one unknown; every caller x every name (+ an undefined one) x {sign pe-coff, keys} + list_keys, then repeated signing under warm key caches",
                          "samples": [{k: r[k] for k in ("ep", "key", "caller", "status", "signer", "disclosed", "audit")} for cs in namecases[:1] for r in cs["reqs"] if r["status"] == 200 and r["ep"] != "list"][:4]},
                "status_distribution": dist, "spec_mismatches": n_spec, "model_mismatches": n_corr, "realip_cases": len(ipcases),
                "sequences": {"count": len(seqs), "certificates": len(seq_certs), "configurations": sorted(set(cs["cfg"] for cs in seqs)),
                              "rule": "7 client configurations (CA only, CA + fingerprint clients, two CAs, fingerprint only, entry that is both fingerprint and CA, CA pool of two, none) x ordered pairs of 28 presented chains (same public key under CA-issued / self-signed / expired / not-yet-valid / foreign-CA / same-name-CA / wrong-EKU / any-EKU / no-EKU / other-CA certificates, through valid, serverAuth-only and expired intermediates, same subject with another key, issued by a non-CA, fingerprint keys under other certificates, the CA certificate itself, no certificate) as c1 c2 c2 c1 on one server, plus random histories of 8-16 requests mixing TLS and trusted-proxy-header delivery, plus one history whose certificates cross NotAfter / NotBefore while the server lives; every response compared with the property text and with a brand-new server",
                              "counters": dict(counters)}})
    return ctx.finish("proof", cov, ["x509 verification oracle", "policy (OPA) mode covered by model only"])
