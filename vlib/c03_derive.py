# C03 — inputs derived from the fixtures (and harness-owned writers for ZIP re-layout, CFB, CAB, ar) that stress the code which
# rewrites containers.  Everything here is produced by Python from the specifications; relic's writers are never used.
import struct, zlib, hashlib
from vlib import c03_readers as R

STUB = b"#!/bin/sh\nexec java -jar \"$0\" \"$@\"\nexit 1\n# C03 launcher stub ######\n"


# ---------------------------------------------------------------------------------------------------------------- ZIP
def _cd_entry(m, off):
    need64 = off >= 0xffffffff
    return struct.pack("<IHHHHHHIIIHHHHHII", 0x02014b50, m.vmade, m.vneed, m.flags, m.method, m.mtime, m.mdate, m.crc,
                       min(m.csize, 0xffffffff), min(m.usize, 0xffffffff), len(m.name_raw), len(m.extra), len(m.comment), 0, m.iattr, m.eattr,
                       off) + m.name_raw + m.extra + m.comment


class NewMember:
    """a member written by this module (local header without data descriptor unless dd=True)"""

    def __init__(self, name, data, deflate=False, dd=False, extra=b"", eattr=0, comment=b""):
        self.name_raw = name.encode("utf-8")
        self.data = data
        raw = data
        if deflate:
            c = zlib.compressobj(9, zlib.DEFLATED, -15)
            raw = c.compress(data) + c.flush()
        self.method = 8 if deflate else 0
        self.flags = 0x800 | (8 if dd else 0)
        self.vmade, self.vneed = 20, 20
        self.mtime, self.mdate = 0x6000, 0x5021
        self.crc = zlib.crc32(data) & 0xffffffff
        self.csize, self.usize = len(raw), len(data)
        self.extra, self.comment, self.iattr, self.eattr = extra, comment, 0, eattr
        if dd:
            lh = struct.pack("<IHHHHHIIIHH", 0x04034b50, 20, self.flags, self.method, self.mtime, self.mdate, 0, 0, 0, len(self.name_raw), len(extra))
            self.record = lh + self.name_raw + extra + raw + struct.pack("<IIII", 0x08074b50, self.crc, self.csize, self.usize)
        else:
            lh = struct.pack("<IHHHHHIIIHH", 0x04034b50, 20, self.flags, self.method, self.mtime, self.mdate, self.crc, self.csize, self.usize,
                             len(self.name_raw), len(extra))
            self.record = lh + self.name_raw + extra + raw


def zip_relayout(data, fmt="zip", prefix=b"", gap_after=None, gap=b"", comment=b"", absolute=True, extra_members=(), insert_at=None,
                 tail_gap=b"", drop=lambda n: False):
    """re-emit an archive from its parsed members: raw local records are copied byte for byte, offsets recomputed.
    prefix: bytes before the first member; absolute: directory offsets count from byte 0 of the file (zip -A style) or from the
    start of the archive proper (cat stub archive); gap: bytes inserted after member index gap_after; tail_gap: bytes between the
    last member and the central directory; extra_members: NewMember objects appended (or inserted at insert_at)."""
    v = R.View()
    r = R.zip_parse(data, v, allow_trailer=(fmt == "xap"))
    if r is None or v.wf:
        raise ValueError("fixture not parseable: %s" % v.wf)
    members = [m for m in r[0] if not drop(m.name)]
    recs = []
    for m in members:
        m.record = data[m.rec[0]:m.rec[1]]
        recs.append(m)
    extra_members = list(extra_members)
    if insert_at is None:
        recs += extra_members
    else:
        recs[insert_at:insert_at] = extra_members
    out = bytearray(prefix)
    base = 0 if absolute else len(prefix)
    cd = b""
    for i, m in enumerate(recs):
        off = len(out) - base
        out += m.record
        cd += _cd_entry(m, off)
        if gap_after is not None and i == gap_after:
            out += gap
    out += tail_gap
    cdoff = len(out) - base
    out += cd
    out += struct.pack("<IHHHHIIH", 0x06054b50, 0, 0, len(recs), len(recs), len(cd), cdoff, len(comment)) + comment
    return bytes(out)


def zip_variants(data, fmt, tier):
    """yields (variant_name, class, bytes).  class groups variants for finding keys."""
    def V(name, cls, **kw):
        return name, cls, zip_relayout(data, fmt, **kw)
    out = []
    out.append(("relayout-identity", "plain", zip_relayout(data, fmt)))
    out.append(V("prefix-abs", "prefixed", prefix=STUB, absolute=True))
    out.append(("prefix-rel", "prefixed", STUB + zip_relayout(data, fmt)))
    out.append(V("gap-after-first", "gapped", gap_after=0, gap=b"\xde\xad\xbe\xef" * 4))
    out.append(V("gap-before-directory", "gapped", tail_gap=b"GAPGAPGAP-before-directory"))
    out.append(V("comment", "comment", comment=b"archive comment kept by C03"))
    can_add = fmt in ("jar", "apk", "zip", "vsix")
    ext = ".json" if fmt == "vsix" else ".txt"
    if can_add:
        out.append(V("zero-length-members", "zero-length", extra_members=[NewMember("empty" + ext, b""), NewMember("emptydir/", b"", eattr=0x41ed0010),
                                                                          NewMember("empty-dd" + ext, b"", dd=True)]))
        long1 = "d/" + "n" * 230 + ext
        out.append(V("long-name-232", "long-name", extra_members=[NewMember(long1, b"long name member\n", deflate=True)]))
        out.append(V("long-name-4000", "long-name", extra_members=[NewMember("very/" + "L" * 4000 + ext, b"x" * 100, deflate=True, dd=True)]))
        out.append(V("aligned-extra-field", "padding", extra_members=[NewMember("aligned" + ext, b"A" * 4096, extra=struct.pack("<HHH", 0xd935, 2 + 21, 4) + b"\0" * 21)]))
        out.append(V("mixed-descriptors", "plain", extra_members=[NewMember("a-dd" + ext, b"with descriptor " * 9, deflate=True, dd=True),
                                                                  NewMember("b-nodd" + ext, b"without descriptor " * 9, deflate=True)]))
        out.append(V("member-comment-and-mode", "plain", extra_members=[NewMember("bin/run.sh".replace(".sh", ext), b"#!/bin/sh\n", eattr=0x81ed0000, comment=b"member comment")]))
        if tier == "thorough":
            out.append(V("long-name-65000", "long-name", extra_members=[NewMember("x/" + "M" * 65000 + ext, b"y")]))
            out.append(V("many-members", "plain", extra_members=[NewMember("many/%04d%s" % (i, ext), b"%d" % i) for i in range(1500)]))
            out.append(V("prefix-abs+gap+comment", "prefixed", prefix=STUB, gap_after=1, gap=b"junk" * 5, comment=b"c"))
            out.append(V("prefix-64k", "prefixed", prefix=STUB * 1000))
    if fmt == "vsix":
        sigpart = lambda n: n == "_rels/.rels" or n.startswith("package/services/digital-signature/")
        RELNS = "http://schemas.openxmlformats.org/package/2006/relationships"
        rootrels = ('<?xml version="1.0" encoding="UTF-8"?><Relationships xmlns="%s"><Relationship Target="/extension.vsixmanifest" Id="R1" '
                    'Type="http://schemas.microsoft.com/developer/vsx-schema/2011/manifest" /><Relationship Target="/catalog.json" Id="R2" '
                    'Type="urn:c03:catalog" /></Relationships>' % RELNS).encode()
        partrels = ('<?xml version="1.0" encoding="UTF-8"?><Relationships xmlns="%s"><Relationship Target="/manifest.json" Id="P1" Type="urn:c03:related" />'
                    '</Relationships>' % RELNS).encode()
        out.append(V("unsigned", "unsigned", drop=sigpart))
        out.append(V("unsigned+root-relationships", "relationships", drop=sigpart, extra_members=[NewMember("_rels/.rels", rootrels, deflate=True)], insert_at=0))
        out.append(V("unsigned+part-relationships", "relationships", drop=sigpart, extra_members=[NewMember("_rels/extension.vsixmanifest.rels", partrels, deflate=True)], insert_at=0))
        ct = [m for m in R.zip_parse(data, R.View())[0] if m.name == "[Content_Types].xml"][0].data
        ct2 = ct.replace(b"</Types>", b'<Override PartName="/manifest.json" ContentType="application/x-c03-custom" /></Types>')
        out.append(V("content-types-override", "content-types", drop=lambda n: n == "[Content_Types].xml", extra_members=[NewMember("[Content_Types].xml", ct2, deflate=True)]))
    if fmt == "appx":
        ct = [m for m in R.zip_parse(data, R.View())[0] if m.name == "[Content_Types].xml"][0].data
        idx = [m.name for m in R.zip_parse(data, R.View())[0]].index("[Content_Types].xml")
        ct2 = ct.replace(b"image/png", b"image/x-c03-png")
        ct3 = ct.replace(b"</Types>", b'<Override PartName="/resources.pri" ContentType="application/x-c03-custom" /></Types>')
        for nm, blob in (("content-types-custom-default", ct2), ("content-types-override", ct3)):
            if blob != ct:
                out.append(V(nm, "content-types", drop=lambda n: n == "[Content_Types].xml", extra_members=[NewMember("[Content_Types].xml", blob, deflate=True)], insert_at=idx))
    if fmt in ("jar", "apk"):
        names = [m.name for m in R.zip_parse(data, R.View())[0]]
        mi = names.index("META-INF/MANIFEST.MF")
        payload_name = [n for n in names if not n.startswith("META-INF/")][0]
        rich = ("Manifest-Version: 1.0\r\nCreated-By: 17.0.1 (C03 harness)\r\nMain-Class: com.example.Main\r\nClass-Path: lib/a.jar lib/b.jar lib/a-very-long-name-that-forces-"
                "\r\n a-continuation-line-because-it-exceeds-72-bytes.jar\r\nX-Custom-Attr: caf\u00e9 value\r\nMulti-Release: true\r\n\r\n"
                "Name: %s\r\nContent-Type: text/plain\r\nSealed: true\r\n\r\nName: com/example/\r\nSealed: true\r\nImplementation-Title: example\r\n\r\n" % payload_name).encode("utf-8")
        out.append(V("manifest-rich", "manifest", drop=lambda n: n == "META-INF/MANIFEST.MF", extra_members=[NewMember("META-INF/MANIFEST.MF", rich, deflate=True)], insert_at=mi))
        lfman = rich.replace(b"\r\n", b"\n")
        out.append(V("manifest-lf-no-final-blank-line", "manifest", drop=lambda n: n == "META-INF/MANIFEST.MF",
                     extra_members=[NewMember("META-INF/MANIFEST.MF", lfman[:-1], deflate=False)], insert_at=mi))
        out.append(V("first-member-not-manifest", "plain", extra_members=[NewMember("0first.txt", b"first")], insert_at=0))
    return out


# ---------------------------------------------------------------------------------------------------------------- PE
def pe_layout(data):
    pe = R.u32(data, 0x3c)
    opt = pe + 24
    magic = R.u16(data, opt)
    dd = opt + (96 if magic == 0x10b else 112)
    return opt + 64, dd + 32


def pe_fix_checksum(data):
    cks, _ = pe_layout(data)
    b = bytearray(data)
    struct.pack_into("<I", b, cks, R.pe_checksum(bytes(b), cks))
    return bytes(b)


def pe_strip(data):
    """remove an attribute certificate table (written from the Authenticode document: table at the end of the file, directory entry 4)"""
    cks, ent = pe_layout(data)
    va, sz = R.u32(data, ent), R.u32(data, ent + 4)
    if not sz:
        return data
    b = bytearray(data[:va] + data[va + sz:])
    struct.pack_into("<II", b, ent, 0, 0)
    return pe_fix_checksum(bytes(b))


def pe_variants(data, tier):
    out = []
    if pe_strip(data) != data:
        data = pe_strip(data)
        out.append(("signature-stripped", "stripped", data))
    for n in ([1, 7, 8, 9, 100, 4096] if tier == "quick" else [1, 2, 3, 4, 5, 6, 7, 8, 9, 15, 16, 17, 100, 511, 512, 513, 4096, 70001]):
        ov = (b"OVERLAY-" * (n // 8 + 1))[:n]
        out.append(("overlay-%d" % n, "overlay", data + ov))
    out.append(("overlay-zeros-5", "overlay", data + b"\0" * 5))
    out.append(("overlay-ends-with-zeros", "overlay", data + b"tail" + b"\0" * 11))
    # junk between the last two sections (unusual alignment padding: raw data not contiguous)
    pe = R.u32(data, 0x3c)
    nsec, optsz = R.u16(data, pe + 6), R.u16(data, pe + 20)
    opt = pe + 24
    falign = R.u32(data, opt + 36)
    sectab = opt + optsz
    secs = []
    for i in range(nsec):
        s = sectab + 40 * i
        secs.append((R.u32(data, s + 20), R.u32(data, s + 16), s))
    secs_sorted = sorted(x for x in secs if x[1])
    if len(secs_sorted) >= 2:
        lastptr, lastsz, lasthdr = secs_sorted[-1]
        b = bytearray(data)
        pad = (b"PAD!" * (falign // 4))[:falign]
        b[lastptr:lastptr] = pad
        struct.pack_into("<I", b, lasthdr + 20, lastptr + falign)
        out.append(("padding-between-sections", "padding", bytes(b)))
        out.append(("padding-between-sections+overlay-3", "padding", bytes(b) + b"abc"))
    # SizeOfHeaders area larger than the headers with non-zero bytes in the slack
    hdr_end = sectab + 40 * nsec
    soh = R.u32(data, opt + 60)
    if soh > hdr_end + 8:
        b = bytearray(data)
        b[hdr_end + 4:hdr_end + 8] = b"SLCK"
        out.append(("header-slack-nonzero", "padding", pe_fix_checksum(bytes(b))))
    return out


# ---------------------------------------------------------------------------------------------------------------- scripts
def ps_variants(ext, tier):
    body = {".ps1": ["Write-Host 'hello'", "function f {", "  param($x)", "  $x + 1", "}", "# a comment", "f 2"],
            ".psm1": ["function Get-X { 42 }", "Export-ModuleMember Get-X"],
            ".psd1": ["@{", "  ModuleVersion = '1.0'", "}"],
            ".ps1xml": ['<?xml version="1.0" encoding="utf-8" ?>', "<Configuration>", "  <ViewDefinitions />", "</Configuration>"],
            ".mof": ["#pragma autorecover", "instance of __Namespace", "{", '  Name = "x";', "};"]}[ext]
    out = []
    for eolname, eol in (("crlf", "\r\n"), ("lf", "\n"), ("cr", "\r")):
        for trail in (True, False):
            text = eol.join(body) + (eol if trail else "")
            out.append(("%s-%s" % (eolname, "eol" if trail else "noeol"), "eol-" + eolname, text.encode("utf-8")))
    mixed = "line1\r\nline2\nline3\rline4\r\n\r\n\n"
    out.append(("mixed-eol", "eol-mixed", mixed.encode()))
    out.append(("utf8-bom-crlf", "encoding", b"\xef\xbb\xbf" + "\r\n".join(body).encode() + b"\r\n"))
    out.append(("utf8-nonascii-lf", "encoding", ("# café € \U0001f600\n" + "\n".join(body) + "\n").encode("utf-8")))
    out.append(("utf16le-bom-crlf", "encoding", b"\xff\xfe" + ("\r\n".join(body) + "\r\n").encode("utf-16-le")))
    out.append(("utf16le-bom-lf-noeol", "encoding", b"\xff\xfe" + ("\n".join(body)).encode("utf-16-le")))
    out.append(("utf16le-nonascii", "encoding", b"\xff\xfe" + ("# café € \U0001f600\r\n" + "\r\n".join(body) + "\r\n").encode("utf-16-le")))
    out.append(("empty", "tiny", b""))
    out.append(("one-byte", "tiny", b"1"))
    out.append(("only-newline", "tiny", b"\n"))
    out.append(("only-crlf", "tiny", b"\r\n"))
    out.append(("trailing-blank-lines", "eol-crlf", ("\r\n".join(body) + "\r\n\r\n\r\n").encode()))
    out.append(("marker-inside-line", "marker", ("\r\n".join(body) + "\r\nWrite-Host '# SIG # Begin signature block'\r\n").encode()))
    out.append(("long-line-100k", "long", (body[0] + " # " + "x" * 100000 + "\r\n").encode()))
    out.append(("nul-bytes", "binary", b"Write-Host 'a'\r\n\0\0\0\r\nWrite-Host 'b'\r\n"))
    return out


def ps_foreign_block(ext, text, eol_before):
    """a script carrying a (syntactically valid, cryptographically meaningless) signature block written by another tool, preceded by the given
    line break"""
    start, end = R.PS_STYLES[ext]
    import base64
    der = b"\x30\x82\x01\x00" + bytes(range(256))
    b64 = base64.b64encode(der).decode()
    lines = [start + "SIG # Begin signature block" + end] + [start + b64[i:i + 64] + end for i in range(0, len(b64), 64)] + [start + "SIG # End signature block" + end]
    return text + eol_before.encode() + ("\r\n".join(lines) + "\r\n").encode()


# ---------------------------------------------------------------------------------------------------------------- CFB writer
def cfb_build(tree, sector_shift=9, pad_sectors=0):
    """tree: list of (name, bytes | list) — nested lists are storages.  Writes a version 3 (512) or 4 (4096) compound file with a
    balanced sibling tree (all nodes black is valid for a perfectly balanced tree only; we emit a proper red-black colouring by
    making the deepest incomplete level red)."""
    ss = 1 << sector_shift
    ents = [dict(name="Root Entry", typ=5, kids=[], data=None, clsid=b"\x84\x10\x0c\x00\x00\x00\x00\x00\xc0\x00\x00\x00\x00\x00\x00\x46")]

    def add(parent, items):
        for name, val in items:
            e = dict(name=name, typ=2 if isinstance(val, bytes) else 1, kids=[], data=val if isinstance(val, bytes) else None, clsid=b"\0" * 16)
            ents.append(e)
            ents[parent]["kids"].append(len(ents) - 1)
            if not isinstance(val, bytes):
                add(len(ents) - 1, val)
    add(0, tree)
    for e in ents:
        e.update(left=0xffffffff, right=0xffffffff, child=0xffffffff, color=1)

    def build(ids, depth, maxdepth):
        if not ids:
            return 0xffffffff
        mid = len(ids) // 2
        i = ids[mid]
        ents[i]["left"] = build(ids[:mid], depth + 1, maxdepth)
        ents[i]["right"] = build(ids[mid + 1:], depth + 1, maxdepth)
        ents[i]["color"] = 0 if (depth == maxdepth and depth > 0) else 1
        return i
    for e in ents:
        ids = sorted(e["kids"], key=lambda i: R.cfb_key(ents[i]["name"]))
        md = max(0, len(ids).bit_length() - 1)
        full = len(ids) == (1 << (md + 1)) - 1
        e["child"] = build(ids, 0, md if not full else 99)
    # layout: regular streams, mini stream, directory, miniFAT, FAT
    sectors = []          # list of bytes
    fat = []

    def alloc(blob):
        n = (len(blob) + ss - 1) // ss
        start = len(sectors)
        for k in range(n):
            sectors.append(blob[k * ss:(k + 1) * ss].ljust(ss, b"\0"))
            fat.append(start + k + 1 if k + 1 < n else 0xfffffffe)
        return start if n else 0xfffffffe
    for _ in range(pad_sectors):       # free sectors at the start of the file
        sectors.append(b"\0" * ss)
        fat.append(0xffffffff)
    mini, minifat = bytearray(), []
    for e in ents[1:]:
        if e["typ"] != 2:
            e["start"], e["size"] = 0, 0
            continue
        d = e["data"]
        e["size"] = len(d)
        if len(d) == 0:
            e["start"] = 0xfffffffe
        elif len(d) < 4096:
            n = (len(d) + 63) // 64
            s0 = len(minifat)
            for k in range(n):
                minifat.append(s0 + k + 1 if k + 1 < n else 0xfffffffe)
            mini += d.ljust(n * 64, b"\0")
            e["start"] = s0
        else:
            e["start"] = alloc(d)
    ents[0]["start"] = alloc(bytes(mini)) if mini else 0xfffffffe
    ents[0]["size"] = len(mini)
    dirblob = b""
    for e in ents:
        nm = e["name"].encode("utf-16-le") + b"\0\0"
        dirblob += nm.ljust(64, b"\0") + struct.pack("<HBBIII", len(nm), e["typ"], e["color"], e["left"], e["right"], e["child"]) + e["clsid"] + \
            struct.pack("<I", 0) + b"\0" * 16 + struct.pack("<IQ", e["start"] if e["typ"] != 1 else 0, e["size"])
    per = ss // 128
    while (len(dirblob) // 128) % per:
        dirblob += b"\0" * 64 + struct.pack("<HBBIII", 0, 0, 0, 0xffffffff, 0xffffffff, 0xffffffff) + b"\0" * 16 + b"\0" * 36
    dirstart = alloc(dirblob)
    ndirsec = len(dirblob) // ss
    mfblob = b"".join(struct.pack("<I", x) for x in minifat)
    mfblob = mfblob.ljust(((len(mfblob) + ss - 1) // ss) * ss, b"\xff")
    mfstart = alloc(mfblob) if minifat else 0xfffffffe
    nmf = len(mfblob) // ss if minifat else 0
    # FAT sectors: solve for the count
    nfat = 1
    while (len(fat) + nfat) > nfat * (ss // 4):
        nfat += 1
    if nfat > 109:
        raise ValueError("too big for this writer")
    fatstart = len(sectors)
    for k in range(nfat):
        fat.append(0xfffffffd)
    fatblob = b"".join(struct.pack("<I", x) for x in fat).ljust(nfat * ss, b"\xff")
    for k in range(nfat):
        sectors.append(fatblob[k * ss:(k + 1) * ss])
    hdr = b"\xd0\xcf\x11\xe0\xa1\xb1\x1a\xe1" + b"\0" * 16 + struct.pack("<HHHHH", 0x3e, 3 if sector_shift == 9 else 4, 0xfffe, sector_shift, 6) + b"\0" * 6
    hdr += struct.pack("<IIIIIIIII", ndirsec if sector_shift == 12 else 0, nfat, dirstart, 0, 4096, mfstart, nmf, 0xfffffffe, 0)
    difat = [fatstart + k for k in range(nfat)] + [0xffffffff] * (109 - nfat)
    hdr += b"".join(struct.pack("<I", x) for x in difat)
    hdr = hdr.ljust(ss, b"\0")
    return hdr + b"".join(sectors)


def cfb_variants(tier):
    def blob(tag, n):
        return (hashlib.sha256(tag.encode()).digest() * (n // 32 + 1))[:n]
    base = [("\x05SummaryInformation", blob("si", 300)), ("_Tables", blob("t", 64)), ("_StringData", blob("sd", 5000)),
            ("_StringPool", blob("sp", 4095)), ("Binary.icon", blob("b", 4096)), ("media1.cab", blob("cab", 20000))]
    out = [("generated-basic", "generated", cfb_build(base))]
    out.append(("generated-no-ministream", "no-ministream", cfb_build([("big1", blob("1", 4096)), ("big2", blob("2", 9000))])))
    out.append(("generated-only-mini", "only-mini", cfb_build([("a", blob("a", 1)), ("b", blob("b", 63)), ("c", blob("c", 64)), ("d", blob("d", 65))])))
    out.append(("generated-nested-storages", "storages", cfb_build(base + [("Sub", [("inner", blob("i", 100)), ("Deeper", [("x", blob("x", 7000))])]), ("EmptyStorage", [])])))
    out.append(("generated-mixed-case-names", "names", cfb_build([("abc", blob("1", 10)), ("ABD", blob("2", 10)), ("Zz", blob("3", 10)), ("a", blob("4", 10)),
                                                                   ("中文", blob("5", 10)), ("été", blob("6", 10)), ("N" * 31, blob("7", 10)), ("zzzzzzzzzzzzzzzzzzzz", blob("8", 5000))])))
    out.append(("generated-empty-stream", "empty-stream", cfb_build(base + [("Empty", b"")])))
    out.append(("generated-many-streams", "many", cfb_build([("s%03d" % i, blob("s%d" % i, 37 * i + 1)) for i in range(60)])))
    out.append(("generated-v4-4096", "v4", cfb_build(base, sector_shift=12)))
    out.append(("generated-free-sectors", "free-sectors", cfb_build(base, pad_sectors=3)))
    # an input that already carries a signature stream whose size sits exactly at / next to the mini-stream cutoff (4096): replacing it frees
    # the old chain from the table its SIZE selects; relic's own test-key signatures (~1.9 KiB) never get there
    for n in ((4096,) if tier != "thorough" else (4095, 4096, 4097, 8192)):
        out.append(("generated-foreign-signature-%d" % n, "foreign-signature", cfb_build(base + [("\x05DigitalSignature", blob("sig%d" % n, n))])))
    if tier == "thorough":
        out.append(("generated-fat-exactly-full", "fat-full", cfb_build([("f%d" % i, blob("f%d" % i, 512 * 20)) for i in range(6)] + [("m", blob("m", 100))])))
        out.append(("generated-200-streams", "many", cfb_build([("t%03d" % i, blob("t%d" % i, (i * 131) % 9000)) for i in range(200)])))
    return out


# ---------------------------------------------------------------------------------------------------------------- CAB writer
def cab_build(files, folders=1, mszip=False, hdr_reserve=None, folder_reserve=0, data_reserve=0, block=32768, flags_extra=0, prevnext=None):
    """files: list of (name, bytes). folders: files are distributed round-robin over this many folders."""
    fl = [[] for _ in range(folders)]
    for i, f in enumerate(files):
        fl[i % folders].append(f)
    flags = flags_extra
    res = b""
    if hdr_reserve is not None or folder_reserve or data_reserve:
        flags |= 4
        hr = hdr_reserve or b""
        res = struct.pack("<HBB", len(hr), folder_reserve, data_reserve) + hr
    strs = b""
    if prevnext:
        flags |= 3
        strs = b"prev.cab\0Disk 0\0next.cab\0Disk 2\0"
    nfiles = len(files)
    cffolder_sz = 8 + folder_reserve
    hdr_len = 36 + len(res) + len(strs)
    cofffiles = hdr_len + cffolder_sz * folders
    cffiles = b""
    for fi, fs in enumerate(fl):
        uoff = 0
        for name, d in fs:
            cffiles += struct.pack("<IIHHHH", len(d), uoff, fi, 0x5021, 0x6000, 0x20) + name.encode() + b"\0"
            uoff += len(d)
    datastart = cofffiles + len(cffiles)
    folderhdrs, datablobs = b"", b""
    for fi, fs in enumerate(fl):
        stream = b"".join(d for _, d in fs)
        blocks = b""
        nb = 0
        for o in range(0, len(stream), block) if stream else []:
            chunk = stream[o:o + block]
            if mszip:
                c = zlib.compressobj(9, zlib.DEFLATED, -15)
                payload = b"CK" + c.compress(chunk) + c.flush()
            else:
                payload = chunk
            dres = (b"R" * data_reserve)
            head = struct.pack("<HH", len(payload), len(chunk)) + dres
            csum = R.cab_checksum(head, R.cab_checksum(payload))
            blocks += struct.pack("<I", csum) + head + payload
            nb += 1
        folderhdrs += struct.pack("<IHH", datastart + len(datablobs), nb, 1 if mszip else 0) + b"F" * folder_reserve
        datablobs += blocks
    total = datastart + len(datablobs)
    hdr = b"MSCF" + struct.pack("<IIIIIBBHHHHH", 0, total, 0, cofffiles, 0, 3, 1, folders, nfiles, flags, 0x1234, 0)
    return hdr + res + strs + folderhdrs + cffiles + datablobs


def cab_variants(tier):
    f = [("hello.txt", b"hello cabinet\r\n" * 10), ("data.bin", bytes(range(256)) * 300), ("empty.dat", b""), ("z.txt", b"z" * 70000)]
    out = [("generated-stored", "generated", cab_build(f[:2])),
           ("generated-mszip-multiblock", "generated", cab_build(f, mszip=True)),
           ("generated-two-folders", "folders", cab_build(f, folders=2, mszip=True)),
           ("generated-folder+data-reserve", "reserve", cab_build(f[:2], hdr_reserve=b"", folder_reserve=4, data_reserve=2)),
           ("generated-foreign-header-reserve", "reserve", cab_build(f[:2], hdr_reserve=b"AUTHOR-RESERVED-DATA")),
           ("generated-20-byte-zero-reserve", "reserve", cab_build(f[:2], hdr_reserve=b"\0" * 20)),
           ("generated-prev-next", "prevnext", cab_build(f[:2], prevnext=True)),
           ("generated-small-blocks", "generated", cab_build(f[:2], block=1000))]
    return out


# ---------------------------------------------------------------------------------------------------------------- ar / deb
def ar_build(members):
    out = b"!<arch>\n"
    for name, body, meta in members:
        mt, uid, gid, mode = meta
        out += ("%-16s%-12s%-6s%-6s%-8s%-10d`\n" % (name, mt, uid, gid, mode, len(body))).encode()
        out += body
        if len(body) % 2:
            out += b"\n"
    return out


def ar_parse(data):
    p, out = 8, []
    while p < len(data):
        h = data[p:p + 60]
        size = int(h[48:58])
        out.append((h[:16].decode().rstrip(), data[p + 60:p + 60 + size], (h[16:28].decode().strip(), h[28:34].decode().strip(), h[34:40].decode().strip(), h[40:48].decode().strip())))
        p += 60 + size + (size % 2)
    return out


def deb_variants(data, tier):
    ms = ar_parse(data)
    meta = ms[0][2]
    out = [("rebuilt-identity", "plain", ar_build(ms)),
           ("odd-sized-extra-member", "odd-size", ar_build(ms + [("_extra", b"odd", meta)])),
           ("foreign-gpgbuilder-member", "foreign-sig", ar_build(ms + [("_gpgbuilder", b"-----BEGIN PGP SIGNATURE-----\nnot really\n-----END PGP SIGNATURE-----\n", meta)])),
           ("foreign-gpgorigin-odd", "foreign-sig", ar_build(ms + [("_gpgorigin", b"xyz", meta)])),
           ("gpgorigin-in-the-middle", "foreign-sig", ar_build(ms[:2] + [("_gpgorigin", b"wxyz!", meta)] + ms[2:])),
           ("member-name-with-slash", "names", ar_build([(n + "/" if i == 2 else n, b, m) for i, (n, b, m) in enumerate(ms)]))]
    return out


# ---------------------------------------------------------------------------------------------------------------- manifests
def manifest_variants(data, tier):
    text = data.decode("utf-8-sig") if data[:3] == b"\xef\xbb\xbf" else data.decode("utf-8")
    out = []
    lf = text.replace("\r\n", "\n")
    out.append(("lf-line-endings", "eol", lf.encode()))
    out.append(("crlf-line-endings", "eol", lf.replace("\n", "\r\n").encode()))
    # an extra element with characters that need escaping, CDATA, significant white space, a foreign namespace, an entity in an attribute
    ins = ('<x:note xmlns:x="urn:c03:test" x:attr="a &lt; b &amp; &quot;c&quot; &#233;">  text with &lt;markup&gt; &amp; spaces  <x:inner xml:space="preserve">  '
           '</x:inner><![CDATA[<raw> & data]]></x:note>')
    i = lf.rfind("</")
    out.append(("special-characters", "escaping", (lf[:i] + ins + "\n" + lf[i:]).encode()))
    out.append(("utf8-bom", "encoding", b"\xef\xbb\xbf" + lf.encode()))
    out.append(("no-xml-declaration", "prolog", lf[lf.index("?>") + 2:].lstrip().encode() if lf.startswith("<?xml") else lf.encode()))
    return out


# ---------------------------------------------------------------------------------------------------------------- pgp text
def pgp_texts(data, tier):
    out = [("fixture", "plain", data),
           ("dash-lines", "escaping", b"- dash line\n-----BEGIN FAKE-----\nFrom the top\n--\n-\nend\n"),
           ("no-trailing-newline", "eol", b"line one\nline two"),
           ("crlf", "eol", b"line one\r\nline two\r\n"),
           ("trailing-whitespace", "whitespace", b"line one   \nline two\t\n\n\n"),
           ("empty", "tiny", b""),
           ("binary", "binary", bytes(range(256)) * 3)]
    return out


# ---------------------------------------------------------------------------------------------------------------- seeded random variants
def random_variants(fmt, data, rng, n, ext=None):
    """n random inputs of the 'plain' classes (no prefix/gap/comment: those classes have their own named variants)"""
    out = []
    for i in range(n):
        tag = "random-%d-%d" % (rng.seed_value, i)
        if fmt in ("jar", "apk", "vsix"):
            e = ".json" if fmt == "vsix" else rng.choice([".txt", ".class", ".properties", ".bin"])
            ms = []
            for k in range(rng.randint(1, 12)):
                depth = rng.randint(0, 3)
                name = "/".join("".join(rng.choice("abcdefghijklmnopqrstuvwxyzABCDEFGH0123456789_-") for _ in range(rng.randint(1, 20))) for _ in range(depth + 1))
                size = rng.choice([0, 1, 2, 63, 64, 65, 1000, 4095, 4096, 4097, rng.randint(0, 70000)])
                body = bytes(rng.getrandbits(8) for _ in range(min(size, 256))) * (size // 256 + 1)
                ms.append(NewMember("r%d/%s%s" % (k, name, e), body[:size], deflate=rng.random() < 0.6, dd=rng.random() < 0.5,
                                    extra=(struct.pack("<HH", 0xcafe, 4) + b"\1\2\3\4") if rng.random() < 0.2 else b"",
                                    eattr=rng.choice([0, 0x81a40000, 0x81ed0000]), comment=b"c" * rng.choice([0, 0, 5])))
            at = rng.choice([None, None, 0]) if fmt != "apk" else None
            out.append((tag, "random", zip_relayout(data, fmt, extra_members=ms, insert_at=at)))
        elif fmt == "pe-coff":
            base = pe_strip(data)
            nbytes = rng.choice([rng.randint(1, 64), rng.randint(1, 5000), rng.randint(1, 70000)])
            out.append((tag, "random", base + bytes(rng.getrandbits(8) for _ in range(min(nbytes, 997))) * (nbytes // 997 + 1)))
            out[-1] = (tag, "random", out[-1][2][:len(base) + nbytes])
        elif fmt == "msi":
            names = set()
            while len(names) < rng.randint(1, 40):
                names.add("".join(rng.choice("ABCDEFGHIJKLMNOPQRSTUVWXYZ0123456789_.") for _ in range(rng.randint(1, 31))))
            tree = []
            for nm in sorted(names):
                size = rng.choice([1, 63, 64, 65, 4095, 4096, 4097, rng.randint(1, 300), rng.randint(1, 20000)])
                tree.append((nm, (hashlib.sha256(nm.encode()).digest() * (size // 32 + 1))[:size]))
            # make sure a mini stream exists (the no-ministream class has its own named variant)
            tree.append(("ZZMINI", b"m" * rng.randint(1, 200)))
            out.append((tag, "random", cfb_build(tree, sector_shift=rng.choice([9, 9, 12]), pad_sectors=rng.choice([0, 0, 2]))))
        elif fmt == "cab":
            files = [("f%d_%s.dat" % (k, "x" * rng.randint(0, 30)), bytes(rng.getrandbits(8) for _ in range(64)) * rng.randint(0, 600)) for k in range(rng.randint(1, 8))]
            out.append((tag, "random", cab_build(files, folders=rng.randint(1, 3), mszip=rng.random() < 0.5, block=rng.choice([32768, 32768, 1000, 17]))))
        elif fmt == "ps":
            eols = ["\r\n", "\n", "\r"]
            lines = []
            for k in range(rng.randint(0, 30)):
                lines.append("".join(rng.choice("abc $={}()'\"#-/*<>!\t é€") for _ in range(rng.randint(0, 60))) + rng.choice(eols + ["\r\n"] * 3))
            text = "".join(lines) + rng.choice(["", "last line without eol"])
            enc = rng.choice(["utf-8", "utf-8", "bom", "utf-16"])
            blob = text.encode("utf-8") if enc == "utf-8" else b"\xef\xbb\xbf" + text.encode("utf-8") if enc == "bom" else b"\xff\xfe" + text.encode("utf-16-le")
            out.append((tag, "random", blob))
    return out
