# C02 helper: mutation families over signed artefacts. A mutation is a JSON-serialisable dict
#   {"kind": ..., "ops": [[op, args...], ...], "label": region-or-name}   applied with apply_ops(), or
#   {"kind": "semantic", "name": ..., "data": bytes}                      produced by a format-specific builder.
import hashlib, random, struct, zlib
from vlib import c02_zip


def apply_ops(data, ops):
    b = bytearray(data)
    for op in ops:
        k = op[0]
        if k == "xor":
            b[op[1]] ^= op[2]
        elif k == "set":
            v = bytes.fromhex(op[2])
            b[op[1]:op[1] + len(v)] = v
        elif k == "truncate":
            del b[op[1]:]
        elif k == "append":
            b += bytes.fromhex(op[1])
        elif k == "insert":
            b[op[1]:op[1]] = bytes.fromhex(op[2])
        elif k == "delete":
            del b[op[1]:op[2]]
        else:
            raise ValueError("unknown op %r" % (k,))
    return bytes(b)


def mask_for(rng, off):
    m = rng.randrange(1, 256)
    return m


def klass(label):
    return label.split(":")[0]


def byte_flips(data, regions, rng, budget, masks=(None,)):
    """single-byte XOR mutations. Exhaustive over all offsets when len(data) <= budget; otherwise stratified: the first and last
    two bytes of every region (structure boundaries +-1), then a random interior sample per region proportional to sqrt(size)."""
    n = len(data)
    out = []
    lab = [None] * n
    for s, e, l in regions:
        for i in range(max(0, s), min(e, n)):
            lab[i] = l

    def mk(off, m):
        if m is None:
            m = mask_for(rng, off)
        return {"kind": "flip", "ops": [["xor", off, m]], "label": lab[off] or "gap", "offset": off}
    if n <= budget:
        for off in range(n):
            for m in masks:
                out.append(mk(off, m))
        return out, True
    chosen = set()
    for s, e, l in regions:
        for off in (s - 1, s, s + 1, e - 2, e - 1, e):
            if 0 <= off < n:
                chosen.add(off)
    chosen.update((0, n - 1))
    left = max(0, budget - len(chosen))
    weights = [max(1.0, (e - s) ** 0.5) for s, e, l in regions]
    tot = sum(weights) or 1.0
    for (s, e, l), w in zip(regions, weights):
        k = min(e - s, int(left * w / tot) + 1)
        if e - s <= k:
            chosen.update(range(s, e))
        else:
            chosen.update(rng.sample(range(s, e), k))
    for off in sorted(chosen):
        if 0 <= off < n:
            for m in masks:
                out.append(mk(off, m))
    return out, False


def multi_byte(data, regions, rng, count):
    """overwrite 2..64 bytes with random bytes / zeros / 0xff at random places, biased to region starts"""
    n = len(data)
    out = []
    if n < 4:
        return out
    for i in range(count):
        s, e, l = regions[rng.randrange(len(regions))]
        if e <= s:
            continue
        off = s if i % 3 == 0 else rng.randrange(s, e)
        ln = min(n - off, e - off, rng.choice((2, 3, 4, 8, 16, 64)))      # stays inside one region: the region names the finding
        if ln < 2:
            continue
        style = i % 3
        new = bytes(rng.randrange(256) for _ in range(ln)) if style == 0 else (b"\0" * ln if style == 1 else b"\xff" * ln)
        if new == data[off:off + ln]:
            new = bytes((x ^ 0x55) for x in new)
        out.append({"kind": "overwrite", "ops": [["set", off, new.hex()]], "label": l, "offset": off})
    return out


def truncations(data, regions, rng, count):
    n = len(data)
    pts = {n - 1, n - 2, n // 2, 1}
    for s, e, l in regions:
        pts.update((s, e - 1))
    pts = sorted(p for p in pts if 0 < p < n)
    if len(pts) > count:
        keep = set(rng.sample(pts, count - 2)) | {n - 1, n - 2}
        pts = sorted(p for p in pts if p in keep)
    return [{"kind": "truncate", "ops": [["truncate", p]], "label": "truncate", "offset": p} for p in pts]


def appends(data, extra=()):
    out = []
    for name, tail in [("1-byte", b"\0"), ("newline", b"\n"), ("32-bytes", bytes(range(65, 97))), ("self-prefix", bytes(data[:64]))] + list(extra):
        out.append({"kind": "append", "ops": [["append", tail.hex()]], "label": "append", "variant": name, "offset": len(data)})
    return out


def inserts(data, points, rng):
    out = []
    for name, p in points:
        if 0 <= p <= len(data):
            out.append({"kind": "insert", "ops": [["insert", p, b"INSERTED-BYTES-0123456789".hex()]], "label": "insert-" + name, "offset": p})
    return out


# ------------------------------------------------------------------------------------------------ ZIP surgery
def zip_rewrite(data, replace=None, delete=(), add=(), rename=None, duplicate=(), limit=None):
    """rewrite a ZIP keeping every untouched local record and central-directory entry byte-identical (apart from the local
    header offsets in the directory). replace: {name: new content}; delete: names; add: [(name, content)] appended after the last
    record; rename: {old: new} (both headers); duplicate: [(name, content)] appended as a SECOND entry with an existing name.
    Returns the new archive or None when the layout is not understood."""
    replace = replace or {}
    rename = rename or {}
    try:
        z = c02_zip.Zip(data, limit=limit)
    except c02_zip.ZipError:
        return None
    ents = sorted(z.entries, key=lambda e: e.lho)
    first_after = z.cd_start
    out = bytearray()
    new_cd = []
    order = {id(e): i for i, e in enumerate(z.entries)}
    recs = {}
    for i, e in enumerate(ents):
        nxt = ents[i + 1].lho if i + 1 < len(ents) else first_after
        recs[id(e)] = (e.lho, nxt)
    cd_entries = {}
    for e in ents:
        s, t = recs[id(e)]
        cde = bytearray(data[e.cd_start:e.cd_end])
        if e.name in delete:
            continue
        if struct.unpack_from("<I", cde, 42)[0] == 0xffffffff:
            return None
        newoff = len(out)
        if e.name in replace or e.name in rename:
            content = replace[e.name] if e.name in replace else e.data()
            name = rename.get(e.name, e.name)
            method = e.method if e.method in (0, 8) else 8
            if method == 8:
                c = zlib.compressobj(6, zlib.DEFLATED, -15)
                comp = c.compress(content) + c.flush()
            else:
                comp = content
            crc = zlib.crc32(content) & 0xffffffff
            flags = e.flags & ~8
            lh = bytearray(data[e.lho:e.lho + 30])
            struct.pack_into("<H", lh, 6, flags)
            struct.pack_into("<H", lh, 8, method)
            struct.pack_into("<III", lh, 14, crc, len(comp), len(content))
            struct.pack_into("<HH", lh, 26, len(name), 0)
            out += lh + name + comp
            nl, xl, cl = struct.unpack_from("<HHH", cde, 28)
            tailx = bytes(cde[46 + nl:])
            cde = cde[:46] + name + tailx
            struct.pack_into("<H", cde, 8, flags)
            struct.pack_into("<H", cde, 10, method)
            struct.pack_into("<III", cde, 16, crc, len(comp), len(content))
            struct.pack_into("<H", cde, 28, len(name))
        else:
            out += data[s:t]
        struct.pack_into("<I", cde, 42, newoff)
        cd_entries[id(e)] = bytes(cde)
    for e in z.entries:
        if id(e) in cd_entries:
            new_cd.append(cd_entries[id(e)])
    for name, content in list(add) + list(duplicate):
        c = zlib.compressobj(6, zlib.DEFLATED, -15)
        comp = c.compress(content) + c.flush()
        crc = zlib.crc32(content) & 0xffffffff
        off = len(out)
        out += struct.pack("<IHHHHHIIIHH", 0x04034b50, 20, 0, 8, 0, 0x21, crc, len(comp), len(content), len(name), 0) + name + comp
        new_cd.append(struct.pack("<IHHHHHHIIIHHHHHII", 0x02014b50, 20, 20, 0, 8, 0, 0x21, crc, len(comp), len(content), len(name), 0, 0, 0, 0, 0, off) + name)
    cdoff = len(out)
    cdb = b"".join(new_cd)
    out += cdb
    n = len(new_cd)
    tail = bytearray(data[z.cd_start + z.cd_size:z.end])
    base = z.cd_start + z.cd_size
    if z.z64eocd is not None:
        o = z.z64eocd - base
        struct.pack_into("<QQQQ", tail, o + 24, n, n, len(cdb), cdoff)
        o2 = z.z64loc - base
        struct.pack_into("<Q", tail, o2 + 8, cdoff + len(cdb) + o)
    o = z.eocd - base
    cn, ct, cs, co = struct.unpack_from("<HHII", tail, o + 8)
    if z.z64eocd is None or cn != 0xffff:
        struct.pack_into("<HH", tail, o + 8, min(n, 0xffff), min(n, 0xffff))
    if z.z64eocd is None or cs != 0xffffffff:
        struct.pack_into("<I", tail, o + 12, len(cdb))
    if z.z64eocd is None or co != 0xffffffff:
        struct.pack_into("<I", tail, o + 16, cdoff)
    out += tail
    out += data[z.end:]
    return bytes(out)
