# C02: registry of signature formats for the end-to-end tamper check: how to sign each fixture with the real binary, the
# independent protected view (vlib/c02_{zip,bin,pgp,xml,der}.py), sampling regions and format-specific semantic mutations.
import hashlib, os, re, struct
from vlib import c02_bin as B, c02_der as D, c02_mut as M, c02_pgp as P, c02_xml as X, c02_zip as Z
from vlib.c02_xml import fill


def _zip_regions(b):
    return fill(Z.Zip(b).regions(), len(b), "after-archive")


def _xml_view(b):
    return X.canon_view(b)


def _cat_view(b):
    v = D.cms_view(b)
    return None if v is None else ("cat", v)


def _cat_regions(b):
    return fill(B.cms_regions(b, 0, len(b)), len(b), "gap")


def _clearsign_regions(b):
    m, s, e, text = P.clearsign_parts(b)
    a = b.find(b"-----BEGIN PGP SIGNATURE-----", e)
    z = b.find(b"-----END PGP SIGNATURE-----", a)
    zz = z + len(b"-----END PGP SIGNATURE-----")
    return fill([(0, m.end(1), "cleartext-header-line"), (m.end(1), m.end(2), "armor-headers-hash"), (m.end(2), s, "blank-line"), (s, e, "signed-text"),
                 (e, a, "line-break-before-armor"), (a, a + 29, "armor-begin"), (a + 29, z, "armor-body"), (z, zz, "armor-end"), (zz, len(b), "after-signature")], len(b), "gap")


def _detached_regions(b):
    if b.lstrip()[:10] == b"-----BEGIN":
        return [(0, len(b), "armored-signature")]
    pk = P.read_packets(b)
    r = []
    for tag, spans, _, h in pk:
        s, e = spans[0]
        r.append((h, s, "packet-header"))
        if tag == 2:
            try:
                _, rg = P.sig_view(bytes(b[s:e]))
                r += [(s, s + rg["hashed"][0], "sig-fixed-fields"), (s + rg["hashed"][0], s + rg["hashed"][1], "sig-hashed-subpackets"),
                      (s + rg["unhashed"][0] - 2, s + rg["unhashed"][1], "sig-unhashed-subpackets"), (s + rg["left16"][0], s + rg["left16"][1], "sig-hash-prefix"),
                      (s + rg["mpis"][0], s + rg["mpis"][1], "sig-value")]
            except P.PgpError:
                r.append((s, e, "signature-packet"))
        elif tag == 11:
            d = b[s:e]
            fl = d[1]
            r += [(s, s + 6 + fl, "literal-header"), (s + 6 + fl, e, "literal-body")]
        else:
            r.append((s, e, "packet-%d" % tag))
    return fill(B._dedup(r), len(b), "gap")


# fmt -> view / regions / neutral / which view result means "the reference reader cannot read it"
FORMATS = {
    "jar": {"view": Z.jar_view, "regions": _zip_regions},
    "vsix": {"view": Z.vsix_view, "regions": _zip_regions},
    "xap": {"view": Z.xap_view, "regions": lambda b: fill(B._dedup(Z.xap_regions(b)), len(b), "gap")},
    "apk": {"view": Z.apk_view, "regions": lambda b: fill(Z.apk_regions(b), len(b), "gap")},
    "appx": {"view": Z.appx_view, "regions": _zip_regions},
    "pe-coff": {"view": B.pe_view, "regions": B.pe_regions},
    "cab": {"view": B.cab_view, "regions": B.cab_regions},
    "ps": {"view": B.ps_view, "regions": B.ps_regions},
    "msi": {"view": B.msi_view, "regions": B.msi_regions, "neutral": B.msi_neutral},
    "deb": {"view": P.deb_view, "regions": lambda b: fill(P.deb_regions(b), len(b), "gap")},
    "rpm": {"view": P.rpm_view, "regions": lambda b: fill(B._dedup(P.rpm_regions(b)), len(b), "sighdr-padding"), "neutral": P.rpm_neutral},
    "appmanifest": {"view": _xml_view, "regions": X.regions},
    "cat": {"view": _cat_view, "regions": _cat_regions},
    "macho": {"view": B.macho_view, "regions": B.macho_regions},
    "dmg": {"view": B.dmg_view, "regions": B.dmg_regions},
    "xar": {"view": B.xar_view, "regions": B.xar_regions},
    "pgp-detached": {"view": P.detached_view, "regions": _detached_regions},
    "pgp-clearsign": {"view": P.clearsign_view, "regions": _clearsign_regions},
    "pgp-inline": {"view": P.inline_view, "regions": _detached_regions},
}

# what the specification of each format leaves unprotected (recorded in the evidence; mutations there are never failures)
UNPROTECTED_NOTE = {
    "pe-coff": "CheckSum field, certificate-table directory entry, WIN_CERTIFICATE revision/type, 8-byte padding after the certificate",
    "cab": "reserved1, iCabinet, first 4 and bytes 8-16 of the per-cabinet reserve (signature size and unused)",
    "jar": "ZIP framing (local headers, central-directory fields other than names, order, timestamps, directory entries, bytes after the archive)",
    "vsix": "ZIP framing; [Content_Types].xml (not a part, cannot be referenced by an OPC signature)",
    "xap": "the three undocumented 16-bit fields of the XAP signature header/trailer",
    "apk": "signing-block size fields, magic and non-v2 pairs",
    "appx": "the signature member's own local record framing and directory entry; count/size/offset fields of the end records",
    "msi": "FAT/mini-FAT/DIFAT, directory tree pointers, colours, free and slack sectors, root entry name/times, name of the Ex stream",
    "deb": "ar header mtime/uid/gid/mode, role suffix of the signature member name, bytes after the armor inside the signature member",
    "rpm": "lead, signature-header index layout, reserved space, size tags, region trailer; absent digests",
    "ps": "nothing before the block; the final line break after the end marker",
    "appmanifest": "XML declaration, BOM, comments, attribute order/quoting",
    "cat": "outer ContentInfo framing, digestAlgorithms set, versions, NULL parameters",
    "macho": "superblob index order, wrapper magic, padding after the superblob",
    "dmg": "koly CodeSignature offset/length fields, padding after the superblob",
    "xar": "header's uncompressed TOC length, heap bytes not named by the TOC, reserved space after the CMS",
    "pgp-detached": "unhashed subpackets, 16-bit hash prefix, armor headers and CRC",
    "pgp-clearsign": "trailing blanks of lines, armor headers other than Hash, CRC, unhashed subpackets",
    "pgp-inline": "literal packet file name and date, one-pass packet, unhashed subpackets",
}


def zip_v1_classify(v0, v1):
    """names the finding when a JAR/OPC archive is accepted although its member set grew: every original (name, content) pair is
    still there and at least one member that no digest covers was added"""
    try:
        a = set(x for x in v0[1] if x[1] != ("unprotected",))
        b = set(x for x in v1[1] if x[1] != ("unprotected",))
    except (TypeError, IndexError):
        return None
    if a < b:
        return "unlisted-member"
    return None


# OPC: [Content_Types].xml is not a part and cannot be referenced by the package signature: its local record, data and directory entry are unprotected
FORMATS["vsix"]["unprotected_region"] = lambda label: label.split(":", 1)[-1] == "[Content_Types].xml" and label.split(":", 1)[0] in ("cd", "lfh", "data", "dd")
# MS-CFB: DIFAT slots of the header, unallocated sectors and the slack behind a stream's last byte are allocation framing, not content
# (a lenient reader such as relic's treats any negative DIFAT slot as free; the strict reader used here refuses the file)
FORMATS["msi"]["unprotected_region"] = lambda label: label in ("cfb-header-difat", "unallocated") or label.startswith("stream-slack:")
FORMATS["jar"]["classify"] = zip_v1_classify
FORMATS["vsix"]["classify"] = zip_v1_classify
FORMATS["rpm"]["classify"] = P.rpm_classify


def ps_classify(v0, v1):
    try:
        if v0[1] == v1[1] and v0[3] == v1[3] and v0[2] != v1[2]:
            return "content-after-block"
        if v0[2] == v1[2] and v0[3] == v1[3] and v1[1].startswith(v0[1]) and "<no CRLF before signature block>" in v1[1]:
            return "byte-before-block"
    except (TypeError, IndexError, AttributeError):
        pass
    return None


def clearsign_classify(v0, v1):
    try:
        if v0[:3] == v1[:3] and v0[3] != v1[3]:
            return "content-after-signature"
    except (TypeError, IndexError):
        pass
    return None


FORMATS["ps"]["classify"] = ps_classify
FORMATS["pgp-clearsign"]["classify"] = clearsign_classify
FORMATS["pgp-inline"]["classify"] = clearsign_classify


def blank_etype(v):
    """the view with every CMS eContentType blanked (to recognise findings that concern only that field)"""
    if isinstance(v, tuple):
        if len(v) == 2 and v[0] == "etype":
            return ("etype", None)
        return tuple(blank_etype(x) for x in v)
    if isinstance(v, frozenset):
        return frozenset(blank_etype(x) for x in v)
    return v


def region_of(regions, off):
    for s, e, l in regions:
        if s <= off < e:
            return l
    return "gap"


# ------------------------------------------------------------------------------------------------ semantic mutations
def sem(name, data, note="", expect=None):
    return {"kind": "semantic", "name": name, "data": data, "label": name, "note": note, "expect": expect}


def member_flips(art, names, rng, per_member, limit=None, exhaustive_below=0):
    """flip bytes of the UNCOMPRESSED content of selected ZIP members and re-pack that member only"""
    out = []
    data = art["data"]
    try:
        z = Z.Zip(data, limit=limit)
    except Z.ZipError:
        return out
    for e in z.entries:
        kind = names(e.name)
        if not kind:
            continue
        try:
            c = e.data()
        except Z.ZipError:
            continue
        if not c:
            continue
        if len(c) <= exhaustive_below:
            offs = range(len(c))
        else:
            offs = sorted(set(rng.sample(range(len(c)), min(len(c), per_member)) + [0, len(c) - 1]))
        for o in offs:
            m = bytearray(c)
            mask = rng.randrange(1, 256)
            m[o] ^= mask
            new = M.zip_rewrite(data, replace={e.name: bytes(m)}, limit=limit)
            if new is not None:
                out.append(dict(sem("member-flip:" + kind, new, "member %s uncompressed offset %d xor 0x%02x" % (e.name.decode("latin-1"), o, mask)),
                                member=e.name.decode("latin-1"), offset=o, mask=mask))
    return out


def zip_semantic(art, rng, tier):
    fmt, data = art["fmt"], art["data"]
    out = []
    thorough = tier == "thorough"
    limit = None
    suffix = b""
    if fmt == "xap":
        try:
            limit = Z.xap_layout(data)[0]
        except Z.ZipError:
            return out
    try:
        z = Z.Zip(data, limit=limit)
    except Z.ZipError:
        return out
    payload = [e for e in z.entries if not e.name.endswith(b"/") and Z.jar_sig_kind(e.name) is None and b"digital-signature" not in e.name
               and e.name not in (b"[Content_Types].xml", Z.APPX_SIG) and e.usize > 0]

    def kinds(name):
        if fmt == "jar":
            return Z.jar_sig_kind(name) or (payload and name == payload[0].name and "payload")
        if fmt == "vsix":
            if name.lower().endswith(b".psdsxs"):
                return "xml-signature"
            if name.lower().endswith(b".rels"):
                return "relationships"
            if name == b"[Content_Types].xml":
                return "content-types"
            return payload and name == payload[0].name and "payload"
        if fmt == "appx":
            return {Z.APPX_SIG: "p7x", b"AppxBlockMap.xml": "blockmap", b"[Content_Types].xml": "content-types", b"AppxManifest.xml": "manifest",
                    b"AppxMetadata/CodeIntegrity.cat": "codeintegrity"}.get(name)
        if fmt == "apk":
            return Z.jar_sig_kind(name) or (payload and name == payload[0].name and "payload")
        return None
    if fmt in ("jar", "vsix", "appx", "apk"):
        out += member_flips(art, kinds, rng, 400 if thorough else 60, limit=limit, exhaustive_below=6000 if thorough else (1200 if fmt == "jar" else 0))
    if payload:
        p0 = payload[0]
        c = p0.data()
        for name, kw in [("member-replace", {"replace": {p0.name: c[:len(c) // 2] + b"X" + c[len(c) // 2 + 1:]}}),
                         ("member-append-byte", {"replace": {p0.name: c + b"\n"}}),
                         ("member-delete", {"delete": [p0.name]}),
                         ("member-rename", {"rename": {p0.name: p0.name + b".renamed"}}),
                         ("member-duplicate-name", {"duplicate": [(p0.name, b"second entry with the same name\n")]}),
                         ("unlisted-member", {"add": [(b"unlisted/evil.txt", b"content that no digest covers\n")]}),
                         ("unlisted-member-class", {"add": [(b"Evil.class" if fmt in ("jar", "apk") else b"evil.dll", b"\xca\xfe\xba\xbe evil")]})]:
            new = M.zip_rewrite(data, limit=limit, **kw)
            if new is not None:
                out.append(sem(name, new, "ZIP rewritten keeping all other records byte-identical"))
        if fmt == "jar":
            new = M.zip_rewrite(data, add=[(b"META-INF/EVIL.TXT", b"unlisted file in META-INF\n")])
            if new is not None:
                out.append(sem("unlisted-member-metainf", new))
        if len(payload) > 1:
            # swap the contents of two members (both digests are valid digests of SOME member)
            a, b2 = payload[0], payload[1]
            new = M.zip_rewrite(data, replace={a.name: b2.data(), b2.name: a.data()}, limit=limit)
            if new is not None:
                out.append(sem("member-contents-swapped", new))
    if fmt == "apk":
        try:
            z2, start, pairs = Z.apk_parts(data)
            b = bytearray(data[:start] + data[z2.cd_start:])
            struct.pack_into("<I", b, z2.eocd - (z2.cd_start - start) + 16, start)
            out.append(sem("v2-block-stripped", bytes(b), "APK signing block removed, central directory offset fixed: a v1 signature that announces v2 must not verify alone (rollback protection)", expect="reject"))
        except (Z.ZipError, struct.error):
            pass
    # insertion before the end-of-central-directory record and between the last record and the directory
    out += [dict(x, kind="insert") for x in M.inserts(data, [("before-eocd", z.eocd), ("before-central-directory", z.cd_start), ("archive-start", 0)], rng)]
    return out


def ps_semantic(art, rng, tier):
    data = art["data"]
    out = []
    try:
        content, blob, tail, (pre, post), enc = B.ps_parts(data)
    except (B.FmtError, UnicodeError):
        return out
    evil = (pre + "evil" + post) if post else "Write-Host evil"
    for name, new in [("append-line-after-block", data + evil.encode() + b"\r\n"),
                      ("append-text-no-newline", data + b"evil"),
                      ("append-after-block-crlf-only", data + b"\r\n"),
                      ("second-block-appended", data + data[data.find(b"SIG # Begin") - len(pre):] if b"SIG # Begin" in data else None)]:
        if new is not None:
            out.append(sem(name, new, "text after '# SIG # End signature block'"))
    i = data.find(pre.encode() + b"SIG # Begin signature block")
    if i >= 2:
        out.append(sem("insert-line-before-block", data[:i] + evil.encode() + b"\r\n" + data[i:]))
        out.append(sem("separator-crlf-replaced:lf", data[:i - 2] + b"\n\n" + data[i:]))
        out.append(sem("separator-first-byte-replaced", data[:i - 2] + b";" + data[i - 1:], "the byte before the LF that precedes the begin marker"))
        out.append(sem("separator-removed", data[:i - 2] + data[i:]))
        out.append(sem("prepend-line", evil.encode() + b"\r\n" + data))
    return out


def deb_semantic(art, rng, tier):
    data = art["data"]
    out = []
    try:
        ms = P.ar_members(data)
    except P.PgpError:
        return out

    def rec(m):
        name, hs, ds, de = m
        return data[hs:de] + (b"\n" if (de - ds) % 2 else b"")

    def mkmember(name, content):
        h = name.ljust(16) + b"0".ljust(12) + b"0".ljust(6) + b"0".ljust(6) + b"100644".ljust(8) + str(len(content)).encode().ljust(10) + b"`\n"
        return h + content + (b"\n" if len(content) % 2 else b"")
    sig = [m for m in ms if m[0].startswith(b"_gpg")]
    rest = [m for m in ms if not m[0].startswith(b"_gpg")]
    if not sig or len(rest) < 3:
        return out
    hdr = data[:8]
    out.append(sem("members-reordered", hdr + rec(rest[0]) + rec(rest[2]) + rec(rest[1]) + b"".join(rec(m) for m in sig), "control and data members swapped"))
    out.append(sem("member-deleted", hdr + rec(rest[0]) + rec(rest[1]) + b"".join(rec(m) for m in sig)))
    out.append(sem("member-inserted-before-signature", hdr + b"".join(rec(m) for m in rest) + mkmember(b"extra.tar", b"not listed in the signature\n") + b"".join(rec(m) for m in sig)))
    out.append(sem("member-appended-after-signature", data + (b"\n" if len(data) % 2 else b"") + mkmember(b"data.tar.zz", b"appended after the signature member\n")))
    n2 = rest[2]
    out.append(sem("member-renamed", hdr + rec(rest[0]) + rec(rest[1]) + (b"data.tar.gz".ljust(16) + data[n2[1] + 16:n2[3]]) + (b"\n" if (n2[3] - n2[2]) % 2 else b"") + b"".join(rec(m) for m in sig)))
    out.append(sem("second-data-member-after-signature", data + (b"\n" if len(data) % 2 else b"") + mkmember(rest[2][0], b"another data member\n")))
    return out


def xml_semantic(art, rng, tier):
    data = art["data"]
    out = []
    txt = data

    def rep(name, a, b, count=1):
        if a in txt:
            out.append(sem(name, txt.replace(a, b, count)))
    rep("attribute-value-changed", b'version="1.2.3.4"', b'version="1.2.3.5"')
    rep("element-inserted", b"<publisherIdentity", b"<evil xmlns=\"urn:evil\"/><publisherIdentity")
    rep("comment-inserted", b"<publisherIdentity", b"<!-- harmless comment --><publisherIdentity")
    rep("text-inserted", b"<publisherIdentity", b"evil text<publisherIdentity")
    m = re.search(rb"<dependency>.*?</dependency>\s*", txt, flags=re.S)
    if m:
        out.append(sem("element-deleted", txt[:m.start()] + txt[m.end():]))
    ms = list(re.finditer(rb"<(?:dsig:)?DigestValue>([^<]+)</(?:dsig:)?DigestValue>", txt))
    if len(ms) >= 2:
        a, b2 = ms[0], ms[-1]
        out.append(sem("digest-values-swapped", txt[:a.start(1)] + b2.group(1) + txt[a.end(1):b2.start(1)] + a.group(1) + txt[b2.end(1):]))
    m = re.search(rb"<Signature[ >].*</Signature>", txt, flags=re.S)
    if m:
        out.append(sem("signature-element-removed", txt[:m.start()] + txt[m.end():], "must be reported unsigned"))
        # signature wrapping: the signed document is buried inside a new root together with its signature
        root_open = re.search(rb"<asmv1:assembly[^>]*>", txt)
        if root_open:
            out.append(sem("signature-wrapping", txt[:root_open.end()] + b"<evil xmlns=\"urn:evil\">run me</evil>" + txt[root_open.end():]))
    rep("publisher-identity-changed", b'publisherIdentity name="CN=', b'publisherIdentity name="CN=evil ')
    rep("manifest-hash-changed", b'ManifestInformation Hash="', b'ManifestInformation Hash="00')
    return out


def pgp_clearsign_semantic(art, rng, tier):
    data = art["data"]
    out = []
    try:
        m, s, e, text = P.clearsign_parts(data)
    except P.PgpError:
        return out
    lines = text.split(b"\n")
    mid = len(lines) // 2
    out.append(sem("line-inserted", data[:s] + b"\n".join(lines[:mid] + [b"Evil: inserted line"] + lines[mid:]) + data[e:]))
    out.append(sem("line-deleted", data[:s] + b"\n".join(lines[:mid] + lines[mid + 1:]) + data[e:]))
    out.append(sem("lines-swapped", data[:s] + b"\n".join(lines[:mid] + [lines[mid + 1], lines[mid]] + lines[mid + 2:]) + data[e:]))
    out.append(sem("trailing-blank-added", data[:s] + b"\n".join(lines[:mid] + [lines[mid] + b" \t"] + lines[mid + 1:]) + data[e:], "RFC 4880: trailing blanks are not signed (unprotected)"))
    out.append(sem("text-before-header", b"Unsigned: text before the message\n" + data, "content outside the cleartext framework"))
    out.append(sem("text-after-signature", data + b"Unsigned: text after the signature\n", "content outside the cleartext framework"))
    out.append(sem("hash-header-changed", data.replace(b"Hash: SHA256", b"Hash: SHA1", 1)))
    out.append(sem("hash-header-removed", data.replace(b"Hash: SHA256\n", b"", 1)))
    out.append(sem("extra-armor-header-with-text", data.replace(b"Hash: SHA256\n", b"Hash: SHA256\nNotDashEscaped: evil injected header text\n", 1)))
    out.append(sem("dash-escape-added", data[:s] + b"\n".join(lines[:mid] + [b"- " + lines[mid]] + lines[mid + 1:]) + data[e:], "same signed text (neutral)"))
    return out


SEMANTIC = {"jar": zip_semantic, "vsix": zip_semantic, "appx": zip_semantic, "apk": zip_semantic, "xap": zip_semantic,
            "ps": ps_semantic, "deb": deb_semantic, "appmanifest": xml_semantic, "pgp-clearsign": pgp_clearsign_semantic}


def extra_appends(fmt):
    if fmt == "pe-coff":
        return [("overlay-256", b"OVERLAY" * 37)]
    if fmt in ("jar", "vsix", "apk", "appx"):
        return [("second-zip", b"PK\x05\x06" + b"\0" * 18)]
    return []


def container_padding_trick(art):
    """PE: data hidden inside the certificate table by growing the directory size and dwLength (both unprotected by Authenticode)"""
    data = art["data"]
    try:
        L = B.pe_layout(data)
    except B.FmtError:
        return []
    co, cs = L["certoff"], L["certsize"]
    if not co or co + cs != len(data):
        return []
    extra = b"HIDDEN!!" * 8
    b = bytearray(data + extra)
    struct.pack_into("<I", b, L["certdir"] + 4, cs + len(extra))
    ln, = struct.unpack_from("<I", b, co)
    if (ln + 7) & ~7 == cs:
        struct.pack_into("<I", b, co, cs + len(extra))
    return [sem("certtable-padding-grown", bytes(b), "extra bytes inside the attribute certificate table (unprotected by Authenticode)")]
