# C02 helper: a small, lenient BER/DER reader (ITU-T X.690) and the protected view of a CMS SignedData (RFC 5652),
# written from the specifications; shares nothing with relic. Used to decide which bytes of a signature blob the
# property names as protected: the encapsulated content (embedded digest values), the signed attributes, the signer
# certificate, the signature value (plus the identifiers that select them: sid, digest algorithm).


class DerError(Exception):
    pass


class Node:
    __slots__ = ("tag", "cons", "start", "hstart", "end", "kids", "raw")

    def __init__(self, tag, cons, hstart, start, end, raw):
        self.tag, self.cons, self.hstart, self.start, self.end, self.raw = tag, cons, hstart, start, end, raw
        self.kids = None

    @property
    def content(self):
        return self.raw[self.start:self.end]

    @property
    def der(self):
        return self.raw[self.hstart:self.end]

    def children(self):
        if self.kids is None:
            self.kids = parse_seq(self.raw, self.start, self.end)
        return self.kids


def read_tlv(b, pos, end, lenient=False):
    """one definite-length TLV at pos; returns Node. tag is the full identifier as an int (class/constructed bits kept in the first octet)"""
    if pos + 2 > end:
        raise DerError("truncated header")
    hstart = pos
    t = b[pos]
    pos += 1
    tag = t
    if t & 0x1f == 0x1f:
        n = 0
        while True:
            if pos >= end:
                raise DerError("truncated tag")
            c = b[pos]
            pos += 1
            tag = (tag << 8) | c
            n += 1
            if not c & 0x80:
                break
            if n > 4:
                raise DerError("tag too long")
    if pos >= end:
        raise DerError("truncated length")
    l = b[pos]
    pos += 1
    if l == 0x80:
        raise DerError("indefinite length")
    if l & 0x80:
        k = l & 0x7f
        if k > 8 or pos + k > end:
            raise DerError("bad length")
        l = int.from_bytes(b[pos:pos + k], "big")
        pos += k
    if pos + l > end:
        if not lenient or pos >= end:
            raise DerError("value overruns container")
        l = end - pos       # a reader that walks into the value without checking the declared length sees the same fields
    return Node(tag, bool(t & 0x20), hstart, pos, pos + l, b)


def parse_seq(b, pos, end):
    out = []
    while pos < end:
        n = read_tlv(b, pos, end)
        out.append(n)
        pos = n.end
    return out


OID_SIGNED_DATA = bytes.fromhex("2a864886f70d010702")
OID_MESSAGE_DIGEST = bytes.fromhex("2a864886f70d010904")


def cert_fields(cert):
    """(issuer DER, serial content, subjectKeyIdentifier or None) of an X.509 Certificate node"""
    tbs = cert.children()[0].children()
    i = 0
    if tbs[0].tag == 0xa0:
        i = 1
    serial, issuer = tbs[i], tbs[i + 2]
    ski = None
    for n in tbs[i + 6:]:
        if n.tag == 0xa3:
            for ext in n.children()[0].children():
                k = ext.children()
                if k[0].content == bytes.fromhex("551d0e"):
                    inner = read_tlv(ext.raw, k[-1].start, k[-1].end)
                    ski = inner.content
    return issuer.der, serial.content, ski


class CMS:
    """parsed SignedData with the byte ranges (relative to the blob) of each protected component"""

    def __init__(self, blob):
        self.blob = blob
        top = read_tlv(blob, 0, len(blob), lenient=True)
        self.top = top
        self.trailing = blob[top.end:]
        ci = [read_tlv(blob, top.start, top.end)]
        ci.append(read_tlv(blob, ci[0].end, top.end, lenient=True))
        # the outer contentType OID and the length octets of the two wrappers are framing, not one of the protected components
        if ci[0].tag != 6 or ci[1].tag != 0xa0:
            raise DerError("not a ContentInfo")
        # the [0] EXPLICIT wrapper and the SignedData SEQUENCE are walked, not measured: their length octets are framing
        sd = read_tlv(blob, ci[1].start, top.end, lenient=True)
        if sd.tag != 0x30:
            raise DerError("SignedData is not a SEQUENCE")
        k = []
        pos = sd.start
        while pos < top.end:
            try:
                n = read_tlv(blob, pos, top.end)
            except DerError:
                break
            k.append(n)
            pos = n.end
            if n.tag == 0x31 and len(k) >= 4:
                break           # signerInfos is the last field
        if len(k) < 4 or k[0].tag != 2 or k[1].tag != 0x31 or k[2].tag != 0x30:
            raise DerError("SignedData fields")
        self.version, self.digest_algs, self.encap = k[0], k[1], k[2]
        self.certs, self.crls, self.signer_infos = [], None, None
        for n in k[3:]:
            if n.tag == 0xa0:
                self.certs = n.children()
                self.certs_node = n
            elif n.tag == 0xa1:
                self.crls = n
            elif n.tag == 0x31:
                self.signer_infos = n
        if self.signer_infos is None:
            raise DerError("no signerInfos")
        e = self.encap.children()
        self.econtent_type = e[0]
        self.econtent = e[1] if len(e) > 1 else None
        self.signers = []
        for si in self.signer_infos.children():
            f = si.children()
            d = {"node": si, "version": f[0], "sid": f[1], "digest_alg": f[2]}
            i = 3
            d["signed_attrs"] = None
            if f[i].tag == 0xa0:
                d["signed_attrs"] = f[i]
                i += 1
            d["sig_alg"], d["signature"] = f[i], f[i + 1]
            if d["signature"].tag != 4:
                raise DerError("signature is not an OCTET STRING")
            d["unsigned_attrs"] = f[i + 2] if len(f) > i + 2 else None
            d["cert"] = self._find_cert(d["sid"])
            self.signers.append(d)
        if not self.signers:
            raise DerError("no signers")

    def _find_cert(self, sid):
        for c in self.certs:
            if c.tag != 0x30:
                continue
            try:
                issuer, serial, ski = cert_fields(c)
            except (DerError, IndexError):
                continue
            if sid.tag == 0x30:
                k = sid.children()
                if len(k) == 2 and k[0].der == issuer and k[1].content == serial:
                    return c
            elif sid.tag == 0x80 and ski is not None and sid.content == ski:
                return c
        return None

    def protected_ranges(self):
        """list of (start, end, what) inside the blob: the components the property names"""
        r = []
        r.append((self.econtent_type.hstart, self.econtent_type.end, "econtent-type"))
        if self.econtent is not None:
            r.append((self.econtent.hstart, self.econtent.end, "econtent"))
        for s in self.signers:
            r.append((s["sid"].hstart, s["sid"].end, "sid"))
            r.append((s["digest_alg"].children()[0].hstart, s["digest_alg"].children()[0].end, "digest-alg-oid"))
            if s["signed_attrs"] is not None:
                r.append((s["signed_attrs"].hstart, s["signed_attrs"].end, "signed-attrs"))
            r.append((s["signature"].hstart, s["signature"].end, "signature-value"))
            if s["cert"] is not None:
                r.append((s["cert"].hstart, s["cert"].end, "signer-cert"))
        return r

    def view(self):
        """canonical protected content. Encoding forms of lengths (BER vs DER) are not part of it, values are."""
        # PKCS#7 (RFC 2315 §9.3) digests only the contents octets of the content field: its identifier and length octets are framing
        ec = None
        if self.econtent is not None:
            try:
                ec = read_tlv(self.blob, self.econtent.start, self.econtent.end, lenient=True).content
            except DerError:
                ec = self.econtent.content
        out = [("etype", self.econtent_type.content), ("econtent", ec)]
        for s in self.signers:
            out.append(("sid", s["sid"].der))
            out.append(("digest-alg", s["digest_alg"].children()[0].content))
            out.append(("signed-attrs", s["signed_attrs"].content if s["signed_attrs"] is not None else None))
            out.append(("signature", s["signature"].content))
            out.append(("cert", s["cert"].der if s["cert"] is not None else None))
        return tuple(out)


def cms_view(blob):
    """view or None when the blob is not a parseable SignedData"""
    try:
        return CMS(bytes(blob)).view()
    except (DerError, IndexError, AttributeError):
        return None


def describe(blob, off):
    """path of tags leading to offset off (for reports)"""
    path = []
    try:
        nodes = [read_tlv(blob, 0, len(blob))]
    except DerError:
        return "?"
    while True:
        hit = None
        for i, n in enumerate(nodes):
            if n.hstart <= off < n.end:
                hit = (i, n)
                break
        if hit is None:
            break
        i, n = hit
        path.append("%02x[%d]%s" % (n.tag, i, "hdr" if off < n.start else ""))
        if off < n.start or not n.cons:
            break
        try:
            nodes = n.children()
        except DerError:
            break
    return "/".join(path)
