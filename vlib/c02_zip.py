# C02 helper: independent ZIP reader (PKWARE APPNOTE 6.3.x) and the protected views of the ZIP-based signature
# formats, written from the format specifications:
#   JAR v1 (JAR File Specification, "Signed JAR File"), OPC/VSIX (ECMA-376 part 2 §13 digital signatures),
#   XAP (Silverlight: Authenticode blob appended after the archive), APK v2 (source.android.com "APK Signature Scheme v2"),
#   APPX (MS-APPX: AppxSignature.p7x digests AXPC/AXCD/AXCT/AXBM/AXCI).
# Nothing here uses relic.
import hashlib, struct, zlib
from vlib import c02_der


class ZipError(Exception):
    pass


class Entry:
    __slots__ = ("name", "method", "flags", "crc", "csize", "usize", "lho", "cd_start", "cd_end", "data_start", "data_end",
                 "rec_end", "extra", "comment", "_z")

    def data(self):
        z = self._z
        if self.data_start is None:
            raise ZipError("no local header for %r" % self.name)
        raw = z.b[self.data_start:self.data_end]
        if self.usize == 0 and self.data_start == self.data_end:
            return b""
        if self.method == 0:
            out = raw
        elif self.method == 8:
            d = zlib.decompressobj(-15)
            try:
                out = d.decompress(raw) + d.flush()
            except zlib.error as e:
                raise ZipError("inflate: %s" % e)
            if not d.eof:
                raise ZipError("deflate stream truncated")
            # bytes of the member area after the end of the deflate stream are not content
        else:
            raise ZipError("unsupported method %d" % self.method)
        if len(out) != self.usize:
            raise ZipError("size mismatch for %r" % self.name)
        return out


class Zip:
    """central-directory driven reader: what a standard reader (java.util.zip, Windows packaging API) sees"""

    def __init__(self, b, limit=None):
        self.b = b
        end = len(b) if limit is None else limit
        # end of central directory record: the last signature whose comment fits in the file. Bytes after the comment are not
        # part of the archive (standard readers tolerate them); formats that protect the whole file look at file_end themselves.
        pos = None
        i = end - 22
        lo = max(0, end - 22 - 65535 - 4096)
        while i >= lo:
            if b[i:i + 4] == b"PK\x05\x06" and i + 22 + struct.unpack_from("<H", b, i + 20)[0] <= end:
                pos = i
                break
            i -= 1
        if pos is None:
            raise ZipError("no end of central directory record")
        self.eocd = pos
        self.file_end = end
        self.end = pos + 22 + struct.unpack_from("<H", b, pos + 20)[0]
        disk, cddisk, n_here, n, cdsize, cdoff, clen = struct.unpack_from("<HHHHIIH", b, pos + 4)
        self.comment = b[pos + 22:pos + 22 + clen]
        self.z64loc = self.z64eocd = None
        if pos >= 20 and b[pos - 20:pos - 16] == b"PK\x06\x07":
            self.z64loc = pos - 20
            z64off = struct.unpack_from("<Q", b, pos - 12)[0]
            if b[z64off:z64off + 4] != b"PK\x06\x06":
                raise ZipError("zip64 locator points nowhere")
            self.z64eocd = z64off
            # readers differ on which record wins when both are present; the zip64 record is authoritative once a locator exists
            # (python zipfile; go archive/zip as soon as one classic field is saturated)
            n, cdsize, cdoff = struct.unpack_from("<QQQ", b, z64off + 32)
        self.cd_start, self.cd_size, self.n = cdoff, cdsize, n
        self.entries = []
        p = cdoff
        if cdoff > end:
            raise ZipError("central directory beyond file")
        count = 0
        cd_limit = self.z64eocd if self.z64eocd is not None else self.eocd
        while p < cd_limit and b[p:p + 4] == b"PK\x01\x02":
            # the directory is the run of entries inside [offset, offset+size); the entry count is a 16-bit cross-check for readers
            if b[p:p + 4] != b"PK\x01\x02" or p + 46 > end:
                raise ZipError("bad central directory entry at %d" % p)
            count += 1
            (vm, vn, flags, method, mt, md, crc, csize, usize, nl, xl, cl, dn, ia, ea, lho) = struct.unpack_from("<HHHHHHIIIHHHHHII", b, p + 4)
            e = Entry()
            e._z = self
            e.cd_start = p
            e.name = bytes(b[p + 46:p + 46 + nl])
            e.extra = bytes(b[p + 46 + nl:p + 46 + nl + xl])
            e.comment = bytes(b[p + 46 + nl + xl:p + 46 + nl + xl + cl])
            p += 46 + nl + xl + cl
            e.cd_end = p
            if p > end:
                raise ZipError("central directory overruns file")
            x = e.extra
            while len(x) >= 4:
                hid, hl = struct.unpack_from("<HH", x, 0)
                if hid == 1:
                    q = 4
                    if usize == 0xffffffff:
                        usize = struct.unpack_from("<Q", x, q)[0]
                        q += 8
                    if csize == 0xffffffff:
                        csize = struct.unpack_from("<Q", x, q)[0]
                        q += 8
                    if lho == 0xffffffff:
                        lho = struct.unpack_from("<Q", x, q)[0]
                x = x[4 + hl:]
            e.method, e.flags, e.crc, e.csize, e.usize, e.lho = method, flags, crc, csize, usize, lho
            if e.name.endswith(b"/") or (usize == 0 and csize == 0):
                # nothing to read: a reader never visits the local header of an empty member
                e.data_start = e.data_end = e.rec_end = min(lho, end)
                self.entries.append(e)
                continue
            # the local header is visited only when the member is read (see Entry.data); a bad one is that member's problem
            e.data_start = None
            if b[lho:lho + 4] == b"PK\x03\x04" and lho + 30 <= end:
                lnl, lxl = struct.unpack_from("<HH", b, lho + 26)
                if lho + 30 + lnl + lxl <= end:
                    e.data_start = lho + 30 + lnl + lxl
                    e.data_end = min(e.data_start + csize, end)       # a deflate stream is self-terminating; stored data needs the exact size
                    e.rec_end = e.data_end
            if e.data_start is None:
                e.data_end = e.rec_end = None
            self.entries.append(e)
        cdsize = p - cdoff          # the directory is the run of entries; the size field is a cross-check that readers do not all make
        self.cd_size = cdsize
        if (count & 0xffff) != (n & 0xffff):
            raise ZipError("entry count mismatch")
        # data descriptors / gaps: a record extends to the next record (or the central directory / a signing block)
        starts = sorted([e.lho for e in self.entries] + [cdoff])
        for e in self.entries:
            nxt = [x for x in starts if x > e.lho]
            if e.data_start is not None and nxt and nxt[0] >= e.data_end and (e.flags & 8):
                e.rec_end = min(nxt[0], e.data_end + 24)

    def names(self):
        return [e.name for e in self.entries]

    def get(self, name):
        for e in self.entries:
            if e.name == name:
                return e
        return None

    def regions(self):
        """byte regions for stratified sampling: (start, end, label)"""
        r = []
        for e in self.entries:
            n = e.name.decode("latin-1")
            if e.data_start is None:
                r.append((e.cd_start, e.cd_end, "cd:" + n))
                continue
            r.append((e.lho, e.data_start, "lfh:" + n))
            if e.data_end > e.data_start:
                r.append((e.data_start, e.data_end, "data:" + n))
            if e.rec_end > e.data_end:
                r.append((e.data_end, e.rec_end, "dd:" + n))
            r.append((e.cd_start, e.cd_end, "cd:" + n))
        if self.z64eocd is not None:
            r.append((self.z64eocd, self.z64loc, "zip64-eocd"))
            r.append((self.z64loc, self.eocd, "zip64-locator"))
        r.append((self.eocd, self.end, "eocd"))
        return sorted(r)

    def members_view(self, special=None, skip=None):
        """tuple of (name, content-or-special) in central directory order is NOT protected by JAR/OPC (order), names and contents are:
        returns a sorted tuple; duplicates are kept (a duplicate name is a different archive)"""
        out = []
        for e in self.entries:
            if e.name.endswith(b"/"):
                continue        # directory entries carry no content for any standard reader and are not signed by JAR/OPC
            if skip and skip(e.name):
                out.append((e.name, ("unprotected",)))
                continue
            c = e.data()
            if zlib.crc32(c) & 0xffffffff != e.crc:
                raise ZipError("crc mismatch for %r" % e.name)
            v = special(e.name, c) if special else None
            out.append((e.name, v if v is not None else hashlib.sha256(c).digest()))
        return tuple(sorted(out, key=lambda t: (t[0], repr(t[1]))))


# ---------------------------------------------------------------------------------------------- JAR v1
def jar_sig_kind(name):
    n = name.upper()
    if not n.startswith(b"META-INF/") or b"/" in n[9:]:
        return None
    for suf in (b".RSA", b".DSA", b".EC"):
        if n.endswith(suf):
            return "block"
    if n.endswith(b".SF"):
        return "sf"
    if n == b"META-INF/MANIFEST.MF":
        return "manifest"
    return None


def jar_view(b):
    """JAR spec: a signed JAR protects the content of every entry (through MANIFEST.MF digests), the manifest (through the
    .SF digests) and the .SF (through the PKCS#7 block). Names are protected because digests are looked up by name. ZIP
    framing (local headers, timestamps, compression level, order) is not part of the protected content. An entry that is
    not listed in the manifest is unsigned content: its presence changes the view."""
    try:
        z = Zip(b)

        def special(name, c):
            if jar_sig_kind(name) == "block":
                v = c02_der.cms_view(c)
                if v is None:
                    raise ZipError("signature block unparseable")
                return ("cms", v)
            return None
        return ("jar", z.members_view(special))
    except (ZipError, struct.error, IndexError) as e:
        return None


# ---------------------------------------------------------------------------------------------- XAP
XAP_MAGIC = 0x53706158      # "XapS"


def xap_layout(b):
    """Silverlight signed XAP: <zip archive> | u16 1, u16 1, u32 sigsize | Authenticode PKCS#7 | "XapS", u16 1, u32 sigsize+8"""
    if len(b) < 18:
        raise ZipError("short xap")
    magic, unk, tsize = struct.unpack_from("<IHI", b, len(b) - 10)
    if magic != XAP_MAGIC:
        raise ZipError("no XapS trailer")
    hdr = len(b) - 10 - tsize
    if hdr < 22 or tsize < 8:
        raise ZipError("trailer size out of range")
    u1, u2, ssize = struct.unpack_from("<HHI", b, hdr)
    if hdr + 8 + ssize > len(b) - 10:
        raise ZipError("signature size out of range")
    return hdr, hdr + 8, hdr + 8 + ssize


def xap_view(b):
    """the Authenticode digest covers the whole ZIP archive that precedes the signature header; the blob is a CMS. The two 16-bit
    fields of the header and the one in the trailer have no documented meaning and are not digested."""
    try:
        hdr, s, e = xap_layout(b)
        v = c02_der.cms_view(bytes(b[s:e]))
        if v is None:
            return None
        return ("xap", hashlib.sha256(bytes(b[:hdr])).digest(), hdr, v, bytes(b[e:len(b) - 10]))
    except (ZipError, struct.error):
        return None


def xap_regions(b):
    from vlib import c02_bin
    hdr, s, e = xap_layout(b)
    r = []
    try:
        r = Zip(b, limit=hdr).regions()
    except ZipError:
        pass
    r += [(hdr, hdr + 4, "xap-header-unknown"), (hdr + 4, hdr + 8, "xap-header-sigsize")] + c02_bin.cms_regions(b, s, e)
    n = len(b)
    r += [(n - 10, n - 6, "xap-trailer-magic"), (n - 6, n - 4, "xap-trailer-unknown"), (n - 4, n, "xap-trailer-size")]
    return r


# ---------------------------------------------------------------------------------------------- OPC / VSIX
def vsix_view(b):
    """OPC digital signature (ECMA-376-2 §13): every part named in the signature's Manifest is protected by its digest, the
    signature part is an XML signature (view: canonical XML, see c02_xml), relationship parts are referenced like parts.
    [Content_Types].xml is not a part and cannot be referenced: not protected by the format. Part names are protected
    (references are by name). A part that no reference names is unsigned content: its presence changes the view."""
    from vlib import c02_xml
    try:
        z = Zip(b)

        def special(name, c):
            if name.lower().endswith(b".psdsxs"):
                v = c02_xml.canon_view(c)
                if v is None:
                    raise ZipError("signature part is not well-formed XML")
                return v
            return None
        mv = z.members_view(special, skip=lambda n: n == b"[Content_Types].xml")
        if not any(n.lower().endswith(b".psdsxs") for n, _ in mv):
            return None
        return ("vsix", mv)
    except (ZipError, struct.error, IndexError):
        return None


# ---------------------------------------------------------------------------------------------- APPX
APPX_SIG = b"AppxSignature.p7x"


def appx_view(b):
    """MS-APPX signature: AppxSignature.p7x = "PKCX" + PKCS#7 whose indirect data carries AXPC (hash of every local file record
    before the signature), AXCD (hash of the central directory, zip64 end records and end record as they are without the
    signature entry), AXCT/AXBM/AXCI (content types, block map, code integrity catalog). Protected: every byte before the
    signature's local record, every central directory entry but the signature's, the end records apart from their count/size/
    offset fields (which depend on the signature entry), and the p7x. The signature's own local record framing is not."""
    try:
        z = Zip(b)
        sig = z.get(APPX_SIG)
        if sig is None or sig is not z.entries[-1]:
            return None
        c = sig.data()
        if c[:4] != b"PKCX":
            return None
        v = c02_der.cms_view(c[4:])
        if v is None:
            return None
        cd = b"".join(bytes(b[e.cd_start:e.cd_end]) for e in z.entries if e is not sig)
        tail = bytearray(b[z.cd_start + z.cd_size:z.file_end])
        base = z.cd_start + z.cd_size
        if z.z64eocd is not None:
            o = z.z64eocd - base
            tail[o + 24:o + 56] = b"\0" * 32
            o = z.z64loc - base
            tail[o + 8:o + 16] = b"\0" * 8
        o = z.eocd - base
        tail[o + 8:o + 20] = b"\0" * 12
        return ("appx", hashlib.sha256(bytes(b[:sig.lho])).digest(), hashlib.sha256(cd).digest(), bytes(tail), v)
    except (ZipError, struct.error, IndexError):
        return None


# ---------------------------------------------------------------------------------------------- APK v2
APK_MAGIC = b"APK Sig Block 42"
APK_V2_ID = 0x7109871a


def apk_parts(b):
    z = Zip(b)
    cd = z.cd_start
    if cd < 32 or b[cd - 16:cd] != APK_MAGIC:
        raise ZipError("no APK signing block")
    size2 = struct.unpack_from("<Q", b, cd - 24)[0]
    start = cd - size2 - 8
    if start < 0 or struct.unpack_from("<Q", b, start)[0] != size2:
        raise ZipError("APK signing block sizes disagree")
    pairs = []
    p = start + 8
    endp = cd - 24
    while p < endp:
        l = struct.unpack_from("<Q", b, p)[0]
        if l < 4 or p + 8 + l > endp:
            raise ZipError("bad pair in signing block")
        pid = struct.unpack_from("<I", b, p + 8)[0]
        pairs.append((pid, p + 12, p + 8 + l))
        p += 8 + l
    return z, start, pairs


def apk_view(b):
    """APK Signature Scheme v2: integrity-protected are section 1 (ZIP entries), section 3 (central directory), section 4 (EOCD,
    with the central-directory offset field taken as the offset of the signing block) and the signed-data inside the v2 block;
    the block's size fields, magic and other ID-value pairs are not. The v2 value (signers: signed data, signatures, public key)
    is taken whole."""
    try:
        z, start, pairs = apk_parts(b)
        v2 = [bytes(b[s:e]) for pid, s, e in pairs if pid == APK_V2_ID]
        if len(v2) != 1:
            return None
        eocd = bytearray(b[z.eocd:z.file_end])        # section 4 runs to the end of the file
        eocd[16:20] = b"\0\0\0\0"
        # the central-directory offset must equal the end of the signing block: a consistent archive is part of the view
        return ("apk", hashlib.sha256(bytes(b[:start])).digest(), hashlib.sha256(bytes(b[z.cd_start:z.eocd])).digest(), bytes(eocd), v2[0])
    except (ZipError, struct.error, IndexError):
        return None


def apk_regions(b):
    z, start, pairs = apk_parts(b)
    r = [(0, start, "zip-entries")]
    r.append((start, start + 8, "sigblock-size1"))
    for pid, s, e in pairs:
        r.append((s - 12, s, "sigblock-pair-hdr"))
        r.append((s, e, "sigblock-v2" if pid == APK_V2_ID else "sigblock-other-pair"))
    r.append((z.cd_start - 24, z.cd_start, "sigblock-size2-magic"))
    r.append((z.cd_start, z.eocd, "central-directory"))
    r.append((z.eocd, z.eocd + 16, "eocd"))
    r.append((z.eocd + 16, z.eocd + 20, "eocd-cd-offset"))
    r.append((z.eocd + 20, z.file_end, "eocd"))
    return sorted(r)
