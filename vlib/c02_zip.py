# C02 helper: independent ZIP reader (PKWARE APPNOTE 6.3.x) and the protected views of the ZIP-based signature
# formats, written from the format specifications:
#   JAR v1 (JAR File Specification, "Signed JAR File"), OPC/VSIX (ECMA-376 part 2 §13 digital signatures),
#   XAP (Silverlight: Authenticode blob appended after the archive), APK v2 (source.android.com "APK Signature Scheme v2"),
#   APPX (MS-APPX: AppxSignature.p7x digests AXPC/AXCD/AXCT/AXBM/AXCI).
# Nothing here uses relic.
import hashlib, struct, zlib
from vlib import c02_der


class ZipError(Exception):
    pass


class Entry:
    __slots__ = ("name", "method", "flags", "crc", "csize", "usize", "lho", "cd_start", "cd_end", "data_start", "data_end",
                 "rec_end", "extra", "comment", "_z")

    def data(self):
        z = self._z
        raw = z.b[self.data_start:self.data_end]
        if self.usize == 0 and self.data_start == self.data_end:
            return b""
        if self.method == 0:
            out = raw
        elif self.method == 8:
            d = zlib.decompressobj(-15)
            try:
                out = d.decompress(raw) + d.flush()
            except zlib.error as e:
                raise ZipError("inflate: %s" % e)
            if not d.eof:
                raise ZipError("deflate stream truncated")
            # bytes of the member area after the end of the deflate stream are not content
        else:
            raise ZipError("unsupported method %d" % self.method)
        if len(out) != self.usize:
            raise ZipError("size mismatch for %r" % self.name)
        return out


class Zip:
    """central-directory driven reader: what a standard reader (java.util.zip, Windows packaging API) sees"""

    def __init__(self, b, limit=None):
        self.b = b
        end = len(b) if limit is None else limit
        # end of central directory record: last signature whose comment length reaches exactly the end
        pos = None
        i = end - 22
        lo = max(0, end - 22 - 65535)
        while i >= lo:
            if b[i:i + 4] == b"PK\x05\x06" and i + 22 + struct.unpack_from("<H", b, i + 20)[0] == end:
                pos = i
                break
            i -= 1
        if pos is None:
            raise ZipError("no end of central directory record")
        self.eocd = pos
        self.end = end
        disk, cddisk, n_here, n, cdsize, cdoff, clen = struct.unpack_from("<HHHHIIH", b, pos + 4)
        self.comment = b[pos + 22:pos + 22 + clen]
        self.z64loc = self.z64eocd = None
        if pos >= 20 and b[pos - 20:pos - 16] == b"PK\x06\x07":
            self.z64loc = pos - 20
            z64off = struct.unpack_from("<Q", b, pos - 12)[0]
            if b[z64off:z64off + 4] != b"PK\x06\x06":
                raise ZipError("zip64 locator points nowhere")
            self.z64eocd = z64off
            n64, cdsize64, cdoff64 = struct.unpack_from("<QQQ", b, z64off + 32)
            if n == 0xffff:
                n = n64
            if cdsize == 0xffffffff:
                cdsize = cdsize64
            if cdoff == 0xffffffff:
                cdoff = cdoff64
        self.cd_start, self.cd_size, self.n = cdoff, cdsize, n
        self.entries = []
        p = cdoff
        for _ in range(n):
            if b[p:p + 4] != b"PK\x01\x02" or p + 46 > end:
                raise ZipError("bad central directory entry at %d" % p)
            (vm, vn, flags, method, mt, md, crc, csize, usize, nl, xl, cl, dn, ia, ea, lho) = struct.unpack_from("<HHHHHHIIIHHHHHII", b, p + 4)
            e = Entry()
            e._z = self
            e.cd_start = p
            e.name = bytes(b[p + 46:p + 46 + nl])
            e.extra = bytes(b[p + 46 + nl:p + 46 + nl + xl])
            e.comment = bytes(b[p + 46 + nl + xl:p + 46 + nl + xl + cl])
            p += 46 + nl + xl + cl
            e.cd_end = p
            if p > end:
                raise ZipError("central directory overruns file")
            x = e.extra
            while len(x) >= 4:
                hid, hl = struct.unpack_from("<HH", x, 0)
                if hid == 1:
                    q = 4
                    if usize == 0xffffffff:
                        usize = struct.unpack_from("<Q", x, q)[0]
                        q += 8
                    if csize == 0xffffffff:
                        csize = struct.unpack_from("<Q", x, q)[0]
                        q += 8
                    if lho == 0xffffffff:
                        lho = struct.unpack_from("<Q", x, q)[0]
                x = x[4 + hl:]
            e.method, e.flags, e.crc, e.csize, e.usize, e.lho = method, flags, crc, csize, usize, lho
            if e.name.endswith(b"/") or (usize == 0 and csize == 0):
                # nothing to read: a reader never visits the local header of an empty member
                e.data_start = e.data_end = e.rec_end = min(lho, end)
                self.entries.append(e)
                continue
            if b[lho:lho + 4] != b"PK\x03\x04" or lho + 30 > end:
                raise ZipError("no local header for %r" % e.name)
            lnl, lxl = struct.unpack_from("<HH", b, lho + 26)
            e.data_start = lho + 30 + lnl + lxl
            e.data_end = min(e.data_start + csize, end)       # a deflate stream is self-terminating; stored data needs the exact size
            if e.data_start > end:
                raise ZipError("member data overruns file")
            e.rec_end = e.data_end
            self.entries.append(e)
        if p != cdoff + cdsize:
            raise ZipError("central directory size mismatch")
        # data descriptors / gaps: a record extends to the next record (or the central directory / a signing block)
        starts = sorted([e.lho for e in self.entries] + [cdoff])
        for e in self.entries:
            nxt = [x for x in starts if x > e.lho]
            if nxt and nxt[0] >= e.data_end and (e.flags & 8):
                e.rec_end = min(nxt[0], e.data_end + 24)

    def names(self):
        return [e.name for e in self.entries]

    def get(self, name):
        for e in self.entries:
            if e.name == name:
                return e
        return None

    def regions(self):
        """byte regions for stratified sampling: (start, end, label)"""
        r = []
        for e in self.entries:
            n = e.name.decode("latin-1")
            r.append((e.lho, e.data_start, "lfh:" + n))
            if e.data_end > e.data_start:
                r.append((e.data_start, e.data_end, "data:" + n))
            if e.rec_end > e.data_end:
                r.append((e.data_end, e.rec_end, "dd:" + n))
            r.append((e.cd_start, e.cd_end, "cd:" + n))
        if self.z64eocd is not None:
            r.append((self.z64eocd, self.z64loc, "zip64-eocd"))
            r.append((self.z64loc, self.eocd, "zip64-locator"))
        r.append((self.eocd, self.end, "eocd"))
        return sorted(r)

    def members_view(self, special=None):
        """tuple of (name, content-or-special) in central directory order is NOT protected by JAR/OPC (order), names and contents are:
        returns a sorted tuple; duplicates are kept (a duplicate name is a different archive)"""
        out = []
        for e in self.entries:
            if e.name.endswith(b"/"):
                continue        # directory entries carry no content for any standard reader and are not signed by JAR/OPC
            c = e.data()
            if zlib.crc32(c) & 0xffffffff != e.crc:
                raise ZipError("crc mismatch for %r" % e.name)
            v = special(e.name, c) if special else None
            out.append((e.name, v if v is not None else hashlib.sha256(c).digest()))
        return tuple(sorted(out, key=lambda t: (t[0], repr(t[1]))))


# ---------------------------------------------------------------------------------------------- JAR v1
def jar_sig_kind(name):
    n = name.upper()
    if not n.startswith(b"META-INF/") or b"/" in n[9:]:
        return None
    for suf in (b".RSA", b".DSA", b".EC"):
        if n.endswith(suf):
            return "block"
    if n.endswith(b".SF"):
        return "sf"
    if n == b"META-INF/MANIFEST.MF":
        return "manifest"
    return None


def jar_view(b):
    """JAR spec: a signed JAR protects the content of every entry (through MANIFEST.MF digests), the manifest (through the
    .SF digests) and the .SF (through the PKCS#7 block). Names are protected because digests are looked up by name. ZIP
    framing (local headers, timestamps, compression level, order) is not part of the protected content. An entry that is
    not listed in the manifest is unsigned content: its presence changes the view."""
    try:
        z = Zip(b)

        def special(name, c):
            if jar_sig_kind(name) == "block":
                v = c02_der.cms_view(c)
                if v is None:
                    raise ZipError("signature block unparseable")
                return ("cms", v)
            return None
        return ("jar", z.members_view(special))
    except (ZipError, struct.error, IndexError) as e:
        return None


# ---------------------------------------------------------------------------------------------- XAP
def xap_parts(b):
    """Silverlight XAP: <zip archive> <signature blob> trailer{u32 'XAPS'-style magic fields}. The trailer is the last 8/10 bytes;
    layout (from the published description of signed XAPs): ... zip | hdr(u32 unknown=1? , u32 size) blob | u16 magic, u16 1, u32 trailer_size"""
    if len(b) < 10:
        raise ZipError("short xap")
    magic, unknown, tsize = struct.unpack_from("<HHI", b, len(b) - 8)
    return magic, unknown, tsize


# ---------------------------------------------------------------------------------------------- APK v2
APK_MAGIC = b"APK Sig Block 42"
APK_V2_ID = 0x7109871a


def apk_parts(b):
    z = Zip(b)
    cd = z.cd_start
    if cd < 32 or b[cd - 16:cd] != APK_MAGIC:
        raise ZipError("no APK signing block")
    size2 = struct.unpack_from("<Q", b, cd - 24)[0]
    start = cd - size2 - 8
    if start < 0 or struct.unpack_from("<Q", b, start)[0] != size2:
        raise ZipError("APK signing block sizes disagree")
    pairs = []
    p = start + 8
    endp = cd - 24
    while p < endp:
        l = struct.unpack_from("<Q", b, p)[0]
        if l < 4 or p + 8 + l > endp:
            raise ZipError("bad pair in signing block")
        pid = struct.unpack_from("<I", b, p + 8)[0]
        pairs.append((pid, p + 12, p + 8 + l))
        p += 8 + l
    return z, start, pairs


def apk_view(b):
    """APK Signature Scheme v2: integrity-protected are section 1 (ZIP entries), section 3 (central directory), section 4 (EOCD,
    with the central-directory offset field taken as the offset of the signing block) and the signed-data inside the v2 block;
    the block's size fields, magic and other ID-value pairs are not. The v2 value (signers: signed data, signatures, public key)
    is taken whole."""
    try:
        z, start, pairs = apk_parts(b)
        v2 = [bytes(b[s:e]) for pid, s, e in pairs if pid == APK_V2_ID]
        if len(v2) != 1:
            return None
        eocd = bytearray(b[z.eocd:z.end])
        eocd[16:20] = b"\0\0\0\0"
        # the central-directory offset must equal the end of the signing block: a consistent archive is part of the view
        return ("apk", hashlib.sha256(bytes(b[:start])).digest(), hashlib.sha256(bytes(b[z.cd_start:z.eocd])).digest(), bytes(eocd), v2[0])
    except (ZipError, struct.error, IndexError):
        return None


def apk_regions(b):
    z, start, pairs = apk_parts(b)
    r = [x for x in z.regions() if x[1] <= start or x[0] >= z.cd_start]
    r.append((start, start + 8, "sigblock-size1"))
    for pid, s, e in pairs:
        r.append((s - 12, s, "sigblock-pair-hdr:%08x" % pid))
        r.append((s, e, "sigblock-pair:%08x" % pid))
    r.append((z.cd_start - 24, z.cd_start, "sigblock-size2-magic"))
    return sorted(r)
