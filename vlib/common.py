# Shared orchestration for /verif/bin/check: srcgen, Coq build, Go harness build, model evaluation,
# evidence and verdict handling.  Nothing here is property specific.
import fcntl, hashlib, json, os, re, shutil, subprocess, sys, tempfile, time

VERIF = os.path.dirname(os.path.dirname(os.path.abspath(__file__)))
REPO = os.path.realpath(os.environ.get("VERIF_REPO", "/repo"))
HARNESS = os.path.join(VERIF, "harness")
ALT = REPO != "/repo"
if ALT:
    # isolated mode for trying a modified copy of relic (a scratch worktree): own Coq tree, build dir and outputs, so that
    # concurrent work on /verif and /repo is not disturbed. Registered checks never use this mode.
    _alt = os.path.join("/var/tmp/verif-alt", hashlib.md5(REPO.encode()).hexdigest()[:10])
    COQ = os.path.join(_alt, "coq")
    BUILD = os.path.join(_alt, "build")
    OUT = os.path.join(_alt, "out")
else:
    COQ = os.path.join(VERIF, "coq")
    BUILD = os.path.join(VERIF, ".build")
    OUT = VERIF
MODFLAGS = []
GOENV = dict(os.environ, GOFLAGS="-mod=mod", GOPROXY="off", GOSUMDB="off", GOTOOLCHAIN="local",
             CGO_ENABLED=os.environ.get("CGO_ENABLED", "1"))
GOENV.setdefault("GOCACHE", os.path.join(BUILD, "gocache"))

FORBIDDEN = re.compile(r"\b(Admitted|admit|Axiom|Parameter|Conjecture|Unset Guard|bypass_check|type-in-type|Admit Obligations)\b")


class Lock:
    def __init__(self, name):
        os.makedirs(BUILD, exist_ok=True)
        self.path = os.path.join(BUILD, name + ".lock")

    def __enter__(self):
        self.f = open(self.path, "w")
        fcntl.flock(self.f, fcntl.LOCK_EX)
        return self

    def __exit__(self, *a):
        fcntl.flock(self.f, fcntl.LOCK_UN)
        self.f.close()


def run(cmd, cwd=None, env=None, timeout=None, input=None):
    t0 = time.time()
    try:
        p = subprocess.run(cmd, cwd=cwd, env=env, timeout=timeout, input=input, stdout=subprocess.PIPE,
                           stderr=subprocess.PIPE, text=True, shell=isinstance(cmd, str))
        return p.returncode, p.stdout, p.stderr, time.time() - t0
    except subprocess.TimeoutExpired as e:
        out = e.stdout.decode() if isinstance(e.stdout, bytes) else (e.stdout or "")
        err = e.stderr.decode() if isinstance(e.stderr, bytes) else (e.stderr or "")
        return 124, out, err + "\nTIMEOUT", time.time() - t0


def _alt_setup():
    global MODFLAGS
    os.makedirs(BUILD, exist_ok=True)
    os.makedirs(OUT, exist_ok=True)
    run(["rsync", "-a", "--delete", "--exclude", "Generated/*.v", "--exclude", "Generated/*.vo", "--exclude", "Generated/*.glob",
         os.path.join(VERIF, "coq") + "/", COQ + "/"])
    os.makedirs(os.path.join(COQ, "Generated"), exist_ok=True)
    mod = open(os.path.join(HARNESS, "go.mod")).read().replace("=> /repo", "=> " + REPO)
    alt = os.path.join(BUILD, "alt.mod")
    open(alt, "w").write(mod)
    shutil.copyfile(os.path.join(REPO, "go.sum"), os.path.join(BUILD, "alt.sum"))
    MODFLAGS = ["-modfile=" + alt]


class Ctx:
    def __init__(self, pid, tier, seed):
        self.pid, self.tier, self.seed = pid, tier, seed
        self.unit = pid.lower()      # which driver / extracted model is in use (format modules run as sub-units of a property)
        self.t0 = time.time()
        if ALT:
            _alt_setup()
        self.scratch = tempfile.mkdtemp(prefix="verif.%s." % pid, dir="/var/tmp")
        self.violations = []      # (replay_path, note, found_input)
        self.known_hits = []
        self.notes = []
        self.srcgen_summary = None
        self.coq = None
        self.known = load_known()

    def cleanup(self):
        shutil.rmtree(self.scratch, ignore_errors=True)

    # ------------------------------------------------------------ srcgen
    def ensure_generated(self):
        """isolated mode: the Makefile's dependency scan needs EVERY generated file of _CoqProject to exist. Run each unit's
        generator against the alternative checkout once (falls back to the main tree's copy). Caller holds the build lock."""
        sdir = os.path.join(HARNESS, "cmd", "srcgen")
        if ALT and not os.path.exists(os.path.join(COQ, "Generated", ".baseline")):
            gdir = os.path.join(COQ, "Generated")
            os.makedirs(gdir, exist_ok=True)
            for fn in os.listdir(os.path.join(VERIF, "coq", "Generated")):
                if fn.endswith(".v"):
                    shutil.copyfile(os.path.join(VERIF, "coq", "Generated", fn), os.path.join(gdir, fn))
            for gf in sorted(os.listdir(sdir)):
                if gf.startswith("gen_") and gf.endswith(".go"):
                    exe1 = os.path.join(BUILD, "srcgen-all-" + gf[4:-3])
                    rc1, _, _, _ = run(["go", "build"] + MODFLAGS + ["-o", exe1, "main.go", gf], cwd=sdir, env=GOENV, timeout=600)
                    if rc1 == 0:
                        run([exe1, "-repo", REPO, "-out", gdir, "-summary", os.path.join(self.scratch, "srcgen-all.json")], timeout=120)
            open(os.path.join(gdir, ".baseline"), "w").write("1")

    def srcgen(self, gen_names=None):
        """regenerate coq/Generated/<name>.v for the given generator names (default: every generator).
        Each property builds its own srcgen binary from main.go + its gen_*.go files, so a generator under edit for
        another property cannot break this one."""
        with Lock("build"):
            os.makedirs(BUILD, exist_ok=True)
            sdir = os.path.join(HARNESS, "cmd", "srcgen")
            self.ensure_generated()
            if gen_names:
                files = ["main.go"] + ["gen_%s.go" % re.sub(r"_gen$", "", g).lower() for g in gen_names]
                files = [f for f in files if os.path.exists(os.path.join(sdir, f))]
                exe = os.path.join(BUILD, "srcgen-" + self.unit)
                cmd = ["go", "build"] + MODFLAGS + ["-o", exe] + files
                cwd = sdir
            else:
                exe = os.path.join(BUILD, "srcgen")
                cmd = ["go", "build"] + MODFLAGS + ["-o", exe, "./cmd/srcgen"]
                cwd = HARNESS
            rc, out, err, _ = run(cmd, cwd=cwd, env=GOENV, timeout=600)
            if rc != 0:
                raise SystemExit("srcgen build failed:\n" + err)
            summ = os.path.join(self.scratch, "srcgen.json")
            rc, out, err, _ = run([exe, "-repo", REPO, "-out", os.path.join(COQ, "Generated"), "-summary", summ], timeout=120)
            if rc != 0:
                raise SystemExit("srcgen failed:\n" + err)
            new = json.load(open(summ))
            if self.srcgen_summary is None:
                self.srcgen_summary = new
            else:   # merge (format units run several generators in one check)
                for k in ("broken_by_file", "fingerprints"):
                    self.srcgen_summary[k].update(new.get(k) or {})
                self.srcgen_summary["broken"] = (self.srcgen_summary.get("broken") or []) + (new.get("broken") or [])
        return self.srcgen_summary

    def fingerprints_changed(self, prefix_list):
        """compare current fingerprints with the committed baseline; returns list of changed keys"""
        base_path = os.path.join(VERIF, "fingerprints.json")
        base = json.load(open(base_path)) if os.path.exists(base_path) else {}
        cur = self.srcgen_summary["fingerprints"]
        ch = []
        for k, v in cur.items():
            if any(k.startswith(p) for p in prefix_list) and base.get(k) != v:
                ch.append(k)
        return ch

    # ------------------------------------------------------------ Coq
    def coq_build(self, targets, timeout=1500):
        """Build the given .vo targets (paths relative to coq/). Returns dict target -> bool, and the log."""
        res = {}
        with Lock("build"):
            self.ensure_generated()
            ensure_makefile()
            rc, out, err, dt = run(["make", "-j16", "-k"] + targets, cwd=COQ, timeout=timeout)
            log = out + err
            # stricter: a target is good only if make -q says up to date
            for t in targets:
                rc2, _, _, _ = run(["make", "-q", t], cwd=COQ, timeout=120)
                res[t] = (rc2 == 0)
        self.coq = {"targets": res, "log_tail": log[-3000:], "wall_s": dt}
        return res, log

    def hygiene(self, subdirs):
        bad = []
        for sd in subdirs:
            for root, _, files in os.walk(os.path.join(COQ, sd)):
                for fn in files:
                    if fn.endswith(".v"):
                        txt = open(os.path.join(root, fn)).read()
                        txt = re.sub(r"\(\*.*?\*\)", "", txt, flags=re.S)
                        for m in FORBIDDEN.finditer(txt):
                            bad.append("%s: %s" % (os.path.join(root, fn), m.group(0)))
                        # a Variable / Hypothesis / Context outside a Section declares an axiom
                        stack = []
                        for m in re.finditer(r"^\s*(Section|End|Variables?|Hypothes[ie]s|Context)\b\s*([A-Za-z0-9_']*)[^.]*\.", txt, flags=re.M):
                            kw, name = m.group(1), m.group(2)
                            if kw == "Section":
                                stack.append(name)
                            elif kw == "End":
                                if stack and stack[-1] == name:
                                    stack.pop()
                            elif not stack:
                                bad.append("%s: %s outside a Section" % (os.path.join(root, fn), kw))
        return bad

    def theorems(self, relfile):
        """names of Theorem statements in a Properties.v file"""
        txt = open(os.path.join(COQ, relfile)).read()
        txt = re.sub(r"\(\*.*?\*\)", "", txt, flags=re.S)
        return re.findall(r"^\s*Theorem\s+([A-Za-z0-9_']+)", txt, flags=re.M)

    def assumptions(self, relfile):
        """Print Assumptions for every Theorem of a built Properties.v (cached beside the .vo)"""
        vo = os.path.join(COQ, relfile[:-2] + ".vo")
        cache = os.path.join(COQ, relfile[:-2] + ".assum")
        if os.path.exists(cache) and os.path.exists(vo) and os.path.getmtime(cache) >= os.path.getmtime(vo):
            return open(cache).read()
        mod = "Relic." + relfile[:-2].replace("/", ".")
        names = self.theorems(relfile)
        body = "Require Import %s.\n" % mod + "".join("Print Assumptions %s.\n" % n for n in names)
        rc, out = self.coq_eval("assum_" + self.pid + "_" + hashlib.md5(relfile.encode()).hexdigest()[:6], body, 300)
        if rc == 0:
            open(cache, "w").write(out)
        return out

    def coq_eval(self, name, text, timeout=900):
        """compile a generated .v file in scratch against the built project; returns (rc, stdout+stderr)"""
        path = os.path.join(self.scratch, name + ".v")
        open(path, "w").write(text)
        rc, out, err, dt = run(["coqc", "-Q", COQ, "Relic", path], cwd=self.scratch, timeout=timeout)
        return rc, out + err

    def coq_eval_shards(self, name, header, items, footer_fn, shard=400, timeout=900):
        """items: list of Coq terms (strings).  Splits into shards evaluated in parallel; footer_fn(listname) gives
        the commands after `Definition cases := [...]`.  Returns list of (rc, output) per shard."""
        import concurrent.futures
        shards = [items[i:i + shard] for i in range(0, len(items), shard)] or [[]]

        def one(i):
            body = header + "\nDefinition cases := [\n" + ";\n".join(shards[i]) + "\n].\n" + footer_fn("cases")
            return self.coq_eval("%s_%03d" % (name, i), body, timeout)
        with concurrent.futures.ThreadPoolExecutor(max_workers=14) as ex:
            return list(ex.map(one, range(len(shards))))

    # ------------------------------------------------------------ extracted model
    def build_model(self, module, fn="run"):
        """extract <module>.<fn> : val -> val to OCaml and compile the generic line driver around it"""
        d = os.path.join(BUILD, "ocaml", self.unit)
        os.makedirs(d, exist_ok=True)
        vo = os.path.join(COQ, module.replace(".", "/") + ".vo")
        exe = os.path.join(d, "model")
        mainsrc = os.path.join(VERIF, "ocaml", "main.ml")
        with Lock("ocaml_" + self.unit):
            if os.path.exists(exe) and os.path.getmtime(exe) >= os.path.getmtime(vo) and os.path.getmtime(exe) >= os.path.getmtime(mainsrc):
                return True, ""
            open(os.path.join(d, "extract.v"), "w").write(
                "Require Import Relic.Base.Prelude Relic.Base.Val Relic.%s.\nRequire Extraction. Require Import ExtrOcamlBasic.\n"
                "Definition verif_entry := Relic.%s.%s.\nExtraction \"model.ml\" verif_entry z_push_digit z_divmod10.\n" % (module, module, fn))
            rc, out, err, _ = run(["coqc", "-Q", COQ, "Relic", "extract.v"], cwd=d, timeout=600)
            if rc != 0:
                return False, out + err
            shutil.copyfile(mainsrc, os.path.join(d, "main.ml"))
            rc, out, err, _ = run(["ocamlfind", "ocamlopt", "-O3", "-w", "-a", "model.mli", "model.ml", "main.ml", "-o", "model.tmp"], cwd=d, timeout=600)
            if rc != 0:
                return False, out + err
            os.replace(os.path.join(d, "model.tmp"), exe)
        return True, ""

    def run_model(self, vals, timeout=900, jobs=12):
        """vals: list of python values (see to_val); returns list of parsed outputs, in order"""
        import concurrent.futures
        exe = os.path.join(BUILD, "ocaml", self.unit, "model")
        lines = [to_val(v) for v in vals]
        if not lines:
            return []
        n = max(1, min(jobs, len(lines) // 50 + 1))
        chunks = [lines[i::n] for i in range(n)]

        def one(ch):
            rc, out, err, _ = run([exe], input="\n".join(ch) + "\n", timeout=timeout)
            if rc != 0:
                raise RuntimeError("model runner failed: " + err[-500:])
            return [parse_val(l) for l in out.splitlines()]
        with concurrent.futures.ThreadPoolExecutor(max_workers=n) as ex:
            outs = list(ex.map(one, chunks))
        res = [None] * len(lines)
        for k, o in enumerate(outs):
            if len(o) != len(chunks[k]):
                raise RuntimeError("model runner produced %d lines for %d inputs" % (len(o), len(chunks[k])))
            for j, v in enumerate(o):
                res[k + j * n] = v
        return res

    # ------------------------------------------------------------ Go driver
    def build_drv(self, extra_flags=()):
        with Lock("build"):
            if not ALT:
                shutil.copyfile(os.path.join(REPO, "go.sum"), os.path.join(HARNESS, "go.sum"))
            rc, out, err, dt = run(["go", "build"] + MODFLAGS + list(extra_flags) + ["-tags", "verif", "-o", self.drv_path(), "./cmd/drv-" + self.unit], cwd=HARNESS, env=GOENV, timeout=1200)
        if rc != 0:
            return False, err
        return True, ""

    def drv_path(self):
        return os.path.join(BUILD, "drv-" + self.unit)

    def drv(self, args, timeout=600, input=None):
        cmd = [self.drv_path(), "-seed", str(self.seed), "-tier", self.tier, "-scratch", os.path.join(self.scratch, "drv")] + args
        os.makedirs(os.path.join(self.scratch, "drv"), exist_ok=True)
        rc, out, err, dt = run(cmd, timeout=timeout, input=input, env=GOENV)
        return rc, out, err

    # ------------------------------------------------------------ standard skeleton
    def prepare(self, gen_names, dirs, model_module=None, extra_targets=(), drv_flags=()):
        """srcgen + Coq build of <dir>/Properties.vo and <dir>/Run.vo for each dir + harness build + model extraction.
        Returns a dict describing what is intact."""
        pid = self.pid
        self.srcgen(gen_names)
        broken = []
        for g in gen_names:
            broken += self.srcgen_summary["broken_by_file"].get(g, [])
        targets = []
        for d in dirs:
            for f in ("Properties", "Run"):
                if os.path.exists(os.path.join(COQ, d, f + ".v")):
                    targets.append("%s/%s.vo" % (d, f))
        targets += list(extra_targets)
        built, log = self.coq_build(targets)
        hyg = self.hygiene(["Base", "Generated"] + list(dirs))
        props = [t[:-1] for t in targets if t.endswith("Properties.vo")]
        thms, discharged = [], 0
        for pf in props:
            names = self.theorems(pf)
            thms += names
            if built.get(pf + "o") and not hyg:
                discharged += len(names)
        st = {"broken": broken, "built": built, "hygiene": hyg, "theorems": thms, "discharged": discharged,
              "proofs_ok": discharged == len(thms) and not hyg and not broken and len(thms) > 0,
              "props": props, "model_ok": False, "harness_ok": False}
        ok, err = self.build_drv(drv_flags)
        st["harness_ok"] = ok
        if not ok:
            self.violation(pid + ":harness-build:" + self.unit, "harness does not build against /repo: " + err[-400:], {"stderr": err[-3000:]}, False)
        if model_module:
            run_vo = model_module.replace(".", "/") + ".vo"
            if built.get(run_vo):
                okm, merr = self.build_model(model_module)
                st["model_ok"] = okm
                if not okm:
                    self.violation(pid + ":model-extract:" + self.unit, "model extraction failed: " + merr[-300:], {"output": merr[-2000:]}, False)
        self.status = st
        return st

    def proof_verdict(self):
        """if the proof side is broken and no concrete failing input was reported, report the broken obligation"""
        st = self.status
        if st["proofs_ok"]:
            return
        if any(v[2] for v in self.violations):
            return
        what = st["broken"] or st["hygiene"] or [t for t, v in st["built"].items() if not v] or ["no theorems found"]
        self.violation(self.pid + ":proof", "proof obligations no longer check: %s" % (what,),
                       {"broken": what, "coq_log_tail": (self.coq or {}).get("log_tail", "")[-2500:]}, False)

    def proof_coverage(self, extra_trusted, fp_prefixes):
        st = self.status
        assum = []
        if st["proofs_ok"]:
            for pf in st["props"]:
                assum += [l.strip() for l in self.assumptions(pf).splitlines() if l.strip()]
        chk = None
        if st["proofs_ok"] and self.tier == "thorough":
            chk = self.coqchk(st["props"])
        fp = self.fingerprints_changed(fp_prefixes)
        if fp:
            self.notes.append("fingerprints of hand-modelled functions changed since baseline (not a violation; budget escalated): %s" % fp)
        return {"obligations": len(st["theorems"]), "discharged": st["discharged"],
                "checker_cmd": "make -C /verif/coq %s (coqc 8.16.1, full .vo build; Print Assumptions per theorem)" % " ".join(p + "o" for p in st["props"]),
                "trusted_base": ["Coq 8.16.1 kernel + vm_compute (no native_compute)",
                                 "Print Assumptions: " + (" | ".join(sorted(set(assum)))[:800] or "n/a (proofs not built)"),
                                 "extraction: ExtrOcamlBasic only; generic OCaml line driver /verif/ocaml/main.ml"] + list(extra_trusted),
                "theorems": st["theorems"], "srcgen_broken": st["broken"], "fingerprints_changed": fp,
                "coqchk": chk if chk is not None else "thorough tier only"}

    def coqchk(self, props, timeout=3000):
        """independent re-check of the compiled property files and everything they depend on (thorough tier);
        returns the checker's context summary (axioms, type-in-type, unsafe fixpoints, assumed positivity)"""
        mods = ["Relic." + p[:-2].replace("/", ".") for p in props]
        with Lock("build"):
            rc, out, err, dt = run(["coqchk", "-silent", "-o", "-Q", COQ, "Relic"] + mods, cwd=COQ, timeout=timeout)
        txt = out + err
        summ = txt[txt.find("CONTEXT SUMMARY"):] if "CONTEXT SUMMARY" in txt else txt[-1500:]
        summ = re.sub(r"\s+", " ", summ)[:1500]
        res = {"modules": mods, "exit": rc, "wall_s": round(dt, 1), "summary": summ}
        if rc != 0:
            self.violation(self.pid + ":proof:coqchk", "coqchk rejects the compiled development: " + txt[-400:], {"output": txt[-3000:]}, False)
        return res

    # ------------------------------------------------------------ verdicts
    def violation(self, key, detail, replay_obj, found_input=True):
        """key: finding key (entry point + input class).  Known findings are reported separately."""
        for k in self.known:
            if k.get("status") == "finding" and k["property"] == self.pid and k["key"] == key:
                if key not in [h[0] for h in self.known_hits]:
                    self.known_hits.append((key, k.get("what", detail)))
                return False
        os.makedirs(os.path.join(OUT, "replay", self.pid), exist_ok=True)
        h = hashlib.sha256(json.dumps(replay_obj, sort_keys=True, default=str).encode()).hexdigest()[:12]
        path = os.path.join(OUT, "replay", self.pid, "%s.json" % h)
        replay_obj = dict(replay_obj, property=self.pid, key=key, detail=detail, found_input=found_input, seed=self.seed, tier=self.tier)
        json.dump(replay_obj, open(path, "w"), indent=1, default=str)
        self.violations.append((path, detail, found_input, key))
        return True

    def finish(self, level, coverage, assumptions):
        wall = time.time() - self.t0
        ev = {"property_id": self.pid, "tier": self.tier, "seed": self.seed, "level": level,
              "coverage": coverage, "assumptions": assumptions, "wall_s": round(wall, 2),
              "violations": len(self.violations)}
        ev["coverage"]["known_findings_reproduced"] = [k for k, _ in self.known_hits]
        ev["coverage"]["notes"] = self.notes
        os.makedirs(os.path.join(OUT, "evidence"), exist_ok=True)
        tmp = os.path.join(OUT, "evidence", ".%s.json.tmp" % self.pid)
        json.dump(ev, open(tmp, "w"), indent=1, default=str)
        os.replace(tmp, os.path.join(OUT, "evidence", "%s.json" % self.pid))
        for key, what in self.known_hits:
            print("KNOWN-FINDING: property=%s %s (%s)" % (self.pid, key, what))
        seen = set()
        for path, detail, found, key in self.violations:
            if key in seen:
                continue
            seen.add(key)
            tail = "" if found else " no-failing-input-found"
            print("# %s: %s" % (key, detail))
            print("VIOLATION property=%s replay=%s%s" % (self.pid, path, tail))
        self.cleanup()
        return 1 if self.violations else 0


def load_known():
    p = os.path.join(VERIF, "known_findings.json")
    if not os.path.exists(p):
        return []
    return json.load(open(p)).get("entries", [])


def ensure_makefile():
    mk = os.path.join(COQ, "Makefile")
    cp = os.path.join(COQ, "_CoqProject")
    if not os.path.exists(mk) or os.path.getmtime(mk) < os.path.getmtime(cp):
        rc, out, err, _ = run(["coq_makefile", "-f", "_CoqProject", "-o", "Makefile"], cwd=COQ)
        if rc != 0:
            raise SystemExit("coq_makefile failed: " + err)


class Hex(str):
    """marks a hex string as a byte-string value"""


def to_val(v):
    if isinstance(v, Hex):
        return "x" + v
    if isinstance(v, (bytes, bytearray)):
        return "x" + bytes(v).hex()
    if isinstance(v, bool):
        return "1" if v else "0"
    if isinstance(v, int):
        return str(v)
    if isinstance(v, (list, tuple)):
        return "[ " + " ".join(to_val(x) for x in v) + " ]"
    if v is None:
        return "[ ]"
    raise TypeError("to_val: %r" % (v,))


def parse_val(line):
    toks = line.split()
    pos = 0

    def p():
        nonlocal pos
        t = toks[pos]
        pos += 1
        if t == "[":
            out = []
            while toks[pos] != "]":
                out.append(p())
            pos += 1
            return out
        if t.startswith("x"):
            return Hex(t[1:])
        return int(t)
    return p()


def coq_str(s):
    return '"' + s.replace('"', '""') + '"'


def coq_z(n):
    n = int(n)
    return "(%d)" % n if n < 0 else "%d" % n


def coq_bool(b):
    return "true" if b else "false"


def coq_list(xs):
    return "[" + "; ".join(xs) + "]"


def parse_print_list(output, name):
    """extract the value printed by `Print name.` for a closed term; returns the raw text after ':='/'='"""
    m = re.search(r"%s\s*=\s*(.*?)\n\s*:\s" % re.escape(name), output, flags=re.S)
    return m.group(1).strip() if m else None
