# C02 helper: protected view of XML-signature based formats (W3C XMLDSig; ClickOnce manifests; OPC signature parts),
# independent of relic: Python's expat parser and the C14N 2.0 canonicaliser of the standard library.
# The view is the canonical form without comments (comments, the XML declaration, a BOM, attribute order and quoting are
# not covered by an XML signature that uses (exclusive) canonicalisation without comments); base64 payload elements are
# compared by decoded value (line breaks inside base64 are not content).
import base64, binascii, io, re
import xml.etree.ElementTree as ET

DS = "{http://www.w3.org/2000/09/xmldsig#}"
B64_ELEMS = {DS + "SignatureValue", DS + "DigestValue", DS + "X509Certificate", DS + "Modulus", DS + "Exponent"}


def _norm_b64(root):
    for el in root.iter():
        if el.tag in B64_ELEMS and el.text is not None:
            t = re.sub(r"[ \t\r\n]+", "", el.text)
            try:
                raw = base64.b64decode(t, validate=True)
                el.text = "b64:" + raw.hex()
            except (binascii.Error, ValueError):
                el.text = "bad-b64:" + t


def _canon(xml_bytes):
    root = ET.fromstring(xml_bytes)
    _norm_b64(root)
    return ET.canonicalize(xml_data=ET.tostring(root, encoding="unicode"), with_comments=False)


def _clean(data):
    """drop what is outside the canonical form and outside the document: BOM / bytes before the first tag, the XML declaration,
    comments; so that damage confined to those (which a tolerant parser ignores) does not make this reader stricter than the format"""
    i = data.find(b"<")
    if i > 0:
        data = data[i:]
    data = re.sub(rb"\A<\?.*?\?>", b"", data, count=1, flags=re.S)      # the declaration (or whatever a damaged one now reads as)
    i = data.find(b"<")
    if i > 0:
        data = data[i:]                                                 # characters between prolog and root element
    return re.sub(rb"<!-.*?-->", b"", data, flags=re.S)      # "<!-" can only open a comment


def _el(name):
    return rb"<((?:[A-Za-z_][\w.-]*:)?)" + name + rb"(?=[\s>/])"


def _find_elem(data, name, start=0, last_close=False):
    """(start, end, prefix) of the first element with this local name (textual scan; nested same-name elements: set last_close)"""
    m = re.compile(_el(name)).search(data, start)
    if not m:
        return None
    close = b"</" + m.group(1) + name + b">"
    e = data.rfind(close) if last_close else data.find(close, m.end())
    if e < 0:
        return None
    return m.start(), e + len(close), m.group(1)


def _wrap(frag, prefix, ns="http://www.w3.org/2000/09/xmldsig#"):
    if prefix:
        return b"<" + prefix + b"W xmlns:" + prefix[:-1] + b"=\"" + ns.encode() + b"\">" + frag + b"</" + prefix + b"W>"
    return b"<W xmlns=\"" + ns.encode() + b"\">" + frag + b"</W>"


def canon_view(data, depth=0):
    """protected content of a document carrying an (enveloped or stand-alone) XML signature:
      - the document without the outermost Signature element (enveloped-signature transform), canonical, comments dropped;
      - of the outermost Signature: SignedInfo (what SignatureValue signs), SignatureValue, every X509Certificate directly in its
        KeyInfo/X509Data (chain-protected), every Object (referenced by SignedInfo in OPC signatures);
      - a ClickOnce licence (r:license inside KeyInfo/msrel:RelData) whole: it is the enveloped-signed Authenticode part.
    KeyInfo wrappers, KeyValue and the Signature element's own attributes are not covered by an XML signature.
    None if one of the protected parts is not well-formed XML."""
    try:
        data = _clean(bytes(data))
        sig = _find_elem(data, b"Signature", last_close=True)
        if sig is None:
            return None
        s, e, pfx = sig
        body = data[s:e]
        depth = depth + 0
        doc = data[:s] + data[e:]
        v_doc = None
        if doc.strip():
            # bytes after the end tag of the root element are not part of the document
            m = re.match(rb"\s*<([A-Za-z_][\w.:-]*)", doc)
            if m:
                close = b"</" + m.group(1) + b">"
                j = doc.rfind(close)
                if j >= 0:
                    doc = doc[:j + len(close)]
            v_doc = _canon(doc)
        inner = body[body.find(b">") + 1:]
        lic = _find_elem(inner, b"license")
        v_lic = None
        outer = inner
        if lic:
            # the licence is itself a document with an enveloped signature (the Authenticode one): same rules, one level down
            v_lic = canon_view(inner[lic[0]:lic[1]], depth + 1) if depth == 0 else None
            if v_lic is None:
                return None
            outer = inner[:lic[0]] + inner[lic[1]:]
        si = _find_elem(outer, b"SignedInfo")
        sv = _find_elem(outer, b"SignatureValue")
        if si is None or sv is None:
            return None
        v_si = _canon(_wrap(outer[si[0]:si[1]], pfx))
        v_sv = _canon(_wrap(outer[sv[0]:sv[1]], pfx))
        certs = []
        for m in re.finditer(_el(b"X509Certificate") + rb"[^>]*>([^<]*)<", outer):
            t = re.sub(rb"[ \t\r\n]+", b"", m.group(2))
            try:
                certs.append(base64.b64decode(t, validate=True))
            except (binascii.Error, ValueError):
                certs.append(b"bad:" + t)
        objs = []
        pos = 0
        while True:
            o = _find_elem(outer, b"Object", pos)
            if o is None:
                break
            objs.append(_canon(_wrap(outer[o[0]:o[1]], pfx)))
            pos = o[1]
        return ("xml", v_doc, v_si, v_sv, tuple(certs), tuple(objs), v_lic)
    except (ET.ParseError, ValueError, UnicodeError, LookupError):
        return None


def regions(data):
    """regions for sampling and for naming what was hit"""
    r = []
    for m in re.finditer(rb"<\?xml.*?\?>", data, flags=re.S):
        r.append((m.start(), m.end(), "xml-declaration"))
    for m in re.finditer(rb"<!--.*?-->", data, flags=re.S):
        r.append((m.start(), m.end(), "comment"))
    sig = _find_elem(data, b"Signature", last_close=True)
    if sig:
        s, e, pfx = sig
        inner_start = data.find(b">", s) + 1
        r.append((s, inner_start, "signature-start-tag"))
        lic = _find_elem(data, b"license", inner_start)
        lo, hi = (lic[0], lic[1]) if lic and lic[1] <= e else (e, e)
        if lic and lic[1] <= e:
            r.append((lo, hi, "authenticode-licence"))
            r.append((hi, e, "signature-other"))
        for name, label in ((b"SignedInfo", "signed-info"), (b"SignatureValue", "signature-value"), (b"KeyValue", "key-value")):
            x = _find_elem(data, name, inner_start)
            if x and x[1] <= lo:
                r.append((x[0], x[1], label))
        pos = inner_start
        while True:
            o = _find_elem(data, b"Object", pos)
            if o is None or o[1] > e:
                break
            r.append((o[0], o[1], "signed-object"))
            pos = o[1]
        for m in re.finditer(_el(b"X509Certificate") + rb"[^>]*>[^<]*<", data[:lo]):
            if m.start() >= s:
                r.append((m.start(), m.end(), "x509-certificate"))
        out = []
        for a, b2, l in fill(sorted(r), len(data), "document"):
            if l == "document" and a >= s and b2 <= e:
                l = "signature-other"
            out.append((a, b2, l))
        return out
    return fill(sorted(r), len(data), "document")


def fill(regs, n, label):
    """complete a list of non-overlapping (preferably) regions to cover [0,n): gaps get `label`"""
    regs = sorted(regs)
    out, pos = [], 0
    for s, e, l in regs:
        if s > pos:
            out.append((pos, s, label))
        out.append((s, e, l))
        pos = max(pos, e)
    if pos < n:
        out.append((pos, n, label))
    return out
