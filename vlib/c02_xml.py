# C02 helper: protected view of XML-signature based formats (W3C XMLDSig; ClickOnce manifests; OPC signature parts),
# independent of relic: Python's expat parser and the C14N 2.0 canonicaliser of the standard library.
# The view is the canonical form without comments (comments, the XML declaration, a BOM, attribute order and quoting are
# not covered by an XML signature that uses (exclusive) canonicalisation without comments); base64 payload elements are
# compared by decoded value (line breaks inside base64 are not content).
import base64, binascii, io, re
import xml.etree.ElementTree as ET

DS = "{http://www.w3.org/2000/09/xmldsig#}"
B64_ELEMS = {DS + "SignatureValue", DS + "DigestValue", DS + "X509Certificate", DS + "Modulus", DS + "Exponent"}


def _norm_b64(root):
    for el in root.iter():
        if el.tag in B64_ELEMS and el.text is not None:
            t = re.sub(r"[ \t\r\n]+", "", el.text)
            try:
                raw = base64.b64decode(t, validate=True)
                el.text = "b64:" + raw.hex()
            except (binascii.Error, ValueError):
                el.text = "bad-b64:" + t


def canon_view(data):
    """canonical protected content of an XML document, or None if it is not well-formed XML"""
    try:
        if data[:3] == b"\xef\xbb\xbf":
            data = data[3:]
        # the XML declaration and comments are outside the canonical form: drop them before parsing so that damage confined
        # to them (which a tolerant parser ignores) does not make the reference reader stricter than the format
        data = re.sub(rb"\A\s*<\?xml[^>]*\?>", b"", data, count=1)
        data = re.sub(rb"<!-.*?-->", b"", data, flags=re.S)      # "<!-" can only open a comment
        root = ET.fromstring(data)
        _norm_b64(root)
        txt = ET.tostring(root, encoding="unicode")
        return ("xml", ET.canonicalize(xml_data=txt, with_comments=False))
    except (ET.ParseError, ValueError, UnicodeError, LookupError):
        return None


def regions(data):
    """coarse regions for sampling: xml declaration / comments / signature element / the rest"""
    r = []
    for m in re.finditer(rb"<\?xml.*?\?>", data, flags=re.S):
        r.append((m.start(), m.end(), "xml-declaration"))
    for m in re.finditer(rb"<!--.*?-->", data, flags=re.S):
        r.append((m.start(), m.end(), "comment"))
    for m in re.finditer(rb"<(?:\w+:)?Signature[ >].*</(?:\w+:)?Signature>", data, flags=re.S):
        r.append((m.start(), m.end(), "signature-element"))
    return fill(r, len(data), "document")


def fill(regs, n, label):
    """complete a list of non-overlapping (preferably) regions to cover [0,n): gaps get `label`"""
    regs = sorted(regs)
    out, pos = [], 0
    for s, e, l in regs:
        if s > pos:
            out.append((pos, s, label))
        out.append((s, e, l))
        pos = max(pos, e)
    if pos < n:
        out.append((pos, n, label))
    return out
