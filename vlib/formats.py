# Aggregation of the Coq side for the format-level properties (C01 C02 C03 C05 C08):
# generic theory coq/Laws/Pipeline.v + the enabled byte-level format modules (checks/fmt*.py, see AGENT_GUIDE addendum).
import importlib, os, re
from vlib import common

# format modules that are finished and reviewed; each is checks/<name>.py with ASPECT_THEOREMS and body(ctx)
ENABLED = ["fmtps", "fmtpgp", "fmtpe", "fmtmsi", "fmtcab", "fmtjar", "fmtmacho", "fmtappx", "fmtapk", "fmtxar", "fmtvsix", "fmtmagic", "fmtcat"]

LAW_THEOREMS = {  # theorems of Laws/Pipeline.v serving each property
    "C01": ["sign_then_verify"],
    "C08": ["resign_history", "digest_ignores_signature"],
    "C02": ["tamper_rejected", "tamper_rejected_preimage"],
    "C03": ["resign_history"],
    "C05": [],
}


def proof_part(ctx, extra_dirs=()):
    """Builds Laws/Pipeline.vo (+ optional property-specific dirs), runs every enabled format module's body with this ctx,
    and returns (coverage_fragment, unit_results). Violations are reported by the modules through ctx."""
    pid = ctx.pid
    built, log = ctx.coq_build(["Laws/Pipeline.vo"])
    hyg = ctx.hygiene(["Base", "Laws"])
    laws_ok = built.get("Laws/Pipeline.vo", False) and not hyg
    thms = ["Laws.Pipeline." + t for t in LAW_THEOREMS.get(pid, [])]
    discharged = len(thms) if laws_ok else 0
    if not laws_ok:
        ctx.violation(pid + ":proof:laws", "generic pipeline theory no longer checks: %s" % (hyg or "Laws/Pipeline.vo"), {"coq_log_tail": log[-1500:]}, False)
    results = []
    for name in ENABLED:
        mod = importlib.import_module("checks." + name)
        unit, ctx.unit = ctx.unit, name
        try:
            r = mod.body(ctx)
        finally:
            ctx.unit = unit
        st = r.get("status") or {}
        mine = mod.ASPECT_THEOREMS.get(pid, [])
        thms += ["%s.%s" % (name, t) for t in mine]
        if st.get("proofs_ok"):
            discharged += len(mine)
        elif not any(v[2] for v in ctx.violations):
            what = st.get("broken") or st.get("hygiene") or [t for t, v in (st.get("built") or {}).items() if not v]
            ctx.violation("%s:proof:%s" % (pid, name), "proof obligations of format module %s no longer check: %s" % (name, what),
                          {"broken": what, "coq_log_tail": (ctx.coq or {}).get("log_tail", "")[-1500:]}, False)
        results.append(r)
    assum = ""
    if laws_ok:
        body = "Require Import Relic.Laws.Pipeline.\n" + "".join("Print Assumptions %s.\n" % t for t in LAW_THEOREMS.get(pid, []))
        rc, out = ctx.coq_eval("assum_laws_" + pid, body, 300)
        assum = " | ".join(sorted(set(l.strip() for l in out.splitlines() if l.strip())))[:600]
    frag = {"obligations": max(1, len(thms)), "discharged": discharged if thms else (1 if laws_ok else 0),
            "checker_cmd": "make -C /verif/coq Laws/Pipeline.vo " + " ".join("%s/Properties.vo" % n for n in ENABLED) + " (coqc 8.16.1, full .vo build)",
            "trusted_base": ["Coq 8.16.1 kernel + vm_compute", "Print Assumptions (Laws): " + (assum or "n/a"),
                             "symbolic cryptography: section hypotheses sign_correct, deser_ser, unforgeable, pub_injective and collision freedom appear as explicit premises",
                             "format laws are PROVED for the byte-level modules %s; for every other format they are exercised only by the end-to-end runs of the real binary (law-by-differential-test)" % (ENABLED or "[none yet]")],
            "theorems": thms, "format_units": [{k: r.get(k) for k in ("unit", "evaluations", "distinct", "notes")} for r in results]}
    return frag, results
