# C05: readers for Apple code-signature containers written from Apple's published headers (cs_blobs.h, CSCommon.h, mach-o/loader.h,
# mach-o/fat.h), the UDIF trailer layout and the xar file format description.  No relic code.
import hashlib, struct, zlib
import xml.etree.ElementTree as ET

CSMAGIC_SUPERBLOB, CSMAGIC_CODEDIR, CSMAGIC_REQS, CSMAGIC_CMS = 0xfade0cc0, 0xfade0c02, 0xfade0c01, 0xfade0b01
HASHTYPES = {1: "sha1", 2: "sha256", 4: "sha384", 5: "sha512"}


class AppleError(Exception):
    pass


def superblob(b):
    """-> list of (slot type, magic, whole blob bytes incl. its 8-byte header)"""
    if len(b) < 12:
        raise AppleError("signature blob too short")
    magic, length, count = struct.unpack_from(">III", b, 0)
    if magic != CSMAGIC_SUPERBLOB:
        raise AppleError("not an embedded-signature superblob: %#x" % magic)
    if length > len(b):
        raise AppleError("superblob length %d exceeds the %d bytes available" % (length, len(b)))
    out = []
    for i in range(count):
        typ, off = struct.unpack_from(">II", b, 12 + 8 * i)
        m, ln = struct.unpack_from(">II", b, off)
        if off + ln > length:
            raise AppleError("blob %d overruns the superblob" % i)
        out.append((typ, m, b[off:off + ln]))
    return out, length


def codedir(cd):
    (magic, length, version, flags, hash_off, ident_off, nspecial, ncode, code_limit, hsize, htype, platform, pagelog) = struct.unpack_from(">IIIIIIIIIBBBB", cd, 0)
    if magic != CSMAGIC_CODEDIR:
        raise AppleError("not a CodeDirectory")
    out = {"version": version, "flags": flags, "nspecial": nspecial, "ncode": ncode, "code_limit": code_limit, "hash_size": hsize, "hash_type": htype,
           "page_size": (1 << pagelog) if pagelog else 0, "length": length}
    if version >= 0x20300:
        cl64 = struct.unpack_from(">Q", cd, 56)[0]
        if cl64:
            out["code_limit"] = cl64
    if htype not in HASHTYPES or hashlib.new(HASHTYPES[htype]).digest_size != hsize:
        raise AppleError("hash type %d / size %d" % (htype, hsize))
    out["alg"] = HASHTYPES[htype]
    e = cd.index(b"\0", ident_off)
    out["ident"] = cd[ident_off:e].decode("utf-8", "replace")
    out["code"] = [cd[hash_off + i * hsize:hash_off + (i + 1) * hsize] for i in range(ncode)]
    out["special"] = {k: cd[hash_off - k * hsize:hash_off - (k - 1) * hsize] for k in range(1, nspecial + 1)}
    if hash_off + ncode * hsize > length or hash_off - nspecial * hsize < 44:
        raise AppleError("hash slots outside the directory")
    return out


def page_hashes(data, limit, page, alg):
    if page == 0:
        return [hashlib.new(alg, data[:limit]).digest()]
    return [hashlib.new(alg, data[p:min(p + page, limit)]).digest() for p in range(0, limit, page)]


def check_signature_blob(blob, data, code_limit_expected, specials):
    """blob = embedded signature; data = the bytes the code slots cover; specials = {slot number: bytes that slot must hash}
    returns (problems [(slug, text)], info) ; info has 'cd' (raw CodeDirectory blob), 'cms' (DER), 'alg'"""
    probs = []
    blobs, total = superblob(blob)
    cds = [(t, b) for t, m, b in blobs if m == CSMAGIC_CODEDIR]
    cms = [b for t, m, b in blobs if m == CSMAGIC_CMS]
    if not cds or cds[0][0] != 0:
        raise AppleError("no CodeDirectory in slot 0")
    if len(cms) != 1:
        raise AppleError("%d CMS blobs" % len(cms))
    info = {"cd": cds[0][1], "cms": cms[0][8:], "dirs": []}
    for t, raw in cds:
        cd = codedir(raw)
        info["dirs"].append(cd)
        info["alg"] = cd["alg"] if t == 0 else info.get("alg")
        if cd["code_limit"] != code_limit_expected:
            probs.append(("codelimit", "CodeDirectory.codeLimit %d, the signed range ends at %d" % (cd["code_limit"], code_limit_expected)))
        want = page_hashes(data, cd["code_limit"], cd["page_size"], cd["alg"])
        if cd["code"] != want:
            bad = next((i for i, (a, b) in enumerate(zip(cd["code"], want)) if a != b), min(len(want), len(cd["code"])))
            probs.append(("code-slot-mismatch", "code hash slots differ from the %s page hashes of the file (page size %d): %d vs %d slots, first difference at %d" %
                          (cd["alg"], cd["page_size"], len(cd["code"]), len(want), bad)))
        for k, content in specials.items():
            got = cd["special"].get(k)
            if content is None:
                continue
            if got is None:
                probs.append(("special-slot-missing", "special slot -%d is not present" % k))
            elif got != hashlib.new(cd["alg"], content).digest():
                probs.append(("special-slot-mismatch", "special slot -%d != %s of the component it binds" % (k, cd["alg"])))
        for t2, m2, b2 in blobs:
            if m2 == CSMAGIC_REQS and cd["special"].get(2) is not None and cd["special"][2] != hashlib.new(cd["alg"], b2).digest():
                probs.append(("special-slot-mismatch", "special slot -2 != %s of the embedded requirements blob" % cd["alg"]))
    return probs, info


# ---------------------------------------------------------------------------------------------------- DMG
def dmg_parse(d):
    k = d[-512:]
    if k[:4] != b"koly":
        raise AppleError("no koly trailer")
    xml_off, xml_len = struct.unpack_from(">QQ", k, 0xd8)
    sig_off, sig_len = struct.unpack_from(">QQ", k, 0x128)
    return {"koly": k, "xml_end": xml_off + xml_len, "sig_off": sig_off, "sig_len": sig_len}


def dmg_check(d):
    t = dmg_parse(d)
    probs = []
    if t["sig_len"] == 0:
        raise AppleError("image is not signed")
    if t["sig_off"] != t["xml_end"]:
        probs.append(("signature-offset", "code signature at %d, data ends at %d" % (t["sig_off"], t["xml_end"])))
    if t["sig_off"] + t["sig_len"] + 512 != len(d):
        probs.append(("signature-extent", "signature [%d,+%d) + trailer do not end at the end of file %d" % (t["sig_off"], t["sig_len"], len(d))))
    koly_for_hash = t["koly"][:0x130] + b"\0" * 8 + t["koly"][0x138:]
    p2, info = check_signature_blob(d[t["sig_off"]:t["sig_off"] + t["sig_len"]], d, t["sig_off"], {6: koly_for_hash})
    for cd in info["dirs"]:
        if cd["page_size"] != 0 or cd["ncode"] != 1:
            p2.append(("dmg-paging", "disk image CodeDirectory should have one code slot with page size 0, has %d slots, page size %d" % (cd["ncode"], cd["page_size"])))
    return probs + p2, info


# ---------------------------------------------------------------------------------------------------- Mach-O
LC_SEGMENT, LC_SEGMENT_64, LC_CODE_SIGNATURE = 0x1, 0x19, 0x1d


def macho_slices(d):
    magic = struct.unpack_from(">I", d, 0)[0]
    if magic in (0xcafebabe, 0xcafebabf):
        n = struct.unpack_from(">I", d, 4)[0]
        out = []
        for i in range(n):
            if magic == 0xcafebabe:
                ct, cs, off, size, al = struct.unpack_from(">IIIII", d, 8 + 20 * i)
            else:
                ct, cs, off, size, al, _ = struct.unpack_from(">IIQQII", d, 8 + 32 * i)
            out.append((off, size))
        return out
    return [(0, len(d))]


def macho_check(sl, info_plist=None, resources=None):
    magic = struct.unpack_from("<I", sl, 0)[0]
    if magic == 0xfeedfacf:
        hs, en = 32, "<"
    elif magic == 0xfeedface:
        hs, en = 28, "<"
    elif magic in (0xcffaedfe, 0xcefaedfe):
        hs, en = (32 if magic == 0xcffaedfe else 28), ">"
    else:
        raise AppleError("not a Mach-O slice: %#x" % magic)
    ncmds = struct.unpack_from(en + "I", sl, 16)[0]
    p, sig, linkedit = hs, None, None
    for i in range(ncmds):
        cmd, size = struct.unpack_from(en + "II", sl, p)
        if cmd == LC_CODE_SIGNATURE:
            sig = struct.unpack_from(en + "II", sl, p + 8)
        elif cmd == LC_SEGMENT_64 and sl[p + 8:p + 24].rstrip(b"\0") == b"__LINKEDIT":
            linkedit = struct.unpack_from(en + "QQQQ", sl, p + 24)      # vmaddr vmsize fileoff filesize
        elif cmd == LC_SEGMENT and sl[p + 8:p + 24].rstrip(b"\0") == b"__LINKEDIT":
            linkedit = struct.unpack_from(en + "IIII", sl, p + 24)
        p += size
    if sig is None:
        raise AppleError("no LC_CODE_SIGNATURE")
    off, size = sig
    probs = []
    if off + size > len(sl):
        raise AppleError("code signature beyond the slice")
    if linkedit and linkedit[2] + linkedit[3] != off + size:
        probs.append(("linkedit-extent", "__LINKEDIT ends at %d, code signature at %d" % (linkedit[2] + linkedit[3], off + size)))
    if linkedit and linkedit[2] + linkedit[3] > len(sl):
        probs.append(("linkedit-extent", "__LINKEDIT extends beyond the slice"))
    p2, info = check_signature_blob(sl[off:off + size], sl, off, {1: info_plist, 3: resources})
    return probs + p2, info


# ---------------------------------------------------------------------------------------------------- xar
def xar_check(d):
    if d[:4] != b"xar!":
        raise AppleError("not a xar archive")
    hsize, ver, clen, ulen, alg = struct.unpack_from(">HHQQI", d, 4)
    ztoc = d[hsize:hsize + clen]
    toc = zlib.decompress(ztoc)
    probs = []
    if len(toc) != ulen:
        probs.append(("toc-length", "header says %d uncompressed TOC bytes, zlib gives %d" % (ulen, len(toc))))
    root = ET.fromstring(toc)
    heap = hsize + clen
    t = root.find("toc")
    ck = t.find("checksum")
    style = ck.get("style").lower()
    want_alg = {1: "sha1", 2: "md5", 3: "sha256", 4: "sha512"}.get(alg)
    if want_alg and want_alg != style:
        probs.append(("checksum-algorithm", "header checksum algorithm %d vs TOC checksum style %s" % (alg, style)))
    off, size = int(ck.find("offset").text), int(ck.find("size").text)
    cksum = d[heap + off:heap + off + size]
    if cksum != hashlib.new(style, ztoc).digest():
        probs.append(("toc-checksum-mismatch", "heap checksum != %s of the compressed TOC" % style))
    out = {"alg": style, "checksum": cksum, "rsa": None, "cms": None, "certs": []}
    for tag, key in (("signature", "rsa"), ("x-signature", "cms")):
        el = t.find(tag)
        if el is None:
            continue
        o, s = int(el.find("offset").text), int(el.find("size").text)
        out[key] = d[heap + o:heap + o + s]
        import base64
        certs = [base64.b64decode(c.text) for c in el.iter("{http://www.w3.org/2000/09/xmldsig#}X509Certificate")]
        out["certs"] = out["certs"] or certs
    nfiles = 0
    for data in root.iter("data"):
        o, ln = data.find("offset"), data.find("length")      # <length> = bytes in the heap, <size> = extracted size
        ac = data.find("archived-checksum")
        if o is None or ln is None or ac is None:
            continue
        blob = d[heap + int(o.text):heap + int(o.text) + int(ln.text)]
        nfiles += 1
        if hashlib.new(ac.get("style").lower(), blob).hexdigest() != ac.text.strip().lower():
            probs.append(("heap-file-checksum", "archived-checksum of the heap file at offset %s does not match" % o.text))
        ec, enc, sz = data.find("extracted-checksum"), data.find("encoding"), data.find("size")
        if ec is not None and enc is not None and enc.get("style") in ("application/x-gzip", "application/octet-stream"):
            try:
                raw = zlib.decompress(blob) if enc.get("style") == "application/x-gzip" else blob
                if hashlib.new(ec.get("style").lower(), raw).hexdigest() != ec.text.strip().lower() or (sz is not None and len(raw) != int(sz.text)):
                    probs.append(("heap-file-extracted-checksum", "extracted-checksum/size of the heap file at offset %s does not match" % o.text))
            except zlib.error:
                probs.append(("heap-file-extracted-checksum", "heap file at offset %s does not inflate" % o.text))
    out["files"] = nfiles
    return probs, out
