# C02 helper: independent OpenPGP reader (RFC 4880) — armor, packets, signature packets, cleartext framework — and the
# protected views of the PGP-based formats: detached / clearsigned / inline messages, debsigs members of a .deb (ar archive),
# and RPM packages (rpm.org file format: lead, signature header, header, payload). Nothing here uses relic.
import base64, binascii, hashlib, re, struct


class PgpError(Exception):
    pass


# ------------------------------------------------------------------------------------------------ packets
def _new_len(b, p, n):
    l = b[p]
    if l < 192:
        return l, p + 1, False
    if l < 224:
        if p + 2 > n:
            raise PgpError("truncated length")
        return ((l - 192) << 8) + b[p + 1] + 192, p + 2, False
    if l == 255:
        if p + 5 > n:
            raise PgpError("truncated length")
        return struct.unpack_from(">I", b, p + 1)[0], p + 5, False
    return 1 << (l & 0x1f), p + 1, True


def _one_packet(b, p, n, have_earlier):
    """returns (next position, (tag, [(start, end) body chunks], None, header start))"""
    h = p
    c = b[p]
    if not c & 0x80:
        raise PgpError("packet tag without MSB at %d" % p)
    p += 1
    if p >= n:
        raise PgpError("truncated length")
    if c & 0x40:
        tag = c & 0x3f
        chunks = []
        while True:
            if p >= n:
                raise PgpError("partial body without end")
            ln, p, partial = _new_len(b, p, n)
            if tag == 4 and not partial:
                ln = 13     # one-pass signature packets have a fixed size; readers do not use the declared length
            if p + ln > n:
                # a reader that consumes the fields it needs does not notice an over-long declared length on the last packet
                if partial or p >= n:
                    raise PgpError("packet body overruns data")
                ln = n - p
            chunks.append((p, p + ln))
            p += ln
            if not partial:
                break
        return p, (tag, chunks, None, h)
    tag = (c >> 2) & 0xf
    lt = c & 3
    if lt == 0:
        ln = b[p]
        p += 1
    elif lt == 1:
        if p + 2 > n:
            raise PgpError("truncated length")
        ln = struct.unpack_from(">H", b, p)[0]
        p += 2
    elif lt == 2:
        if p + 4 > n:
            raise PgpError("truncated length")
        ln = struct.unpack_from(">I", b, p)[0]
        p += 4
    else:
        ln = n - p
    if tag == 4:
        ln = 13         # one-pass signature packets have a fixed size; readers do not use the declared length
    if p + ln > n:
        if p >= n:
            raise PgpError("packet body overruns data")
        ln = n - p
    return p + ln, (tag, [(p, p + ln)], None, h)


def read_packets(b, prefix=False):
    """list of (tag, [(start, end) body chunks], None, header_start). With prefix=True parsing stops quietly at the first byte
    sequence that is not a packet, provided at least one packet was read (bytes after a complete message are not part of it)."""
    out = []
    p = 0
    n = len(b)
    while p < n:
        try:
            p, pkt = _one_packet(b, p, n, bool(out))
        except (PgpError, IndexError):
            if prefix and out:
                break
            raise PgpError("bad packet at %d" % p)
        out.append(pkt)
    return out


def read_packets_prefix(b):
    return read_packets(b, prefix=True)


def body(b, pkt):
    return b"".join(bytes(b[s:e]) for s, e in pkt[1])


def sig_view(body_bytes):
    """protected fields of a signature packet: version, type, algorithms, the hashed subpacket area (v4) or the hashed
    type+time (v3), and the signature MPIs. The unhashed subpacket area and the 16-bit hash prefix are not protected."""
    s = body_bytes
    if len(s) < 6:
        raise PgpError("short signature packet")
    v = s[0]
    if v == 4:
        st, pk, ha = s[1], s[2], s[3]
        hl = struct.unpack_from(">H", s, 4)[0]
        hashed = s[6:6 + hl]
        p = 6 + hl
        if p + 2 > len(s):
            raise PgpError("sig truncated")
        ul = struct.unpack_from(">H", s, p)[0]
        unhashed = s[p + 2:p + 2 + ul]
        p += 2 + ul
        if p + 2 > len(s):
            raise PgpError("sig truncated")
        p += 2
        mpis = _mpis(s, p)
        return ("sig4", st, pk, ha, bytes(hashed), mpis), {"hashed": (6, 6 + hl), "unhashed": (6 + hl + 2, 6 + hl + 2 + ul), "left16": (p - 2, p), "mpis": (p, len(s))}
    if v == 3:
        if len(s) < 19 or s[1] != 5:
            raise PgpError("bad v3 sig")
        st, ctime, keyid, pk, ha = s[2], s[3:7], s[7:15], s[15], s[16]
        mpis = _mpis(s, 19)
        return ("sig3", st, bytes(ctime), pk, ha, mpis), {"hashed": (2, 7), "unhashed": (7, 15), "left16": (17, 19), "mpis": (19, len(s))}
    raise PgpError("unsupported signature version %d" % v)


def _mpis(s, p):
    out = []
    while p < len(s):
        if p + 2 > len(s):
            raise PgpError("mpi truncated")
        bits = struct.unpack_from(">H", s, p)[0]
        ln = (bits + 7) // 8
        if p + 2 + ln > len(s):
            raise PgpError("mpi overruns")
        out.append(int.from_bytes(s[p + 2:p + 2 + ln], "big"))
        p += 2 + ln
    if not out:
        raise PgpError("no signature value")
    return tuple(out)


# ------------------------------------------------------------------------------------------------ armor
def dearmor(txt, kind=b"PGP SIGNATURE"):
    """returns (binary, span of the base64 body inside txt). The optional CRC-24 line and armor headers are not content."""
    # the END line only terminates the body; the base64 data is self-delimiting (padding / CRC line), so a damaged END line is framing
    # (the armor type named on the BEGIN line is a label; readers take whatever block follows)
    m = re.search(rb"-----BEGIN [^\r\n]*\r?\n(.*?)(?:\r?\n-----END [^\r\n]*-----|\r?\n-[^\n]*\Z|\Z)", txt, flags=re.S)
    if not m:
        raise PgpError("no armor")
    inner = m.group(1)
    # headers up to the first blank line
    parts = re.split(rb"\r?\n[ \t]*\r?\n", b"\n" + inner, maxsplit=1)
    if len(parts) != 2:
        raise PgpError("armor without blank line")
    # base64 body: up to its padding; the CRC-24 line ("=XXXX") that may follow is optional and not content (RFC 4880 §6.1)
    mm = re.match(rb"\A([A-Za-z0-9+/ \t\r\n]*)(={0,2})", parts[1])
    data = re.sub(rb"[ \t\r\n]", b"", mm.group(1))
    rest = parts[1][mm.end():]
    # whatever follows the last well-formed base64 quantum (CRC line, line noise before it, a damaged END line) is armor framing, not
    # signature: the decoded octets are the signature, and the callers require them to parse into complete packets, so a body that is
    # cut short by noise in its middle still yields no view (and an accepting verifier is then reported)
    if not mm.group(2) and rest.strip() and not rest.lstrip().startswith(b"="):
        data = data[:len(data) - len(data) % 4]
    data += b"=" * (-len(data) % 4)
    try:
        raw = base64.b64decode(data, validate=True)
    except (binascii.Error, ValueError) as e:
        raise PgpError("armor base64: %s" % e)
    return raw, (m.start(), m.end())


def maybe_dearmor(b, kind=b"PGP SIGNATURE"):
    if b.lstrip()[:10] == b"-----BEGIN":
        return dearmor(b, kind)[0]
    return b


def detached_view(sig):
    try:
        raw = maybe_dearmor(sig)
        pk = read_packets(raw)
        sigs = [sig_view(body(raw, p))[0] for p in pk if p[0] == 2]
        if not sigs or any(p[0] != 2 for p in pk):
            return None
        return ("pgp-detached", tuple(sigs))
    except (PgpError, IndexError, struct.error):
        return None


def clearsign_parts(b):
    # header lines run to the first empty line; they are not signed text (a reader may ignore those it does not understand)
    m = re.match(rb"\A(-----BEGIN PGP SIGNED MESSAGE-----[ \t]*\r?\n)((?:[^\r\n]*[^\r\n \t][^\r\n]*\r?\n)*)([ \t]*\r?\n)", b)
    if not m:
        raise PgpError("no cleartext header")
    start = m.end()
    e = re.search(rb"\r?\n-----BEGIN PGP SIGNATURE-----", b[start:])
    if not e:
        raise PgpError("no signature armor")
    text = b[start:start + e.start()]
    return m, start, start + e.start(), text


def clearsign_view(b):
    """RFC 4880 §7: the signed text is the dash-unescaped cleartext with trailing blanks of every line removed and line endings
    taken as CRLF; the Hash: header must name the digest of the signature; other armor headers and the CRC are not protected.
    Text before the cleartext header or after the signature armor is outside the message (tracked separately by the caller)."""
    try:
        m, s, e, text = clearsign_parts(b)
        lines = re.split(rb"\r?\n", text)
        canon = []
        for l in lines:
            if l.startswith(b"- "):
                l = l[2:]
            elif l.startswith(b"-"):
                raise PgpError("unescaped dash line")
            canon.append(l.rstrip(b" \t"))
        raw, span = dearmor(b[e:])
        pk = read_packets(raw)
        sigs = [sig_view(body(raw, p))[0] for p in pk if p[0] == 2]
        if not sigs or any(p[0] != 2 for p in pk):
            return None
        tail = b[e + span[1]:]
        return ("pgp-clearsign", b"\r\n".join(canon), tuple(sigs), bytes(tail.strip()))
    except (PgpError, IndexError, struct.error):
        return None


def inline_view(b):
    """signed message: [one-pass sig] literal data [signature]; the literal data BODY is protected, its file name / date are not"""
    try:
        raw = maybe_dearmor(b, b"PGP MESSAGE")
        pk = read_packets_prefix(raw)
        lit, sigs = None, []
        end_of_message = None
        for p in pk:
            if sigs and lit is not None:
                break           # the message is complete with the signature that follows the literal data
            if p[0] == 11:
                d = body(raw, p)
                if len(d) < 6:
                    raise PgpError("short literal")
                fl = d[1]
                lit = (d[2 + fl + 4:],) if lit is None else ("dup",)        # format octet, file name and date are not hashed
            elif p[0] == 2:
                sigs.append(sig_view(body(raw, p))[0])
                end_of_message = p[1][-1][1]
            elif p[0] == 4:
                pass
            elif p[0] == 8:
                return None   # compressed: relic does not produce it; treat as unparseable
            else:
                raise PgpError("unexpected packet %d" % p[0])
        if lit is None or not sigs:
            return None
        # anything after the message is outside the signature; a consumer that processes it (a second message) must not be told "OK"
        return ("pgp-inline", lit, tuple(sigs), bytes(raw[end_of_message:]))
    except (PgpError, IndexError, struct.error):
        return None


# ------------------------------------------------------------------------------------------------ ar / deb
def ar_members(b):
    if b[:8] != b"!<arch>\n":
        raise PgpError("not an ar archive")
    p = 8
    out = []
    while p < len(b):
        if p + 60 > len(b):
            raise PgpError("truncated ar header")
        h = b[p:p + 60]
        name = bytes(h[:16]).rstrip(b" ")
        try:
            size = int(bytes(h[48:58]).strip() or b"x")
        except ValueError:
            raise PgpError("bad ar size")
        if p + 60 + size > len(b):
            if p + 60 + size > len(b) + 2:
                raise PgpError("ar member overruns")
            size = len(b) - p - 60      # a final member cut inside its last line break: readers that stop at EOF see the same content
        out.append((name, p, p + 60, p + 60 + size))
        p += 60 + size
        if p % 2 and p < len(b):
            p += 1
    return out


def deb_view(b):
    """debsigs: the signature member lists name, size and digests of every preceding member in archive order; dpkg reads members
    by name and position. Protected: names, order and contents of all non-signature members, and each signature member's
    cleartext + signature. ar header fields mtime/uid/gid/mode are not digested."""
    try:
        ms = ar_members(b)
        out = []
        for name, hs, ds, de in ms:
            n = name.rstrip(b"/")
            c = bytes(b[ds:de])
            if n.startswith(b"_gpg"):
                v = clearsign_view(c)
                if v is None:
                    return None
                out.append((b"_gpg*", v[:3]))       # the role suffix is repeated inside the signed text; bytes after the armor are not read
            else:
                out.append((n, hashlib.sha256(c).digest()))
        if not any(n.startswith(b"_gpg") for n, _ in out):
            return None
        return ("deb", tuple(out))
    except PgpError:
        return None


def deb_regions(b):
    r = [(0, 8, "ar-magic")]
    for name, hs, ds, de in ar_members(b):
        n = name.decode("latin-1")
        r += [(hs, hs + 16, "arhdr-name:" + n), (hs + 16, hs + 48, "arhdr-meta:" + n), (hs + 48, hs + 58, "arhdr-size:" + n),
              (hs + 58, hs + 60, "arhdr-magic:" + n), (ds, de, "member:" + n)]
        if de % 2:
            r.append((de, de + 1, "ar-pad:" + n))
    return r


# ------------------------------------------------------------------------------------------------ RPM
RPM_SIG_RESERVED = (1008, 999)      # RPMSIGTAG_RESERVEDSPACE, and RPMSIGTAG_PADDING


def rpm_header(b, p):
    if b[p:p + 3] != b"\x8e\xad\xe8":
        raise PgpError("bad header magic")
    il, dl = struct.unpack_from(">II", b, p + 8)
    idx = p + 16
    data = idx + 16 * il
    end = data + dl
    if il > 65535 or end > len(b):
        raise PgpError("header overruns")
    tags = []
    for i in range(il):
        tag, typ, off, cnt = struct.unpack_from(">IIII", b, idx + 16 * i)
        tags.append((tag, typ, off, cnt, idx + 16 * i))
    return tags, data, end


TYPE_SIZE = {1: 1, 2: 1, 3: 2, 4: 4, 5: 8, 7: 1}


def rpm_tag_value(b, tags, data, end, i):
    tag, typ, off, cnt, _ = tags[i]
    s = data + off
    if typ in TYPE_SIZE:
        e = s + TYPE_SIZE[typ] * cnt
    elif typ == 6:
        e = b.index(b"\0", s) + 1
    elif typ in (8, 9):
        e = s
        for _ in range(cnt):
            e = b.index(b"\0", e) + 1
    else:
        raise PgpError("unknown tag type")
    if e > end or s > end:
        raise PgpError("tag data overruns")
    return s, e


def rpm_parts(b):
    if b[:4] != b"\xed\xab\xee\xdb":
        raise PgpError("not an rpm")
    stags, sdata, send = rpm_header(b, 96)
    hstart = send + (-(send - 96) % 8)
    htags, hdata, hend = rpm_header(b, hstart)
    return stags, sdata, send, hstart, hend


RPM_DIGEST_TAGS = {269: "sha1", 273: "sha256", 1004: "md5"}     # SHA1HEADER, SHA256HEADER (hex strings over the header), MD5 (binary, header+payload)
RPM_SIG_TAGS = (267, 268, 1002, 1005)                            # DSAHEADER, RSAHEADER (header), PGP, GPG (header+payload)


def rpm_view(b):
    """rpm file format: the lead is obsolete and unchecked; the signature header is not itself authenticated: it carries
    OpenPGP signatures over the header (RSAHEADER) and over header+payload (PGP) and plain digests (SHA1/SHA256 of the header,
    MD5 of header+payload). Protected: header and payload in full, every signature packet, and every digest value that is
    present (a present digest that does not match the content is an altered embedded digest). Reserved space, sizes and the
    region trailer are not."""
    try:
        stags, sdata, send, hstart, hend = rpm_parts(b)
        sigs, bad = [], []
        for i, (tag, typ, off, cnt, _) in enumerate(stags):
            if tag in RPM_SIG_TAGS and typ == 7:
                s, e = rpm_tag_value(b, stags, sdata, send, i)
                v = bytes(b[s:e])
                pk = read_packets(v)
                sigs.append((tag,) + tuple(sig_view(body(v, p))[0] for p in pk))
            elif tag in RPM_DIGEST_TAGS:
                if typ != (7 if tag == 1004 else 6):
                    continue
                s, e = rpm_tag_value(b, stags, sdata, send, i)
                v = bytes(b[s:e])
                # an entry of the wrong type, or an empty string, is not a digest (same as an absent tag)
                if tag == 1004:
                    if typ != 7 or cnt != 16:
                        continue
                    good = v == hashlib.md5(bytes(b[hstart:])).digest()
                else:
                    if typ != 6 or v.rstrip(b"\0") == b"":
                        continue
                    good = v.rstrip(b"\0").decode("latin-1").lower() == hashlib.new(RPM_DIGEST_TAGS[tag], bytes(b[hstart:hend])).hexdigest()
                if not good:
                    bad.append(tag)
        if not sigs:
            return None
        return ("rpm", hashlib.sha256(bytes(b[hstart:hend])).digest(), hashlib.sha256(bytes(b[hend:])).digest(), frozenset(sigs), frozenset(bad))
    except (PgpError, ValueError, struct.error, IndexError):
        return None


def rpm_neutral(v0, v1):
    """each signature in the (unauthenticated) signature header stands alone: dropping one of several signatures made by the
    same key, while the header signature remains and the header carries the payload digest, alters nothing that is protected"""
    return v0[:3] == v1[:3] and v0[4] == v1[4] and v1[3] <= v0[3] and len(v1[3]) >= 1


def rpm_classify(v0, v1):
    try:
        new = sorted(v1[4] - v0[4])
        if new and v0[:4] == v1[:4]:
            return "digest-tag-%s-unchecked" % "+".join(str(t) for t in new)
    except (TypeError, IndexError):
        pass
    return None


def rpm_regions(b):
    stags, sdata, send, hstart, hend = rpm_parts(b)
    r = [(0, 96, "lead"), (96, 112, "sighdr-intro"), (112, sdata, "sighdr-index")]
    for i, (tag, typ, off, cnt, _) in enumerate(stags):
        try:
            s, e = rpm_tag_value(b, stags, sdata, send, i)
            r.append((s, e, "sigtag-%d" % tag))
        except (PgpError, ValueError):
            pass
    r.append((hstart, hend, "header"))
    r.append((hend, len(b), "payload"))
    return r
