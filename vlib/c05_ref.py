# C05: reference computations transcribed from the public specifications (no code shared with relic):
#   * Authenticode PE image hash, page hashes, PE checksum   ("Windows Authenticode Portable Executable Signature Format", PE/COFF spec)
#   * CAB signature digest and structure                      (MS-CAB + the reserve-area layout used by signtool, as documented by osslsigncode)
#   * MS-CFB reader, MSI stream ordering, MsiDigitalSignatureEx pre-hash
#   * APK Signature Scheme v2 block parser and chunked digest (source.android.com/security/apksigning/v2)
#   * JAR manifest / signature-file parsing and digests       (JAR File Specification)
# Everything works on the bytes of the SIGNED artefact relic produced, the way an outside verifier would.
import base64, hashlib, struct, zipfile, io, zlib


class RefError(Exception):
    pass


def H(alg, *parts):
    h = hashlib.new(alg)
    for p in parts:
        h.update(p)
    return h.digest()


# ---------------------------------------------------------------------------------------------------- PE
def pe_layout(d):
    if d[:2] != b"MZ" or len(d) < 0x40:
        raise RefError("no MZ header")
    pe = struct.unpack_from("<I", d, 0x3c)[0]
    if d[pe:pe + 4] != b"PE\0\0":
        raise RefError("no PE header")
    machine, nsec, _, _, _, optsize, _ = struct.unpack_from("<HHIIIHH", d, pe + 4)
    opt = pe + 24
    magic = struct.unpack_from("<H", d, opt)[0]
    if magic == 0x10b:
        ddbase, nrva_off = opt + 96, opt + 92
    elif magic == 0x20b:
        ddbase, nrva_off = opt + 112, opt + 108
    else:
        raise RefError("optional header magic %#x" % magic)
    nrva = struct.unpack_from("<I", d, nrva_off)[0]
    if nrva < 5:
        raise RefError("no certificate table directory entry")
    file_align = struct.unpack_from("<I", d, opt + 36)[0]
    size_of_headers = struct.unpack_from("<I", d, opt + 60)[0]
    dd4 = ddbase + 8 * 4
    cert_va, cert_size = struct.unpack_from("<II", d, dd4)
    sect = opt + optsize
    sections = []
    for i in range(nsec):
        name, vsize, va, rawsize, rawptr = struct.unpack_from("<8sIIII", d, sect + 40 * i)
        sections.append({"name": name.rstrip(b"\0").decode("latin1"), "vsize": vsize, "va": va, "rawsize": rawsize, "rawptr": rawptr})
    return {"pe": pe, "machine": machine, "magic": magic, "cksum_off": opt + 64, "dd4_off": dd4, "cert_va": cert_va, "cert_size": cert_size,
            "size_of_headers": size_of_headers, "file_align": file_align, "sections": sections, "sect_table_end": sect + 40 * nsec}


def pe_image_hash(d, alg):
    """Authenticode spec, 'Calculating the PE Image Hash', steps 3-15, literally."""
    L = pe_layout(d)
    h = hashlib.new(alg)
    h.update(d[:L["cksum_off"]])                                  # step 3-4: up to the checksum, skip it
    h.update(d[L["cksum_off"] + 4:L["dd4_off"]])                  # step 5-6: up to the Certificate Table entry
    h.update(d[L["dd4_off"] + 8:L["size_of_headers"]])            # step 7: rest of the headers incl. section table
    total = L["size_of_headers"]                                  # step 8
    secs = sorted([s for s in L["sections"] if s["rawsize"] > 0], key=lambda s: s["rawptr"])   # steps 9-11
    for s in secs:                                                # steps 12-13
        chunk = d[s["rawptr"]:s["rawptr"] + s["rawsize"]]
        h.update(chunk)
        total += len(chunk) if len(chunk) == s["rawsize"] else s["rawsize"]
    fsize = len(d)                                                # step 14
    if fsize > total:
        extra = fsize - (L["cert_size"] + total)
        if extra < 0:
            raise RefError("certificate table larger than the data after the sections")
        h.update(d[total:total + extra])
    return h.digest()


def pe_page_size(machine):
    # IA64 and Alpha use 8 KiB pages, everything else 4 KiB
    return 8192 if machine in (0x200, 0x184, 0x284) else 4096


def pe_page_hashes(d, alg):
    """Page hash table as signtool /ph emits it (documented by osslsigncode pe_page_hash_calc): first page = headers with the same
    three fields omitted, zero-padded to a page; every section page (file offset, hash of the page zero-padded); terminator with the
    end offset of the last section and an all-zero digest."""
    L = pe_layout(d)
    ps = pe_page_size(L["machine"])
    hl = hashlib.new(alg).digest_size
    hdr = d[:L["cksum_off"]] + d[L["cksum_off"] + 4:L["dd4_off"]] + d[L["dd4_off"] + 8:L["size_of_headers"]]
    out = struct.pack("<I", 0) + H(alg, hdr, b"\0" * (ps - L["size_of_headers"]))
    last = 0
    for s in L["sections"]:
        if s["rawsize"] == 0:
            continue
        ro, rs = s["rawptr"], s["rawsize"]
        for off in range(0, rs, ps):
            page = d[ro + off:ro + min(off + ps, rs)]
            out += struct.pack("<I", ro + off) + H(alg, page, b"\0" * (ps - len(page)))
        last = ro + rs
    out += struct.pack("<I", last) + b"\0" * hl
    return out


def pe_checksum(d):
    """PE/COFF 'CheckSum' (IMAGEHLP CheckSumMappedFile): 16-bit one's-complement sum of the file taken as little-endian words with the
    checksum field as zero, folded, plus the file length."""
    L = pe_layout(d)
    b = bytearray(d)
    b[L["cksum_off"]:L["cksum_off"] + 4] = b"\0\0\0\0"
    if len(b) % 2:
        b.append(0)
    total = sum(struct.unpack("<%dH" % (len(b) // 2), bytes(b)))
    while total >> 16:
        total = (total & 0xffff) + (total >> 16)
    return (total + len(d)) & 0xffffffff


def pe_cert_table(d):
    """returns (list of (revision, type, blob)), problems)"""
    L = pe_layout(d)
    probs = []
    va, size = L["cert_va"], L["cert_size"]
    if size == 0:
        return [], [("no-certtable", "certificate table entry is empty")]
    if va % 8:
        probs.append(("certtable-unaligned", "certificate table offset %#x is not 8-byte aligned" % va))
    if va + size != len(d):
        probs.append(("certtable-not-at-eof", "certificate table [%#x,+%#x) does not end at the end of the file (%#x)" % (va, size, len(d))))
    ends = [s["rawptr"] + s["rawsize"] for s in L["sections"] if s["rawsize"]]
    if ends and va < max(ends):
        probs.append(("certtable-overlaps-sections", "certificate table overlaps section data"))
    out, p = [], va
    while p + 8 <= va + size:
        ln, rev, typ = struct.unpack_from("<IHH", d, p)
        if ln < 8 or p + ln > va + size:
            probs.append(("wincert-length", "WIN_CERTIFICATE at %#x has dwLength %d beyond the table" % (p, ln)))
            break
        out.append((rev, typ, d[p + 8:p + ln]))
        p += (ln + 7) & ~7
    if p != va + size:
        probs.append(("certtable-size", "certificate table entries do not fill the table exactly (%d != %d)" % (p, va + size)))
    return out, probs


def make_pe(plus=False, nsections=2, file_align=0x200, sect_sizes=None, overlay=b"", machine=None, hdr_gap=0, seed=1, dos_stub=0):
    """harness-owned generator of small well-formed PE images (PE32 / PE32+), sections contiguous in file order."""
    import random
    rnd = random.Random(seed)
    sect_sizes = sect_sizes or [file_align * (i + 1) for i in range(nsections)]
    nsections = len(sect_sizes)
    pe_off = 0x80 + dos_stub
    optsize = (112 if plus else 96) + 16 * 8
    hdr_end = pe_off + 24 + optsize + 40 * nsections
    size_of_headers = (hdr_end + file_align - 1) // file_align * file_align + hdr_gap * file_align
    if machine is None:
        machine = 0x8664 if plus else 0x14c
    dos = bytearray(b"MZ" + bytes(rnd.randrange(256) for _ in range(pe_off - 2)))
    struct.pack_into("<I", dos, 0x3c, pe_off)
    coff = b"PE\0\0" + struct.pack("<HHIIIHH", machine, nsections, 0x5f000000, 0, 0, optsize, 0x22 if plus else 0x102)
    salign = 0x2000 if pe_page_size(machine) == 8192 else 0x1000
    rva, ptr, secs, body = salign, size_of_headers, b"", b""
    for i, sz in enumerate(sect_sizes):
        data = bytes(rnd.randrange(256) for _ in range(sz))
        secs += struct.pack("<8sIIIIIIHHI", (".s%d" % i).encode(), max(sz, 1), rva, sz, ptr if sz else 0, 0, 0, 0, 0, 0x60000020)
        body += data
        ptr += sz
        rva += (max(sz, 1) + salign - 1) // salign * salign
    if plus:
        opt = struct.pack("<HBBIIIIIQIIHHHHHHIIIIHHQQQQII", 0x20b, 14, 0, 0x200, 0x200, 0, salign, salign, 0x140000000, salign, file_align,
                          6, 0, 0, 0, 6, 0, 0, rva, size_of_headers, 0xdeadbeef, 3, 0x8160, 0x100000, 0x1000, 0x100000, 0x1000, 0, 16)
    else:
        opt = struct.pack("<HBBIIIIIIIIIHHHHHHIIIIHHIIIIII", 0x10b, 14, 0, 0x200, 0x200, 0, salign, salign, salign, 0x400000, salign, file_align,
                          6, 0, 0, 0, 6, 0, 0, rva, size_of_headers, 0xdeadbeef, 3, 0x8140, 0x100000, 0x1000, 0x100000, 0x1000, 0, 16)
    dds = bytearray(16 * 8)
    struct.pack_into("<II", dds, 8, salign, 0x40)     # an import directory, just to have non-zero entries around entry 4
    struct.pack_into("<II", dds, 5 * 8, salign, 0x10)
    hdr = bytes(dos) + coff + opt + bytes(dds) + secs
    assert len(opt) + len(dds) == optsize, (len(opt), optsize)
    pad = bytes(rnd.randrange(1, 256) for _ in range(size_of_headers - len(hdr))) if hdr_gap else b"\0" * (size_of_headers - len(hdr))
    return hdr + pad + body + overlay


# ---------------------------------------------------------------------------------------------------- CAB
def cab_parse(d):
    if d[:4] != b"MSCF":
        raise RefError("not a cabinet")
    (res1, cb, res2, coff, res3, vmin, vmaj, nfold, nfiles, flags, setid, icab) = struct.unpack_from("<IIIIIBBHHHHH", d, 4)
    p = 36
    out = {"cbCabinet": cb, "coffFiles": coff, "nfolders": nfold, "nfiles": nfiles, "flags": flags, "setID": setid, "iCabinet": icab,
           "reserved": (res1, res2, res3), "cbCFHeader": 0, "cbCFFolder": 0, "cbCFData": 0, "abReserve": b""}
    if flags & 4:
        out["cbCFHeader"], out["cbCFFolder"], out["cbCFData"] = struct.unpack_from("<HBB", d, p)
        p += 4
        out["abReserve"] = d[p:p + out["cbCFHeader"]]
        p += out["cbCFHeader"]
    if flags & 3:
        raise RefError("multi-part cabinets not generated here")
    out["folders_off"] = p
    folders = []
    for i in range(nfold):
        off, ndata, comp = struct.unpack_from("<IHH", d, p)
        folders.append({"coffCabStart": off, "cCFData": ndata, "typeCompress": comp})
        p += 8 + out["cbCFFolder"]
    out["folders"] = folders
    files, p = [], coff
    for i in range(nfiles):
        size, uoff, ifold, date, time_, attr = struct.unpack_from("<IIHHHH", d, p)
        e = d.index(b"\0", p + 16)
        files.append({"size": size, "uoff": uoff, "folder": ifold, "name": d[p + 16:e]})
        p = e + 1
    out["files"], out["files_end"] = files, p
    return out


def cab_datablock_checksum(data, seed=0):
    """MS-CAB CFDATA checksum"""
    csum = seed
    n = len(data) // 4
    for (v,) in struct.iter_unpack("<I", data[:4 * n]):
        csum ^= v
    rem = data[4 * n:]
    ul = 0
    if len(rem) == 3:
        ul = (rem[0] << 16) | (rem[1] << 8) | rem[2]
    elif len(rem) == 2:
        ul = (rem[0] << 8) | rem[1]
    elif len(rem) == 1:
        ul = rem[0]
    return csum ^ ul


def cab_payload(d):
    """files and the verified data blocks of each folder, as a reader sees them; raises when the structure is broken"""
    c = cab_parse(d)
    blocks = []
    for f in c["folders"]:
        p, fb = f["coffCabStart"], []
        for i in range(f["cCFData"]):
            csum, cbdata, cbuncomp = struct.unpack_from("<IHH", d, p)
            q = p + 8 + c["cbCFData"]
            data = d[q:q + cbdata]
            if len(data) != cbdata or q + cbdata > c["cbCabinet"]:
                raise RefError("CFDATA block beyond the cabinet")
            if csum != 0:
                want = cab_datablock_checksum(d[p + 4:p + 8 + c["cbCFData"]], cab_datablock_checksum(data))
                if want != csum:
                    raise RefError("CFDATA checksum mismatch at %#x" % p)
            fb.append(data)
            p = q + cbdata
        blocks.append(fb)
    return {"files": [(f["name"], f["size"], f["uoff"], f["folder"]) for f in c["files"]], "blocks": blocks}


def cab_signature(d):
    """(pkcs7 blob incl. padding, problems)"""
    c = cab_parse(d)
    probs = []
    if not c["flags"] & 4:
        return None, [("no-reserve", "cabinet has no reserve area")]
    if c["cbCFHeader"] != 20 or c["cbCFFolder"] or c["cbCFData"]:
        probs.append(("reserve-layout", "reserve sizes header=%d folder=%d data=%d, signtool layout is 20/0/0" % (c["cbCFHeader"], c["cbCFFolder"], c["cbCFData"])))
    u1, sigoff, sigsize, u2, u3 = struct.unpack("<IIIII", c["abReserve"][:20])
    if sigoff != c["cbCabinet"]:
        probs.append(("sig-offset", "signature offset %d != cbCabinet %d" % (sigoff, c["cbCabinet"])))
    if sigoff + sigsize != len(d):
        probs.append(("sig-not-at-eof", "signature [%d,+%d) does not end at EOF %d" % (sigoff, sigsize, len(d))))
    if c["files_end"] > c["folders"][0]["coffCabStart"] if c["folders"] else False:
        probs.append(("cffile-overlap", "CFFILE table overlaps first data block"))
    return d[sigoff:sigoff + sigsize], probs


def cab_digest(d, alg):
    """digest of a signed cabinet: header fields except reserved1 and iCabinet, not the reserve sizes, of the 20-byte reserve only the last
    four bytes; then CFFOLDER entries and everything up to the signature."""
    c = cab_parse(d)
    if not c["flags"] & 4 or c["cbCFHeader"] != 20:
        raise RefError("not a signed cabinet layout")
    sigoff = struct.unpack_from("<I", c["abReserve"], 4)[0]
    h = hashlib.new(alg)
    h.update(d[0:4])
    h.update(d[8:34])          # cbCabinet .. setID
    h.update(d[56:60])
    h.update(d[60:sigoff])
    return h.digest()


def make_cab(files, nfolders=1, set_id=0x1234, reserved=(0, 0, 0), icab=0, seed=3, block=0x8000, reserve=None):
    """uncompressed cabinet written from MS-CAB: files = [(name, bytes)], spread round-robin over the folders"""
    per = [[] for _ in range(nfolders)]
    for i, f in enumerate(files):
        per[i % nfolders].append(f)
    flags = 4 if reserve is not None else 0
    hdrsize = 36 + ((4 + len(reserve)) if reserve is not None else 0)
    cffiles = b""
    datas = []
    for fi, fl in enumerate(per):
        stream = b"".join(x[1] for x in fl)
        uoff = 0
        for name, content in fl:
            cffiles += struct.pack("<IIHHHH", len(content), uoff, fi, 0x5000 + fi, 0x6000, 0x20) + name + b"\0"
            uoff += len(content)
        blocks = b""
        n = 0
        for p in range(0, len(stream), block):
            chunk = stream[p:p + block]
            hdr = struct.pack("<HH", len(chunk), len(chunk))
            blocks += struct.pack("<I", cab_datablock_checksum(hdr, cab_datablock_checksum(chunk))) + hdr + chunk
            n += 1
        datas.append((n, blocks))
    coff = hdrsize + 8 * nfolders
    pos = coff + len(cffiles)
    folders = b""
    for n, blocks in datas:
        folders += struct.pack("<IHH", pos, n, 0)
        pos += len(blocks)
    total = pos
    hdr = b"MSCF" + struct.pack("<IIIIIBBHHHHH", reserved[0], total, reserved[1], coff, reserved[2], 3, 1, nfolders, len(files), flags, set_id, icab)
    if reserve is not None:
        hdr += struct.pack("<HBB", len(reserve), 0, 0) + reserve
    return hdr + folders + cffiles + b"".join(b for _, b in datas)


# ---------------------------------------------------------------------------------------------------- CFB / MSI
FREESECT, ENDOFCHAIN, FATSECT, DIFSECT, NOSTREAM = 0xffffffff, 0xfffffffe, 0xfffffffd, 0xfffffffc, 0xffffffff
MSI_SIG, MSI_SIGEX = "\x05DigitalSignature", "\x05MsiDigitalSignatureEx"


class CFB:
    """reader for MS-CFB compound files (v3 and v4)"""

    def __init__(self, d):
        self.d = d
        if d[:8] != bytes.fromhex("d0cf11e0a1b11ae1"):
            raise RefError("not a compound file")
        (self.minor, self.major, bo, ss, mss) = struct.unpack_from("<HHHHH", d, 24)
        self.ss, self.mss = 1 << ss, 1 << mss
        (ndirsect, nfat, dirstart, _, self.minicut, minifat, nminifat, difat, ndifat) = struct.unpack_from("<IIIIIIIII", d, 40)
        difat_list = list(struct.unpack_from("<109I", d, 76))
        s, guard = difat, 0
        while s not in (ENDOFCHAIN, FREESECT) and guard < 100000:
            vals = struct.unpack_from("<%dI" % (self.ss // 4), d, self._off(s))
            difat_list += vals[:-1]
            s = vals[-1]
            guard += 1
        self.fat = []
        for s in difat_list:
            if s == FREESECT:
                continue
            self.fat += struct.unpack_from("<%dI" % (self.ss // 4), d, self._off(s))
        self.fat = self.fat
        dirbytes = self._chain(dirstart)
        self.entries = []
        for i in range(0, len(dirbytes) - 127, 128):
            raw = dirbytes[i:i + 128]
            namelen = struct.unpack_from("<H", raw, 64)[0]
            typ, color, left, right, child = struct.unpack_from("<BBIII", raw, 66)
            clsid = raw[80:96]
            state, ctime, mtime, start, size = struct.unpack_from("<IQQIQ", raw, 96)
            if self.major == 3:
                size &= 0xffffffff
            self.entries.append({"raw": raw, "namelen": namelen, "namebytes": raw[:namelen] if 0 < namelen <= 64 else b"",
                                 "name": raw[:max(namelen - 2, 0)].decode("utf-16-le", "replace") if namelen else "", "type": typ, "left": left, "right": right,
                                 "child": child, "clsid": clsid, "start": start, "size": size, "id": i // 128})
        self.minifat = struct.unpack("<%dI" % (len(self._chain(minifat)) // 4), self._chain(minifat)) if nminifat and minifat != ENDOFCHAIN else ()
        root = self.entries[0]
        self.ministream = self._chain(root["start"])[:root["size"]] if root["start"] != ENDOFCHAIN else b""

    def _off(self, sect):
        return (sect + 1) * self.ss

    def _chain(self, start):
        out, s, n = [], start, 0
        while s != ENDOFCHAIN:
            if s >= len(self.fat) or n > len(self.fat):
                raise RefError("broken FAT chain at sector %#x" % s)
            out.append(self.d[self._off(s):self._off(s) + self.ss])
            s = self.fat[s]
            n += 1
        return b"".join(out)

    def stream(self, e):
        if e["size"] < self.minicut and e["type"] == 2:
            out, s, n = [], e["start"], 0
            while s != ENDOFCHAIN and e["size"] > 0:
                if s >= len(self.minifat) or n > len(self.minifat):
                    raise RefError("broken mini FAT chain")
                out.append(self.ministream[s * self.mss:(s + 1) * self.mss])
                s = self.minifat[s]
                n += 1
            data = b"".join(out)
        else:
            data = self._chain(e["start"]) if e["size"] else b""
        if len(data) < e["size"]:
            raise RefError("stream %r shorter than its size" % e["name"])
        return data[:e["size"]]

    def children(self, e):
        """in-order walk of the sibling tree under a storage"""
        out, seen = [], set()

        def walk(i):
            if i == NOSTREAM:
                return
            if i in seen or i >= len(self.entries):
                raise RefError("directory tree is not a tree")
            seen.add(i)
            x = self.entries[i]
            walk(x["left"])
            out.append(x)
            walk(x["right"])
        walk(e["child"])
        return out


def _msi_sort_key_cmp(a, b):
    # de-facto algorithm of msisip (as documented by osslsigncode dirent_cmp_hash): memcmp over the raw UTF-16LE name bytes
    # (terminator included) for the shorter length, on a tie the LONGER name first
    n = min(a["namelen"], b["namelen"])
    x, y = a["namebytes"][:n], b["namebytes"][:n]
    if x != y:
        return -1 if x < y else 1
    return -1 if a["namelen"] > b["namelen"] else (1 if a["namelen"] < b["namelen"] else 0)


def msi_sorted(children):
    import functools
    return sorted(children, key=functools.cmp_to_key(_msi_sort_key_cmp))


def msi_prehash(cfb, alg):
    h = hashlib.new(alg)

    def meta(e):
        if e["type"] != 5:
            h.update(e["namebytes"][:e["namelen"] - 2])
        if e["type"] in (5, 1):
            h.update(e["clsid"])
        if e["type"] == 2:
            h.update(e["raw"][120:124])
        h.update(e["raw"][96:100])
        if e["type"] != 5:
            h.update(e["raw"][100:116])

    def walk(st):
        meta(st)
        for c in msi_sorted(cfb.children(st)):
            if c["name"] in (MSI_SIG, MSI_SIGEX):
                continue
            if c["type"] == 2:
                meta(c)
            elif c["type"] == 1:
                walk(c)
    walk(cfb.entries[0])
    return h.digest()


def msi_digest(cfb, alg, prehash=None):
    h = hashlib.new(alg)
    if prehash is not None:
        h.update(prehash)

    def walk(st):
        for c in msi_sorted(cfb.children(st)):
            if c["name"] in (MSI_SIG, MSI_SIGEX):
                continue
            if c["type"] == 2:
                h.update(cfb.stream(c))
            elif c["type"] == 1:
                walk(c)
        h.update(st["clsid"])
    walk(cfb.entries[0])
    return h.digest()


def msi_payload(cfb):
    out = {}

    def walk(st, prefix):
        for c in cfb.children(st):
            if c["name"] in (MSI_SIG, MSI_SIGEX) and prefix == "":
                continue
            if c["type"] == 2:
                out[prefix + c["name"]] = hashlib.sha256(cfb.stream(c)).hexdigest()
            elif c["type"] == 1:
                out[prefix + c["name"] + "/"] = c["clsid"].hex()
                walk(c, prefix + c["name"] + "/")
    walk(cfb.entries[0], "")
    return out


def make_cfb(tree, root_clsid=b"\x0c\x10" + b"\0" * 6 + b"\xc0" + b"\0" * 6 + b"\x46", seed=5):
    """harness-owned MS-CFB v3 writer.  tree = list of (name, bytes) for streams or (name, [children], clsid) for storages.
    Sibling sets are written as a right-leaning chain in CFB order (length first, then upper-cased code units): a valid BST."""
    import random
    rnd = random.Random(seed)
    SS, MSS, CUT = 512, 64, 4096
    entries = []      # dicts

    def cfb_key(name):
        u = name.upper().encode("utf-16-le")
        return (len(u), [struct.unpack_from("<H", u, i)[0] for i in range(0, len(u), 2)])

    def add(name, typ, clsid=b"\0" * 16, data=b""):
        entries.append({"name": name, "type": typ, "clsid": clsid, "data": data, "left": NOSTREAM, "right": NOSTREAM, "child": NOSTREAM,
                        "state": rnd.randrange(1 << 32) if typ == 1 else 0,
                        "ctime": rnd.randrange(1 << 62) if typ == 1 else 0, "mtime": rnd.randrange(1 << 62) if typ == 1 else 0})
        return len(entries) - 1

    def build(parent, kids):
        ids = []
        for k in sorted(kids, key=lambda k: cfb_key(k[0])):
            if isinstance(k[1], (bytes, bytearray)):
                ids.append(add(k[0], 2, data=bytes(k[1])))
            else:
                i = add(k[0], 1, clsid=k[2] if len(k) > 2 else bytes(rnd.randrange(256) for _ in range(16)))
                ids.append(i)
                build(i, k[1])
        # balanced tree out of the sorted ids
        def mk(lo, hi):
            if lo >= hi:
                return NOSTREAM
            mid = (lo + hi) // 2
            entries[ids[mid]]["left"] = mk(lo, mid)
            entries[ids[mid]]["right"] = mk(mid + 1, hi)
            return ids[mid]
        entries[parent]["child"] = mk(0, len(ids))

    add("Root Entry", 5, clsid=root_clsid)
    build(0, tree)
    # allocate: big streams in sectors, small in mini stream
    sectors = []          # list of bytes(SS)
    fat = []

    def alloc(data):
        if not data:
            return ENDOFCHAIN
        first = len(sectors)
        n = (len(data) + SS - 1) // SS
        for i in range(n):
            sectors.append(data[i * SS:(i + 1) * SS].ljust(SS, b"\0"))
            fat.append(first + i + 1 if i + 1 < n else ENDOFCHAIN)
        return first
    mini, minifat = b"", []
    for e in entries[1:]:
        if e["type"] != 2:
            e["start"], e["size"] = 0, 0
            continue
        e["size"] = len(e["data"])
        if e["size"] == 0:
            e["start"] = ENDOFCHAIN
        elif e["size"] < CUT:
            first = len(minifat)
            n = (e["size"] + MSS - 1) // MSS
            for i in range(n):
                minifat.append(first + i + 1 if i + 1 < n else ENDOFCHAIN)
            mini += e["data"].ljust(n * MSS, b"\0")
            e["start"] = first
        else:
            e["start"] = alloc(e["data"])
    entries[0]["start"] = alloc(mini)
    entries[0]["size"] = len(mini)
    minifat_start = alloc(struct.pack("<%dI" % len(minifat), *minifat).ljust((len(minifat) * 4 + SS - 1) // SS * SS, b"\xff")) if minifat else ENDOFCHAIN
    nminifat = (len(minifat) * 4 + SS - 1) // SS if minifat else 0
    dirbytes = b""
    for e in entries:
        nb = e["name"].encode("utf-16-le") + b"\0\0"
        assert len(nb) <= 64
        dirbytes += nb.ljust(64, b"\0") + struct.pack("<HBBIII", len(nb), e["type"], 1, e["left"], e["right"], e["child"]) + e["clsid"] + \
            struct.pack("<IQQIQ", e["state"], e["ctime"], e["mtime"], e["start"] & 0xffffffff, e["size"])
    while len(dirbytes) % SS:
        dirbytes += b"\0" * 64 + struct.pack("<HBBIII", 0, 0, 0, NOSTREAM, NOSTREAM, NOSTREAM) + b"\0" * 16 + struct.pack("<IQQIQ", 0, 0, 0, 0, 0)
    dirstart = alloc(dirbytes)
    # FAT sectors: need n such that n*128 >= len(fat)+n
    nfat = 1
    while nfat * (SS // 4) < len(fat) + nfat:
        nfat += 1
    assert nfat <= 109
    fatstart = len(sectors)
    for i in range(nfat):
        fat.append(FATSECT)
    fat += [FREESECT] * (nfat * (SS // 4) - len(fat))
    fatbytes = struct.pack("<%dI" % len(fat), *fat)
    for i in range(nfat):
        sectors.append(fatbytes[i * SS:(i + 1) * SS])
    hdr = bytes.fromhex("d0cf11e0a1b11ae1") + b"\0" * 16 + struct.pack("<HHHHH", 0x3e, 3, 0xfffe, 9, 6) + b"\0" * 6 + \
        struct.pack("<IIIIIIIII", 0, nfat, dirstart, 0, CUT, minifat_start, nminifat, ENDOFCHAIN, 0)
    difat = [fatstart + i for i in range(nfat)] + [FREESECT] * (109 - nfat)
    hdr += struct.pack("<109I", *difat)
    assert len(hdr) == 512
    return hdr + b"".join(sectors)


# ---------------------------------------------------------------------------------------------------- APK v2
APK_V2_ID = 0x7109871a
APK_SIG_ALGS = {0x0101: ("rsa-pss", "sha256"), 0x0102: ("rsa-pss", "sha512"), 0x0103: ("rsa", "sha256"), 0x0104: ("rsa", "sha512"),
                0x0201: ("ecdsa", "sha256"), 0x0202: ("ecdsa", "sha512"), 0x0301: ("dsa", "sha256")}


def zip_eocd(d):
    """locate the End of Central Directory record the way the APK verifier does (comment length must fit exactly)"""
    for p in range(len(d) - 22, max(-1, len(d) - 22 - 65535 - 1), -1):
        if d[p:p + 4] == b"PK\x05\x06" and struct.unpack_from("<H", d, p + 20)[0] == len(d) - p - 22:
            disk, cddisk, n1, n2, cdsize, cdoff, clen = struct.unpack_from("<HHHHIIH", d, p + 4)
            return {"off": p, "cd_size": cdsize, "cd_off": cdoff, "entries": n2}
    raise RefError("no end of central directory record")


class _Buf:
    def __init__(self, b, what):
        self.b, self.p, self.what = b, 0, what

    def u32(self):
        if self.p + 4 > len(self.b):
            raise RefError("%s: too short for a uint32" % self.what)
        v = struct.unpack_from("<I", self.b, self.p)[0]
        self.p += 4
        return v

    def lp(self, what):
        n = self.u32()
        if self.p + n > len(self.b):
            raise RefError("%s: length-prefixed field %s (%d) overruns its container" % (self.what, what, n))
        v = self.b[self.p:self.p + n]
        self.p += n
        return v

    def more(self):
        return self.p < len(self.b)


def apk_v2_parse(d):
    """returns dict(block_off, cd_off, eocd, signers=[{signed_data, digests, certs, attrs, signatures, pubkey}])"""
    eocd = zip_eocd(d)
    cd_off = eocd["cd_off"]
    if cd_off + eocd["cd_size"] != eocd["off"]:
        raise RefError("central directory is not immediately followed by the end record")
    if cd_off < 32 or d[cd_off - 16:cd_off] != b"APK Sig Block 42":
        raise RefError("no APK Signing Block magic before the central directory")
    size2 = struct.unpack_from("<Q", d, cd_off - 24)[0]
    block_off = cd_off - size2 - 8
    if block_off < 0 or struct.unpack_from("<Q", d, block_off)[0] != size2:
        raise RefError("APK Signing Block sizes in header and footer differ")
    p, end, pairs = block_off + 8, cd_off - 24, {}
    while p < end:
        ln = struct.unpack_from("<Q", d, p)[0]
        if ln < 4 or p + 8 + ln > end:
            raise RefError("APK Signing Block pair overruns the block")
        pid = struct.unpack_from("<I", d, p + 8)[0]
        pairs.setdefault(pid, []).append(d[p + 12:p + 8 + ln])
        p += 8 + ln
    if APK_V2_ID not in pairs:
        raise RefError("no APK Signature Scheme v2 block")
    if len(pairs[APK_V2_ID]) != 1:
        raise RefError("several v2 blocks")
    top = _Buf(pairs[APK_V2_ID][0], "v2 block")
    signers_b = _Buf(top.lp("signers"), "signers")
    if top.more():
        raise RefError("trailing data after the signers sequence")
    signers = []
    while signers_b.more():
        sb = _Buf(signers_b.lp("signer"), "signer")
        signed_data = sb.lp("signed data")
        sigs_b = _Buf(sb.lp("signatures"), "signatures")
        pubkey = sb.lp("public key")
        if sb.more():
            raise RefError("trailing data in signer")
        sigs = []
        while sigs_b.more():
            one = _Buf(sigs_b.lp("signature"), "signature")
            sid = one.u32()
            sigs.append((sid, one.lp("signature value")))
        sdb = _Buf(signed_data, "signed data")
        dig_b = _Buf(sdb.lp("digests"), "digests")
        certs_b = _Buf(sdb.lp("certificates"), "certificates")
        attrs = sdb.lp("additional attributes")        # the platform verifier requires this field to be present
        digests = []
        while dig_b.more():
            one = _Buf(dig_b.lp("digest"), "digest")
            did = one.u32()
            digests.append((did, one.lp("digest value")))
        certs = []
        while certs_b.more():
            certs.append(certs_b.lp("certificate"))
        signers.append({"signed_data": signed_data, "digests": digests, "certs": certs, "attrs": attrs, "signatures": sigs, "pubkey": pubkey})
    if not signers:
        raise RefError("no signers")
    return {"block_off": block_off, "cd_off": cd_off, "eocd": eocd, "signers": signers, "pair_ids": sorted(pairs)}


def apk_v2_digest(d, alg, info=None):
    info = info or apk_v2_parse(d)
    eocd = bytearray(d[info["eocd"]["off"]:])
    struct.pack_into("<I", eocd, 16, info["block_off"])
    sections = [d[:info["block_off"]], d[info["cd_off"]:info["eocd"]["off"]], bytes(eocd)]
    chunks = []
    for s in sections:
        for p in range(0, len(s), 1 << 20):
            c = s[p:p + (1 << 20)]
            chunks.append(H(alg, b"\xa5", struct.pack("<I", len(c)), c))
    return H(alg, b"\x5a", struct.pack("<I", len(chunks)), b"".join(chunks))


# ---------------------------------------------------------------------------------------------------- JAR
def jar_split_sections(mf):
    """JAR spec: sections are separated by empty lines; returns the raw byte ranges (each including its terminating blank line)"""
    out, p, n = [], 0, len(mf)
    start = 0
    while p < n:
        # find end of line
        e = p
        while e < n and mf[e] not in b"\r\n":
            e += 1
        eol = e
        if e < n and mf[e:e + 2] == b"\r\n":
            e += 2
        elif e < n:
            e += 1
        if eol == p:          # empty line ends a section
            if p > start:
                out.append(mf[start:e])
            start = e
        p = e
    if start < n:
        out.append(mf[start:])
    return out


def jar_parse_section(sec):
    """-> ordered list of (name, value) with continuation lines joined (bytes level), and the max physical line length incl. EOL"""
    lines, maxlen = [], 0
    for ln in sec.splitlines(keepends=True):
        maxlen = max(maxlen, len(ln))
        body = ln.rstrip(b"\r\n")
        if not body:
            continue
        if body[:1] == b" ":
            if not lines:
                raise RefError("continuation line without a header")
            lines[-1] += body[1:]
        else:
            lines.append(body)
    out = []
    for l in lines:
        k, sep, v = l.partition(b": ")
        if not sep:
            raise RefError("manifest line without ': ' separator: %r" % l[:40])
        out.append((k.decode("utf-8"), v.decode("utf-8")))
    return out, maxlen


def jar_check(path, want_alg=None):
    """Independent re-computation of what the JAR specification prescribes for a signed JAR.
    returns (facts dict, problems list)"""
    probs = []
    z = zipfile.ZipFile(path)
    names = z.namelist()
    bad = z.testzip()
    if bad:
        probs.append(("zip-crc", "zip CRC failure in " + bad))
    if len(set(names)) != len(names):
        probs.append(("duplicate-entries", "duplicate zip entries: %s" % sorted(n for n in set(names) if names.count(n) > 1)[:3]))
    mf = z.read("META-INF/MANIFEST.MF")
    sfs = [n for n in names if n.upper().startswith("META-INF/") and n.upper().endswith(".SF") and n.count("/") == 1]
    blocks = [n for n in names if n.upper().startswith("META-INF/") and n.count("/") == 1 and n.upper().rsplit(".", 1)[-1] in ("RSA", "DSA", "EC")]
    facts = {"sf": sfs, "blocks": blocks, "entries": len(names)}
    if len(sfs) != 1 or len(blocks) != 1:
        probs.append(("sf-block-count", "expected exactly one .SF and one signature block, found %s %s" % (sfs, blocks)))
        return facts, probs
    if sfs[0].rsplit(".", 1)[0] != blocks[0].rsplit(".", 1)[0]:
        probs.append(("sf-block-names", "signature file and block base names differ"))
    sf = z.read(sfs[0])
    facts["sf_bytes"], facts["block_bytes"], facts["manifest"] = sf, z.read(blocks[0]), mf
    msecs = jar_split_sections(mf)
    ssecs = jar_split_sections(sf)
    maxline = 0
    parsed_m = []
    for s in msecs:
        kv, ml = jar_parse_section(s)
        maxline = max(maxline, ml)
        parsed_m.append(kv)
    parsed_s = []
    for s in ssecs:
        kv, ml = jar_parse_section(s)
        maxline = max(maxline, ml)
        parsed_s.append(kv)
    if maxline > 72:
        probs.append(("line-too-long", "a manifest/signature-file line is %d bytes long including its line ending; the JAR specification allows 72" % maxline))
    if not mf.endswith(b"\n") or not sf.endswith(b"\n"):
        probs.append(("no-final-newline", "manifest or signature file does not end with a line terminator"))
    main_m = dict((k.lower(), v) for k, v in parsed_m[0])
    if "manifest-version" not in main_m:
        probs.append(("no-manifest-version", "manifest main section lacks Manifest-Version"))
    main_s = dict((k.lower(), v) for k, v in parsed_s[0])
    if "signature-version" not in main_s:
        probs.append(("no-signature-version", ".SF main section lacks Signature-Version"))
    # manifest per-entry sections
    msec_by_name = {}
    for raw, kv in zip(msecs[1:], parsed_m[1:]):
        d = dict((k.lower(), v) for k, v in kv)
        if "name" not in d:
            probs.append(("manifest-section-without-name", "manifest section without Name"))
            continue
        if d["name"] in msec_by_name:
            probs.append(("duplicate-manifest-section", "duplicate manifest section for " + d["name"]))
        msec_by_name[d["name"]] = (raw, d)
    algs = set()
    for k in main_s:
        if k.endswith("-digest-manifest"):
            algs.add(k[:-len("-digest-manifest")])
        if k.endswith("-digest-manifest-main-attributes"):
            algs.add(k[:-len("-digest-manifest-main-attributes")])
    facts["algs"] = sorted(algs)
    pyalg = lambda a: a.replace("-", "").lower()
    if want_alg and sorted(pyalg(a) for a in algs) != [want_alg]:
        probs.append(("digest-alg", "signature file uses digest algorithms %s, requested %s" % (sorted(algs), want_alg)))
    for k, v in main_s.items():
        if k.endswith("-digest-manifest"):
            a = pyalg(k[:-len("-digest-manifest")])
            if base64.b64encode(H(a, mf)).decode() != v:
                probs.append(("sf-manifest-digest", "%s in .SF != digest of the whole manifest" % k))
        elif k.endswith("-digest-manifest-main-attributes"):
            a = pyalg(k[:-len("-digest-manifest-main-attributes")])
            if base64.b64encode(H(a, msecs[0])).decode() != v:
                probs.append(("sf-main-attributes-digest", "%s in .SF != digest of the manifest main section bytes" % k))
    facts["has_whole_manifest_digest"] = any(k.endswith("-digest-manifest") for k in main_s)
    sf_names = set()
    for kv in parsed_s[1:]:
        d = dict((k.lower(), v) for k, v in kv)
        nm = d.get("name")
        if nm is None:
            probs.append(("sf-section-without-name", ".SF section without Name"))
            continue
        sf_names.add(nm)
        if nm not in msec_by_name:
            probs.append(("sf-names-unknown-entry", ".SF names %r which has no manifest section" % nm))
            continue
        nd = 0
        for k, v in d.items():
            if k.endswith("-digest"):
                nd += 1
                if base64.b64encode(H(pyalg(k[:-7]), msec_by_name[nm][0])).decode() != v:
                    probs.append(("sf-section-digest", ".SF %s for %r != digest of the manifest section bytes" % (k, nm)))
        if nd == 0:
            probs.append(("sf-section-no-digest", ".SF section for %r has no digest" % nm))
    # every payload entry: manifest section with a correct digest, and covered by the .SF
    covered = 0
    for n in names:
        if n.endswith("/"):
            continue
        up = n.upper()
        if up.startswith("META-INF/") and n.count("/") == 1 and (up == "META-INF/MANIFEST.MF" or up.rsplit(".", 1)[-1] in ("SF", "RSA", "DSA", "EC") or up[9:].startswith("SIG-")):
            continue
        if n not in msec_by_name:
            probs.append(("entry-not-in-manifest", "entry %r has no manifest section" % n))
            continue
        if n not in sf_names:
            probs.append(("entry-not-in-sf", "entry %r is not listed in the signature file" % n))
        d = msec_by_name[n][1]
        nd = 0
        data = z.read(n)
        for k, v in d.items():
            if k.endswith("-digest") and "-digest-" not in k:
                a = pyalg(k[:-7])
                try:
                    got = base64.b64encode(H(a, data)).decode()
                except ValueError:
                    continue
                nd += 1
                if got != v:
                    probs.append(("manifest-entry-digest", "manifest %s of %r != digest of the entry's contents" % (k, n)))
        if nd == 0:
            probs.append(("manifest-entry-no-digest", "manifest section of %r has no digest" % n))
        covered += 1
    facts["covered"] = covered
    return facts, probs


# ---------------------------------------------------------------------------------------------------- APPX
def zip_central(d):
    """central directory as raw entries: returns dict(entries=[{name, raw, lfh_off, method, csize, usize}], cd_off, cd_size, eocd_off, z64 (offset of the
    zip64 EOCD record or None), z64loc (offset of the locator or None))"""
    e = d.rfind(b"PK\x05\x06")
    if e < 0:
        raise RefError("no end of central directory")
    n16, cdsize, cdoff = struct.unpack_from("<HII", d, e + 10)
    out = {"eocd_off": e, "z64": None, "z64loc": None}
    count = n16
    if d[e - 20:e - 16] == b"PK\x06\x07":
        out["z64loc"] = e - 20
        z = struct.unpack_from("<Q", d, e - 20 + 8)[0]
        if d[z:z + 4] != b"PK\x06\x06":
            raise RefError("zip64 locator does not point at a zip64 end record")
        out["z64"] = z
        count, cdsize, cdoff = struct.unpack_from("<QQQ", d, z + 32)
    out["cd_off"], out["cd_size"] = cdoff, cdsize
    p, entries = cdoff, []
    for i in range(count):
        if d[p:p + 4] != b"PK\x01\x02":
            raise RefError("bad central directory entry %d" % i)
        method, = struct.unpack_from("<H", d, p + 10)
        csize, usize, nlen, xlen, clen = struct.unpack_from("<IIHHH", d, p + 20)
        lfh = struct.unpack_from("<I", d, p + 42)[0]
        name = d[p + 46:p + 46 + nlen]
        extra = d[p + 46 + nlen:p + 46 + nlen + xlen]
        q = 0
        while q + 4 <= len(extra):
            hid, hsz = struct.unpack_from("<HH", extra, q)
            if hid == 1:
                vals = extra[q + 4:q + 4 + hsz]
                r = 0
                if usize == 0xffffffff:
                    usize = struct.unpack_from("<Q", vals, r)[0]
                    r += 8
                if csize == 0xffffffff:
                    csize = struct.unpack_from("<Q", vals, r)[0]
                    r += 8
                if lfh == 0xffffffff:
                    lfh = struct.unpack_from("<Q", vals, r)[0]
            q += 4 + hsz
        size = 46 + nlen + xlen + clen
        entries.append({"name": name.decode("utf-8", "replace"), "raw": d[p:p + size], "lfh_off": lfh, "method": method, "csize": csize, "usize": usize})
        p += size
    if p != cdoff + cdsize:
        raise RefError("central directory size does not match its entries")
    out["entries"] = entries
    return out


def appx_reference(d, alg):
    """APPX signature digests as the AppxSip computes them (documented by osslsigncode appx.c): returns (blob 'APPX'+'AXPC'..., facts)"""
    c = zip_central(d)
    if c["z64"] is None:
        raise RefError("APPX packages carry a zip64 end of central directory record")
    ents = c["entries"]
    if not ents or ents[-1]["name"] != "AppxSignature.p7x":
        raise RefError("AppxSignature.p7x is not the last entry")
    sig_off = ents[-1]["lfh_off"]
    z = zipfile.ZipFile(io.BytesIO(d))
    axpc = H(alg, d[:sig_off])
    cd2 = b"".join(e["raw"] for e in ents[:-1])
    z64 = bytearray(d[c["z64"]:c["z64loc"]])
    struct.pack_into("<QQQQ", z64, 24, len(ents) - 1, len(ents) - 1, len(cd2), sig_off)
    loc = bytearray(d[c["z64loc"]:c["eocd_off"]])
    struct.pack_into("<Q", loc, 8, sig_off + len(cd2))
    eocd = bytearray(d[c["eocd_off"]:])
    n1, n2, cs, co = struct.unpack_from("<HHII", eocd, 8)
    if n1 != 0xffff:
        struct.pack_into("<H", eocd, 8, n1 - 1)
    if n2 != 0xffff:
        struct.pack_into("<H", eocd, 10, n2 - 1)
    if cs != 0xffffffff:
        struct.pack_into("<I", eocd, 12, len(cd2))
    if co != 0xffffffff:
        struct.pack_into("<I", eocd, 16, sig_off)
    axcd = H(alg, cd2, bytes(z64), bytes(loc), bytes(eocd))
    blob = b"APPX" + b"AXPC" + axpc + b"AXCD" + axcd + b"AXCT" + H(alg, z.read("[Content_Types].xml")) + b"AXBM" + H(alg, z.read("AppxBlockMap.xml"))
    names = [e["name"] for e in ents]
    if "AppxMetadata/CodeIntegrity.cat" in names:
        blob += b"AXCI" + H(alg, z.read("AppxMetadata/CodeIntegrity.cat"))
    return blob, {"entries": len(ents), "sig_off": sig_off}


def appx_blockmap_check(d):
    """every File of AppxBlockMap.xml against the package: size, local-header size, SHA-2 hashes of the 64 KiB blocks"""
    import re
    from urllib.parse import unquote
    z = zipfile.ZipFile(io.BytesIO(d))
    bm = z.read("AppxBlockMap.xml").decode("utf-8")
    m = re.search(r'HashMethod="[^"#]*#([a-z0-9]+)"', bm)
    alg = m.group(1) if m else "sha256"
    byname = {unquote(i.filename): i for i in z.infolist()}
    probs, nblocks, listed = [], 0, set()
    for fm in re.finditer(r'<File\b([^>]*?)(/>|>(.*?)</File>)', bm, flags=re.S):
        attrs = dict(re.findall(r'(\w+)="([^"]*)"', fm.group(1)))
        name = attrs.get("Name", "").replace("\\", "/").replace("&amp;", "&")
        listed.add(name)
        zi = byname.get(name)
        if zi is None:
            probs.append(("blockmap-unknown-file", "block map lists %r which is not in the package" % name))
            continue
        data = z.read(zi)
        if int(attrs.get("Size", -1)) != len(data):
            probs.append(("blockmap-size", "block map Size %s of %r, actual %d" % (attrs.get("Size"), name, len(data))))
        nlen, xlen = struct.unpack_from("<HH", d, zi.header_offset + 26)
        if int(attrs.get("LfhSize", -1)) != 30 + nlen + xlen:
            probs.append(("blockmap-lfhsize", "block map LfhSize %s of %r, local header is %d bytes" % (attrs.get("LfhSize"), name, 30 + nlen + xlen)))
        hashes = re.findall(r'<Block\b[^>]*Hash="([^"]+)"', fm.group(3) or "")
        want = [base64.b64encode(H(alg, data[p:p + 65536])).decode() for p in range(0, len(data), 65536)]
        nblocks += len(want)
        if hashes != want:
            probs.append(("blockmap-block-hash", "block hashes of %r differ from the %s of its 64 KiB blocks (%d listed, %d expected)" % (name, alg, len(hashes), len(want))))
    for n in byname:
        if n not in listed and not n.endswith("/") and n not in ("AppxBlockMap.xml", "AppxSignature.p7x", "[Content_Types].xml", "AppxMetadata/CodeIntegrity.cat"):
            probs.append(("blockmap-missing-file", "package file %r is not in the block map" % n))
    return probs, nblocks
