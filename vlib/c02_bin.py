# C02 helper: independent readers and protected views for the binary container formats, written from the published
# format descriptions (nothing here uses relic):
#   PE/COFF Authenticode ("Windows Authenticode Portable Executable Signature Format", Microsoft 2008),
#   CAB (MS-CAB header; Authenticode-for-CAB hashing rules as documented by osslsigncode / wintrust behaviour),
#   PowerShell script signatures (SIP for .ps1/.psm1/.psd1/.ps1xml/.mof: signature block comment at end of file),
#   MSI / compound file binary (MS-CFB) with \5DigitalSignature and \5MsiDigitalSignatureEx,
#   Mach-O embedded code signatures, DMG (UDIF koly trailer) and XAR (Apple code signing / xar documentation).
import base64, binascii, hashlib, re, struct, zlib
from vlib import c02_der
from vlib.c02_xml import fill


class FmtError(Exception):
    pass


def _cms(blob):
    v = c02_der.cms_view(blob)
    if v is None:
        raise FmtError("signature blob unparseable")
    return v


# ------------------------------------------------------------------------------------------------ PE
def pe_layout(b):
    if len(b) < 0x40 or b[:2] != b"MZ":
        raise FmtError("no MZ")
    pe = struct.unpack_from("<I", b, 0x3c)[0]
    if pe + 24 > len(b) or b[pe:pe + 4] != b"PE\0\0":
        raise FmtError("no PE header")
    nsec, = struct.unpack_from("<H", b, pe + 6)
    optsz, = struct.unpack_from("<H", b, pe + 20)
    opt = pe + 24
    magic, = struct.unpack_from("<H", b, opt)
    if magic == 0x10b:
        dd = opt + 96
    elif magic == 0x20b:
        dd = opt + 112
    else:
        raise FmtError("bad optional header magic")
    nrva, = struct.unpack_from("<I", b, dd - 4)
    if nrva < 5:
        raise FmtError("no certificate table directory entry")
    cksum = opt + 64
    certdir = dd + 4 * 8
    if certdir + 8 > len(b):
        raise FmtError("truncated header")
    coff, csize = struct.unpack_from("<II", b, certdir)
    return {"pe": pe, "opt": opt, "cksum": cksum, "certdir": certdir, "certoff": coff, "certsize": csize, "sections": opt + optsz, "nsec": nsec}


def pe_view(b):
    """Authenticode: the image hash covers the whole file except the CheckSum field, the Certificate Table data-directory entry
    and the attribute certificate table itself; the table must be what the directory entry says. Inside the table each
    WIN_CERTIFICATE's PKCS#7 blob is protected as a CMS (content = SpcIndirectData with the image digest); the 8-byte
    alignment padding after a certificate is not."""
    try:
        L = pe_layout(b)
        co, cs = L["certoff"], L["certsize"]
        if co == 0 or cs == 0:
            return None
        if co + cs > len(b) or co < L["certdir"] + 8:
            return None
        certs = []
        p = co
        while p + 8 <= co + cs:
            ln, rev, typ = struct.unpack_from("<IHH", b, p)
            if ln < 8 or p + ln > co + cs:
                raise FmtError("bad WIN_CERTIFICATE length")
            certs.append(_cms(bytes(b[p + 8:p + ln])))
            p += (ln + 7) & ~7
        if not certs:
            return None
        h = hashlib.sha256()
        for s, e in ((0, L["cksum"]), (L["cksum"] + 4, L["certdir"]), (L["certdir"] + 8, co), (co + cs, len(b))):
            h.update(bytes(b[s:e]))
            h.update(b"|%d|" % (e - s))
        return ("pe", h.digest(), tuple(certs))
    except (FmtError, struct.error):
        return None


def pe_regions(b):
    L = pe_layout(b)
    r = [(0, L["pe"], "dos-stub"), (L["pe"], L["cksum"], "pe-header"), (L["cksum"], L["cksum"] + 4, "checksum"), (L["cksum"] + 4, L["certdir"], "pe-header"),
         (L["certdir"], L["certdir"] + 8, "certtable-direntry"), (L["certdir"] + 8, L["sections"], "data-directories"),
         (L["sections"], L["sections"] + 40 * L["nsec"], "section-table")]
    for i in range(L["nsec"]):
        s = L["sections"] + 40 * i
        name = bytes(b[s:s + 8]).rstrip(b"\0").decode("latin-1")
        rawsz, rawptr = struct.unpack_from("<II", b, s + 16)
        if rawptr and rawptr + rawsz <= len(b):
            r.append((rawptr, rawptr + rawsz, "section:" + name))
    co, cs = L["certoff"], L["certsize"]
    if co and co + cs <= len(b):
        p = co
        while p + 8 <= co + cs:
            ln, = struct.unpack_from("<I", b, p)
            if ln < 8 or p + ln > co + cs:
                break
            r.append((p, p + 8, "wincert-header"))
            r += cms_regions(b, p + 8, p + ln)
            if (ln + 7) & ~7 > ln:
                r.append((p + ln, min(p + ((ln + 7) & ~7), co + cs), "wincert-padding"))
            p += (ln + 7) & ~7
    return fill(_dedup(r), len(b), "gap")


def _dedup(r):
    """drop regions overlapping an earlier one (keeps first)"""
    out = []
    for s, e, l in sorted(r, key=lambda t: (t[0], -t[1])):
        if out and s < out[-1][1]:
            if e <= out[-1][1]:
                continue
            s = out[-1][1]
        if s < e:
            out.append((s, e, l))
    return out


def cms_regions(b, s, e):
    """label the protected components of a CMS blob located at b[s:e]"""
    try:
        c = c02_der.CMS(bytes(b[s:e]))
    except (c02_der.DerError, IndexError, AttributeError):
        return [(s, e, "cms")]
    r = [(s + a, s + z, "cms-" + what) for a, z, what in c.protected_ranges()]
    return fill(_dedup(r), e - s, "cms-other") if False else _shift(fill(_dedup([(a - s, z - s, l) for a, z, l in r]), e - s, "cms-other"), s)


def _shift(regs, d):
    return [(a + d, z + d, l) for a, z, l in regs]


# ------------------------------------------------------------------------------------------------ CAB
def cab_layout(b):
    if b[:4] != b"MSCF" or len(b) < 60:
        raise FmtError("not a cabinet")
    flags, = struct.unpack_from("<H", b, 30)
    if not flags & 4:
        raise FmtError("no reserve area: unsigned")
    cbhdr, cbfolder, cbdata = struct.unpack_from("<HBB", b, 36)
    if cbhdr < 20:
        raise FmtError("reserve too small for a signature")
    marker, sigoff, sigsize = struct.unpack_from("<III", b, 40)
    return sigoff, sigsize


def cab_view(b):
    """signed cabinet: the Authenticode digest covers the header except reserved1 (4..8), iCabinet (34..36), the first 4 bytes of
    the per-cabinet reserve (40..44), the signature size (48..52) and the following 4 reserved bytes (52..56); then everything up
    to the signature. cbCabinet and the signature offset are hashed. The signature blob is a CMS."""
    try:
        so, ss = cab_layout(b)
        if so < 60 or so + ss > len(b) or ss == 0:
            return None
        h = hashlib.sha256()
        for s, e in ((0, 4), (8, 34), (36, 40), (44, 48), (56, so), (so + ss, len(b))):
            h.update(bytes(b[s:e]))
            h.update(b"|%d|" % (e - s))
        return ("cab", h.digest(), _cms(bytes(b[so:so + ss])))
    except (FmtError, struct.error):
        return None


def cab_regions(b):
    so, ss = cab_layout(b)
    r = [(0, 4, "hdr-magic"), (4, 8, "hdr-reserved1"), (8, 12, "hdr-cbCabinet"), (12, 34, "hdr-fields"), (34, 36, "hdr-iCabinet"), (36, 40, "hdr-reserve-sizes"),
         (40, 44, "reserve-marker"), (44, 48, "reserve-sigoffset"), (48, 52, "reserve-sigsize"), (52, 56, "reserve-unused"), (56, 60, "reserve-tail")]
    if 60 <= so and so + ss <= len(b):
        r.append((60, so, "cabinet-body"))
        r += cms_regions(b, so, so + ss)
    return fill(_dedup(r), len(b), "after-signature")


# ------------------------------------------------------------------------------------------------ PowerShell
PS_STYLES = [(b"# ", b""), (b"<!-- ", b" -->"), (b"/* ", b" */")]


def ps_decode(b):
    if b[:2] == b"\xff\xfe":
        return b[2:].decode("utf-16-le"), "utf-16-le"
    if b[:2] == b"\xfe\xff":
        return b[2:].decode("utf-16-be"), "utf-16-be"
    if b[:3] == b"\xef\xbb\xbf":
        return b[3:].decode("utf-8"), "utf-8-sig"
    return b.decode("latin-1"), "latin-1"      # byte-transparent: the digest is over the characters of the file


def ps_parts(b):
    txt, enc = ps_decode(b)
    for pre, post in PS_STYLES:
        pre, post = pre.decode(), post.decode()
        begin = pre + "SIG # Begin signature block" + post
        end = pre + "SIG # End signature block" + post
        i = txt.find(begin)
        if i < 0:
            continue
        j = txt.find(end, i)
        if j < 0:
            raise FmtError("no end marker")
        # the block is introduced by a line break that belongs to the block, not to the script
        head = txt[:i]
        if head.endswith("\r\n"):
            content = head[:-2]
        else:
            content = head + "\x00<no CRLF before signature block>"
        lines = txt[i + len(begin):j].split("\r\n")
        b64 = ""
        for l in lines:
            if l == "":
                continue
            if not (l.startswith(pre) and l.endswith(post)):
                raise FmtError("bad line in signature block")
            b64 += l[len(pre):len(l) - len(post)]
        try:
            blob = base64.b64decode(b64, validate=True)
        except (binascii.Error, ValueError):
            raise FmtError("bad base64")
        tail = txt[j + len(end):]
        return content, blob, tail, (pre, post), enc
    raise FmtError("no signature block")


def ps_view(b):
    """PowerShell SIP: the digest covers the script text (as UTF-16LE characters) that precedes the signature block; the block
    is "\\r\\n# SIG # Begin signature block\\r\\n# <base64 PKCS#7>\\r\\n# SIG # End signature block\\r\\n" at the END of the file.
    Anything after the end marker other than the final line break is content the interpreter would read: part of the view."""
    try:
        content, blob, tail, style, enc = ps_parts(b)
        if tail.strip(" \t\r\n") == "":
            tail = ""           # blank space after the end marker is not something an interpreter executes
        return ("ps", content, tail, _cms(blob))
    except (FmtError, UnicodeError):
        return None


def ps_regions(b):
    txt, enc = ps_decode(b)
    if enc != "latin-1":
        return [(0, len(b), "file")]
    m = re.search(rb"(\r\n)((?:# |<!-- |/\* )SIG # Begin signature block)", b)
    if not m:
        return [(0, len(b), "file")]
    e = re.search(rb"SIG # End signature block[^\r\n]*", b)
    r = [(0, m.start(1), "script-text"), (m.start(1), m.end(1), "separator-crlf"), (m.start(2), m.end(2), "begin-marker")]
    if e:
        r += [(m.end(2), e.start(), "base64-lines"), (e.start(), e.end(), "end-marker"), (e.end(), len(b), "after-block")]
    return fill(_dedup(r), len(b), "gap")


# ------------------------------------------------------------------------------------------------ MS-CFB / MSI
CSSLOT_SIGNATURE = 0x10000
FREESECT, ENDOFCHAIN, FATSECT, DIFSECT = 0xffffffff, 0xfffffffe, 0xfffffffd, 0xfffffffc
MSI_SIG = "\x05DigitalSignature"
MSI_SIGEX = "\x05MsiDigitalSignatureEx"


class Cfb:
    def __init__(self, b):
        self.b = b
        if b[:8] != b"\xd0\xcf\x11\xe0\xa1\xb1\x1a\xe1" or len(b) < 512:
            raise FmtError("not a compound file")
        (self.minor, self.major, bom, ssh, mssh) = struct.unpack_from("<HHHHH", b, 24)
        if ssh not in (9, 12) or mssh != 6:
            raise FmtError("bad sector shifts")
        self.ss = 1 << ssh
        (ndirsect, nfat, dirstart, txn, cutoff, minifatstart, nminifat, difstart, ndif) = struct.unpack_from("<IIIIIIIII", b, 40)
        self.cutoff = cutoff
        self.used = set()            # sectors that carry structure or stream data
        difat = list(struct.unpack_from("<109I", b, 76))
        s = difstart
        guard = 0
        while s not in (ENDOFCHAIN, FREESECT) and guard < min(ndif, 4096):
            sec = self.sector(s)
            self.used.add(s)
            ent = struct.unpack("<%dI" % (self.ss // 4), sec)
            difat += list(ent[:-1])
            s = ent[-1]
            guard += 1
        # the DIFAT lists the FAT sectors up to the first free entry; the header's count repeats that number
        self.fat_sectors = []
        for x in difat:
            if x >= FATSECT:
                break
            self.fat_sectors.append(x)
        self.fat = []
        for x in self.fat_sectors:
            self.used.add(x)
            self.fat += list(struct.unpack("<%dI" % (self.ss // 4), self.sector(x)))
        dirdata = self.chain(dirstart)
        self.dir_sectors = self.chain_sectors(dirstart)
        self.entries = _LazyEntries(self, dirdata)
        if len(self.entries) == 0 or self.entries[0]["type"] != 5:
            raise FmtError("no root entry")
        self.minifat = []
        if nminifat and minifatstart != ENDOFCHAIN:
            d = self.chain(minifatstart)
            self.minifat = list(struct.unpack("<%dI" % (len(d) // 4), d))
        root = self.entries[0]
        # the mini stream is located by the root entry's chain; a tolerant reader does not cut it at the root's size field
        self.ministream = self.chain(root["start"]) if root["start"] not in (ENDOFCHAIN, FREESECT) else b""

    def sector(self, n):
        off = (n + 1) * self.ss
        if off + self.ss > len(self.b):
            raise FmtError("sector %d beyond file" % n)
        return self.b[off:off + self.ss]

    def chain_sectors(self, s):
        out = []
        seen = set()
        while s != ENDOFCHAIN:
            if s in seen:
                raise FmtError("FAT chain loops")
            if s >= len(self.fat) or (s + 2) * self.ss > len(self.b):
                break           # a tolerant reader ends a chain at a sector number it cannot follow; a short stream is caught by its size
            seen.add(s)
            out.append(s)
            s = self.fat[s]
        return out

    def chain(self, s):
        secs = self.chain_sectors(s)
        self.used.update(secs)
        return b"".join(bytes(self.sector(x)) for x in secs)

    def minichain(self, s, size):
        out = b""
        seen = set()
        while s != ENDOFCHAIN and len(out) < size:
            if s >= len(self.minifat) or s in seen:
                raise FmtError("bad mini FAT chain")
            seen.add(s)
            if (s + 1) * 64 > len(self.ministream):
                raise FmtError("mini sector beyond mini stream")
            out += self.ministream[s * 64:(s + 1) * 64]
            s = self.minifat[s]
        return out

    def dirent(self, d, i):
        e = d[i * 128:(i + 1) * 128]
        nl, = struct.unpack_from("<H", e, 64)
        typ, color, left, right, child = struct.unpack_from("<BBIII", e, 66)
        clsid = bytes(e[80:96])
        state, ctime, mtime, start = struct.unpack_from("<IQQI", e, 96)
        size, = struct.unpack_from("<Q", e, 120)
        if self.major == 3 or size >= 1 << 32:
            size &= 0xffffffff      # MS-CFB 2.6.3: the high half is unreliable (must be ignored for v3; some writers leave garbage)
        name = ""
        if typ != 0:
            if nl < 2 or nl > 64:
                nl = 2              # an impossible length: the entry has no usable name
            name = bytes(e[:nl - 2]).decode("utf-16-le", "surrogatepass")
        return {"i": i, "name": name, "type": typ, "left": left, "right": right, "child": child, "clsid": clsid, "state": state,
                "ctime": ctime, "mtime": mtime, "start": start, "size": size}

    def stream(self, e):
        if e["size"] == 0:
            return b""
        if e["size"] < self.cutoff:
            d = self.minichain(e["start"], e["size"])
        else:
            d = self.chain(e["start"])
        if len(d) < e["size"]:
            raise FmtError("stream shorter than its size")
        return d[:e["size"]]

    def walk(self):
        """(path tuple, entry) for every storage/stream reachable from the root, via the sibling trees"""
        out = []
        seen = set()

        def tree(i, path):
            if i == 0xffffffff:
                return
            if i >= len(self.entries) or i in seen:
                raise FmtError("bad directory tree")
            seen.add(i)
            e = self.entries[i]
            if e["type"] not in (1, 2):
                raise FmtError("reachable entry of type %d" % e["type"])
            tree(e["left"], path)
            out.append((path + (e["name"],), e))
            if e["type"] == 1:
                tree(e["child"], path + (e["name"],))
            tree(e["right"], path)
        tree(self.entries[0]["child"], ())
        return out


class _LazyEntries:
    """directory entries decoded on demand: unreachable (free) slots are never interpreted"""

    def __init__(self, cfb, data):
        self.cfb, self.data, self.cache = cfb, data, {}

    def __len__(self):
        return len(self.data) // 128

    def __getitem__(self, i):
        if i not in self.cache:
            if i < 0 or i >= len(self):
                raise FmtError("directory index out of range")
            self.cache[i] = self.cfb.dirent(self.data, i)
        return self.cache[i]


def msi_view(b):
    """MSI Authenticode: the digest covers the content of every stream (except the two signature streams) and the CLSIDs of the
    root and of every storage; with \\5MsiDigitalSignatureEx present the pre-hash also covers names, sizes, CLSIDs, state bits and
    timestamps of the entries. Names are protected in both cases (they decide the hashing order and what Windows Installer
    reads). FAT/mini-FAT/directory layout, free sectors and slack space are not."""
    try:
        c = Cfb(b)
        items = []
        sig = sigex = None
        for path, e in c.walk():
            if e["type"] == 2:
                d = c.stream(e)
                if path == (MSI_SIG,):
                    sig = _cms(d)
                    continue
                if path == (MSI_SIGEX,):
                    sigex = bytes(d)
                    continue
                items.append((path, "stream", hashlib.sha256(d).digest(), e["size"]))
            else:
                items.append((path, "storage", e["clsid"]))
        if sig is None:
            return None
        meta = None
        if sigex is not None:
            # MsiDigitalSignatureEx pre-hash: name, (storage: CLSID | stream: size), state bits, create/modify time of every entry;
            # for the root: CLSID and state bits only
            meta = tuple(sorted(((path, e["state"], e["ctime"], e["mtime"]) for path, e in c.walk()
                                 if path not in ((MSI_SIG,), (MSI_SIGEX,))), key=repr)) + (c.entries[0]["state"],)
        return ("msi", c.entries[0]["clsid"], tuple(sorted(items, key=repr)), sig, sigex, meta)
    except (FmtError, struct.error, UnicodeError, RecursionError):
        return None


def msi_neutral(v0, v1):
    """The MSI digest is H(prehash || streams in name order || CLSIDs) when \5MsiDigitalSignatureEx exists and the stream's
    content IS the prehash. Renaming that stream (it keeps sorting first) yields a file whose plain digest is the same number:
    by the format's own definition the name of the Ex stream is not protected, and without the stream the metadata is not
    either. Such a file differs from the original only by the demoted stream."""
    if v0 == v1:
        return True
    if v0[4] is None or v1[4] is not None or v0[1] != v1[1] or v0[3] != v1[3]:
        return False
    extra = [it for it in v1[2] if it not in v0[2]]
    gone = [it for it in v0[2] if it not in v1[2]]
    return not gone and len(extra) == 1 and extra[0][1] == "stream" and len(extra[0][0]) == 1 and extra[0][2] == hashlib.sha256(v0[4]).digest()


def msi_regions(b):
    c = Cfb(b)
    r = [(0, 76, "cfb-header"), (76, 512, "cfb-header-difat")]
    ss = c.ss

    def sec(n, label):
        r.append(((n + 1) * ss, (n + 2) * ss, label))
    for x in c.fat_sectors:
        sec(x, "fat-sector")
    for x in c.dir_sectors:
        sec(x, "directory-sector")
    for path, e in c.walk():
        if e["type"] == 2 and e["size"] >= c.cutoff:
            n = "/".join(path).replace("\x05", "\\5")
            rem = e["size"]
            for s in c.chain_sectors(e["start"]):
                take = min(rem, ss)
                if take > 0:
                    r.append(((s + 1) * ss, (s + 1) * ss + take, "stream:" + n))
                if take < ss:
                    r.append(((s + 1) * ss + max(take, 0), (s + 2) * ss, "stream-slack:" + n))
                rem -= take
    root = c.entries[0]
    if root["size"]:
        for s in c.chain_sectors(root["start"]):
            sec(s, "mini-stream")
    return fill(_dedup(r), len(b), "unallocated")


# ------------------------------------------------------------------------------------------------ Apple: code signature superblob
CSMAGIC_EMBEDDED_SIGNATURE = 0xfade0cc0
CSMAGIC_CODEDIRECTORY = 0xfade0c02
CSMAGIC_BLOBWRAPPER = 0xfade0b01


def superblob(b, off, size):
    if off + 12 > len(b) or off + size > len(b):
        raise FmtError("signature beyond file")
    magic, length, count = struct.unpack_from(">III", b, off)
    if magic != CSMAGIC_EMBEDDED_SIGNATURE or count > 64:
        raise FmtError("not an embedded signature superblob")
    # every blob carries its own length and the container (load command / koly) bounds the area: the superblob's own length is framing
    declared = length
    length = size
    blobs = []
    for i in range(count):
        typ, bo = struct.unpack_from(">II", b, off + 12 + 8 * i)
        if bo + 8 > length:
            raise FmtError("blob index beyond superblob")
        bm, bl = struct.unpack_from(">II", b, off + bo)
        if bl < 8:
            raise FmtError("blob shorter than its header")
        if bo + bl > length:
            if typ != CSSLOT_SIGNATURE:
                raise FmtError("blob beyond superblob")
            bl = length - bo        # the CMS wrapper's payload is a self-delimiting DER value: an over-long wrapper length is framing
        blobs.append((typ, bm, off + bo, off + bo + bl))
    return min(declared, size), blobs


def superblob_view(b, off, size):
    """every blob is protected: the CodeDirectory by the CMS (messageDigest over it), requirements / entitlements / resources by
    special-slot hashes in the CodeDirectory, the CMS wrapper as a signature. Index order and padding between blobs are not."""
    length, blobs = superblob(b, off, size)
    out = []
    ncms = 0
    for typ, bm, s, e in blobs:
        if typ == CSSLOT_SIGNATURE:
            if e - s <= 8:
                raise FmtError("empty CMS wrapper (ad-hoc)")
            out.append((typ, "cms", _cms(bytes(b[s + 8:e]))))      # the slot number selects the CMS; the wrapper's own magic is framing
            ncms += 1
        else:
            out.append((typ, bm, bytes(b[s:e])))
    if not ncms or not any(bm == CSMAGIC_CODEDIRECTORY for _, bm, _, _ in blobs):
        raise FmtError("no CMS or no CodeDirectory")
    return tuple(sorted(out, key=repr)), blobs


def cd_code_limit(b, s):
    """codeLimit of a CodeDirectory blob at s (version >= 0x20400 may carry codeLimit64)"""
    version, flags, hashoff, identoff, nspecial, ncode, limit = struct.unpack_from(">IIIIIII", b, s + 8)
    if version >= 0x20400:
        l64, = struct.unpack_from(">Q", b, s + 56)
        if l64:
            limit = l64
    return limit


def macho_layout(b):
    if len(b) < 32:
        raise FmtError("short")
    magic, = struct.unpack_from("<I", b, 0)
    if magic == 0xfeedfacf:
        hs = 32
    elif magic == 0xfeedface:
        hs = 28
    else:
        raise FmtError("not a thin little-endian Mach-O")
    ncmds, sizeofcmds = struct.unpack_from("<II", b, 16)
    p = hs
    sig = None
    for _ in range(ncmds):
        if p + 8 > len(b):
            raise FmtError("load commands overrun")
        cmd, sz = struct.unpack_from("<II", b, p)
        if sz < 8:
            raise FmtError("bad load command size")
        if cmd == 0x1d:
            off, size = struct.unpack_from("<II", b, p + 8)
            sig = (off, size, p)
        p += sz
    if sig is None:
        raise FmtError("no LC_CODE_SIGNATURE")
    return sig


def macho_view(b, extern=()):
    """Mach-O: CodeDirectory page hashes cover the file from 0 to codeLimit (= start of the signature data, which must be the
    last thing in the file); the superblob's blobs are protected (see superblob_view). Bytes of the signature area after the
    superblob (alignment padding) are not."""
    try:
        off, size, lc = macho_layout(b)
        sv, blobs = superblob_view(b, off, size)
        limits = [cd_code_limit(b, s) for typ, bm, s, e in blobs if bm == CSMAGIC_CODEDIRECTORY]
        if any(l != off for l in limits):
            return None        # a code limit that is not the signature offset leaves bytes uncovered: not a well-formed signature
        # bytes after the signature data lie outside every segment and outside codeLimit: not covered by the format, not loaded
        return ("macho", hashlib.sha256(bytes(b[:off])).digest(), sv, tuple(extern))
    except (FmtError, struct.error):
        return None


def macho_regions(b):
    off, size, lc = macho_layout(b)
    r = [(0, 32, "mach-header"), (lc, lc + 16, "lc-code-signature")]
    length, blobs = superblob(b, off, size)
    r.append((off, off + 12 + 8 * len(blobs), "superblob-index"))
    for typ, bm, s, e in blobs:
        if typ == CSSLOT_SIGNATURE:
            r.append((s, s + 8, "cms-wrapper-header"))
            r += cms_regions(b, s + 8, e)
        else:
            r.append((s, e, "blob:%x" % bm))
    r.append((off + length, off + size, "signature-padding"))
    return fill(fill(_dedup(r), off, "code"), len(b), "after-signature")


# ------------------------------------------------------------------------------------------------ DMG (UDIF)
def dmg_layout(b):
    if len(b) < 512 or b[-512:-508] != b"koly":
        raise FmtError("no koly trailer")
    k = len(b) - 512
    sigoff, siglen = struct.unpack_from(">QQ", b, k + 296)
    return k, sigoff, siglen


def dmg_view(b):
    """UDIF: the CodeDirectory covers the image from 0 to the start of the signature (codeLimit) and, through the
    representation-specific special slot, the koly trailer with the CodeSignature offset/length fields cleared. The property
    list between signature and trailer is located by the (hashed) trailer and lies after codeLimit."""
    try:
        k, so, sl = dmg_layout(b)
        if so == 0 or so + 12 > k:
            return None
        sl = k - so          # the trailer's length field is cleared for hashing: the superblob carries its own length
        sv, blobs = superblob_view(b, so, sl)
        limits = [cd_code_limit(b, s) for typ, bm, s, e in blobs if bm == CSMAGIC_CODEDIRECTORY]
        if any(l != so for l in limits):
            return None
        koly = bytearray(b[k:])
        koly[296:312] = b"\0" * 16
        return ("dmg", hashlib.sha256(bytes(b[:so])).digest(), sv, bytes(koly))
    except (FmtError, struct.error):
        return None


def dmg_regions(b):
    k, so, sl = dmg_layout(b)
    sl = min(sl, k - so)
    r = [(k, k + 216, "koly-fields"), (k + 216, k + 232, "koly-xml-offset-length"), (k + 232, k + 296, "koly-reserved"), (k + 296, k + 312, "koly-codesign-offset-length"),
         (k + 312, k + 352, "koly-reserved"), (k + 352, k + 488, "koly-master-checksum"), (k + 488, k + 500, "koly-variant-sectors"), (k + 500, k + 512, "koly-reserved")]
    length, blobs = superblob(b, so, sl)
    r.append((so, so + 12 + 8 * len(blobs), "superblob-index"))
    for typ, bm, s, e in blobs:
        if typ == CSSLOT_SIGNATURE:
            r.append((s, s + 8, "cms-wrapper-header"))
            r += cms_regions(b, s + 8, e)
        else:
            r.append((s, e, "blob:%x" % bm))
    if so + length < so + sl:
        r.append((so + length, so + sl, "signature-padding"))
    xo, xl = struct.unpack_from(">QQ", b, k + 216)
    if xo + xl <= k and xl:
        r.append((xo, xo + xl, "xml-plist"))
    return fill(fill(_dedup(r), so, "image-data"), len(b), "gap")


# ------------------------------------------------------------------------------------------------ XAR
def xar_layout(b):
    if b[:4] != b"xar!" or len(b) < 28:
        raise FmtError("not a xar")
    hsz, ver, tc, tu, ck = struct.unpack_from(">HHQQI", b, 4)
    if hsz < 28 or hsz + tc > len(b):
        raise FmtError("toc beyond file")
    try:
        toc = zlib.decompress(bytes(b[hsz:hsz + tc]))
    except zlib.error:
        raise FmtError("toc does not inflate")
    return hsz, tc, ck, toc


def xar_view(b):
    """xar: the table of contents (compressed bytes, as stored) is covered by the checksum at heap offset 0; every signature
    (<signature> RSA and <x-signature> CMS) signs that checksum; file data in the heap is covered by the archived checksums in
    the TOC. Protected: the stored TOC, the heap checksum, each signature value, every heap range a <data> element names.
    Heap bytes not named by the TOC (reserved signature space after the CMS, gaps) and the header's advisory
    uncompressed-length are not."""
    try:
        import xml.etree.ElementTree as ET
        hsz, tc, ck, toc = xar_layout(b)
        heap = hsz + tc
        root = ET.fromstring(toc)
        t = root.find("toc")
        c = t.find("checksum")
        co, cs = int(c.find("offset").text), int(c.find("size").text)
        out = [("toc", hashlib.sha256(bytes(b[hsz:hsz + tc])).digest(), ck), ("checksum", bytes(b[heap + co:heap + co + cs]))]
        nsig = 0
        for tag in ("signature", "x-signature"):
            for s in t.findall(tag):
                so, sz = int(s.find("offset").text), int(s.find("size").text)
                blob = bytes(b[heap + so:heap + so + sz])
                if len(blob) != sz:
                    raise FmtError("signature beyond file")
                if s.get("style") == "CMS":
                    out.append((tag, "cms", _cms(blob)))
                else:
                    out.append((tag, s.get("style"), blob))
                nsig += 1
        if not nsig:
            return None
        for d in t.iter("data"):
            o, l = int(d.find("offset").text), int(d.find("length").text)
            blob = bytes(b[heap + o:heap + o + l])
            if len(blob) != l:
                raise FmtError("file data beyond archive")
            out.append(("data", o, hashlib.sha256(blob).digest()))
        return ("xar", tuple(out))
    except (FmtError, struct.error, AttributeError, ValueError, TypeError, SyntaxError):
        return None


def xar_regions(b):
    import xml.etree.ElementTree as ET
    hsz, tc, ck, toc = xar_layout(b)
    heap = hsz + tc
    r = [(0, 8, "hdr-magic-size-version"), (8, 16, "hdr-toc-compressed-length"), (16, 24, "hdr-toc-uncompressed-length"), (24, hsz, "hdr-checksum-alg"), (hsz, heap, "toc-compressed")]
    t = ET.fromstring(toc).find("toc")
    c = t.find("checksum")
    co, cs = int(c.find("offset").text), int(c.find("size").text)
    r.append((heap + co, heap + co + cs, "heap-toc-checksum"))
    for tag in ("signature", "x-signature"):
        for s in t.findall(tag):
            so, sz = int(s.find("offset").text), int(s.find("size").text)
            if s.get("style") == "CMS":
                try:
                    top = c02_der.read_tlv(bytes(b[heap + so:heap + so + sz]), 0, sz)
                    r += cms_regions(b, heap + so, heap + so + top.end)
                    r.append((heap + so + top.end, heap + so + sz, "cms-reserved-space"))
                except c02_der.DerError:
                    r.append((heap + so, heap + so + sz, "cms"))
            else:
                r.append((heap + so, heap + so + sz, "rsa-signature-value"))
    for d in t.iter("data"):
        o, l = int(d.find("offset").text), int(d.find("length").text)
        r.append((heap + o, heap + o + l, "file-data"))
    return fill(_dedup(r), len(b), "heap-gap")
