# End-to-end kit: drives the REAL relic binary built from /repo's working tree — standalone (`relic sign` with a file token),
# client/server (`relic serve` + `relic remote sign`) and `relic verify` — for the format-level properties C01 C02 C03 C05 C08.
import hashlib, json, os, re, shutil, socket, subprocess, time
from vlib.common import BUILD, REPO, GOENV, run as sh, Lock

KEYS = os.path.join(REPO, "functest/testkeys")
PKGS = os.path.join(REPO, "functest/packages")

# fixture -> (signature type, kind of trust material verify needs)
FIXTURES = {
    "hello.jar": ("jar", "x509"), "ClassLibrary1.dll": ("pe-coff", "x509"), "WindowsFormsApplication1.exe": ("pe-coff", "x509"),
    "dummy.msi": ("msi", "x509"), "dummy.cab": ("cab", "x509"), "hello.ps1": ("ps", "x509"), "hello.ps1xml": ("ps", "x509"),
    "hello.mof": ("ps", "x509"), "dummy.xap": ("xap", "x509"), "VSIXProject1.vsix": ("vsix", "x509"),
    "App1_1.0.3.0_x64.appx": ("appx", "x509"), "dummy.apk": ("apk", "x509"), "zlib1g_1.2.8.dfsg-5_i386.deb": ("deb", "pgp"),
    "rocky-basesystem-11-13.el9.noarch.rpm": ("rpm", "pgp"), "WindowsFormsApplication1.exe.manifest": ("appmanifest", "x509"),
    "hyperv.cat": ("cat", "x509"), "dummy.dmg": ("dmg", "x509"), "dummy.pkg": ("xar", "x509"),
    "slimfile.app/dummyapp": ("mach-o", "x509"), "fatfile.app/Contents/MacOS/dummy": ("mach-o-fat", "x509"), "Release": ("pgp", "pgp"),
}
DIGESTS = ["sha1", "sha224", "sha256", "sha384", "sha512"]


def free_port():
    s = socket.socket()
    s.bind(("127.0.0.1", 0))
    p = s.getsockname()[1]
    s.close()
    return p


class Kit:
    def __init__(self, ctx, with_server=False, audit=None):
        self.ctx = ctx
        self.dir = os.path.join(ctx.scratch, "e2e")
        os.makedirs(self.dir, exist_ok=True)
        self.relic = os.path.join(BUILD, "relic")
        self.server = None
        self.keys = {}
        self.build_error = None
        with Lock("relic_bin"):
            rc, out, err, _ = sh(["go", "build", "-o", self.relic, "."], cwd=REPO, env=GOENV, timeout=1200)
        if rc != 0:
            self.build_error = err
            return
        unit, ctx.unit = ctx.unit, "e2e"
        ok, err = ctx.build_drv()
        self.drv = ctx.drv_path()
        ctx.unit = unit
        if not ok:
            self.build_error = err
            return
        self._mkkeys()
        self.port = free_port() if with_server else None
        self.conf = os.path.join(self.dir, "relic.yml")
        y = "tokens:\n  file:\n    type: file\nkeys:\n"
        for name, k in self.keys.items():
            y += "  %s:\n    token: file\n    keyfile: %s\n    x509certificate: %s\n    roles: [client]\n" % (name, k["key"], k["crt"])
            if k.get("pgp"):
                y += "    pgpcertificate: %s\n" % k["pgp"]
        y += "  alias-rsa:\n    alias: rsa2048\n"
        if audit:
            y += "auditfile: %s\n" % audit
        if with_server:
            y += ("server:\n  listen: \"127.0.0.1:%d\"\n  keyfile: %s/server.key\n  certfile: %s/server.crt\n"
                  "remote:\n  url: https://localhost:%d\n  keyfile: %s/client.pem\n  certfile: %s/client.pem\n  cacert: %s/server.crt\n"
                  "clients:\n  426886bcf5dedbd73f78477d5151738e39c245c27c3cae792503592ae4417c59:\n    nickname: functest\n    roles: [client]\n"
                  % (self.port, KEYS, KEYS, self.port, KEYS, KEYS, KEYS))
        open(self.conf, "w").write(y)
        if with_server:
            self._start_server()

    def _mkkeys(self):
        self.keys["rsa2048"] = {"key": KEYS + "/rsa2048.key", "crt": KEYS + "/rsa2048.crt", "pgp": KEYS + "/rsa2048.pgp", "type": "rsa"}
        for name, curve in (("p256", "prime256v1"), ("p384", "secp384r1"), ("p521", "secp521r1")):
            kf, cf = os.path.join(self.dir, name + ".key"), os.path.join(self.dir, name + ".crt")
            sh(["openssl", "ecparam", "-name", curve, "-genkey", "-noout", "-out", kf])
            sh(["openssl", "req", "-new", "-x509", "-key", kf, "-out", cf, "-days", "3650", "-subj", "/CN=" + name,
                "-addext", "extendedKeyUsage=codeSigning", "-addext", "keyUsage=digitalSignature"])
            self.keys[name] = {"key": kf, "crt": cf, "type": "ecdsa"}
        kf, cf = os.path.join(self.dir, "rsa3072.key"), os.path.join(self.dir, "rsa3072.crt")
        sh(["openssl", "genrsa", "-out", kf, "3072"])
        sh(["openssl", "req", "-new", "-x509", "-key", kf, "-out", cf, "-days", "3650", "-subj", "/CN=rsa3072",
            "-addext", "extendedKeyUsage=codeSigning", "-addext", "keyUsage=digitalSignature"])
        self.keys["rsa3072"] = {"key": kf, "crt": cf, "type": "rsa"}

    def _start_server(self):
        self.server_log = open(os.path.join(self.dir, "server.log"), "w")
        self.server = subprocess.Popen([self.relic, "-c", self.conf, "serve"], stdout=self.server_log, stderr=subprocess.STDOUT)
        for _ in range(100):
            try:
                s = socket.create_connection(("127.0.0.1", self.port), timeout=0.2)
                s.close()
                return
            except OSError:
                time.sleep(0.1)
        raise RuntimeError("relic serve did not start: " + open(os.path.join(self.dir, "server.log")).read()[-500:])

    def close(self):
        if self.server:
            self.server.terminate()
            try:
                self.server.wait(timeout=10)
            except subprocess.TimeoutExpired:
                self.server.kill()
            self.server = None

    # ------------------------------------------------------------------ operations
    def sign(self, key, infile, outfile, sigtype=None, digest=None, flags=(), remote=False, timeout=180):
        cmd = [self.relic, "-c", self.conf] + (["remote"] if remote else []) + ["sign", "-k", key, "-f", infile, "-o", outfile]
        if sigtype:
            cmd += ["-T", sigtype]
        if digest:
            cmd += ["--digest", digest]
        cmd += list(flags)
        p = subprocess.run(cmd, stdout=subprocess.PIPE, stderr=subprocess.PIPE, timeout=timeout)
        return p.returncode, (p.stderr.decode(errors="replace") + p.stdout.decode(errors="replace"))[-600:]

    def verify(self, path, key=None, content=None, extra=(), timeout=120):
        """returns (exit, text). With key: trust exactly that key's certificate(s)."""
        cmd = [self.relic, "verify"]
        if key:
            k = self.keys[key]
            cmd += ["--cert", k["crt"]]
            if k.get("pgp"):
                cmd += ["--cert", k["pgp"]]
        if content:
            cmd += ["--content", content]
        cmd += list(extra) + [path]
        p = subprocess.run(cmd, stdout=subprocess.PIPE, stderr=subprocess.PIPE, timeout=timeout)
        return p.returncode, (p.stdout.decode(errors="replace") + p.stderr.decode(errors="replace"))[-800:]

    def verifyjson(self, paths, key=None, content=None, sigtype=None, extra=(), timeout=300):
        """library-level verify of several files; returns list of dicts (see harness/p/e2e): ok, err, err_kind, sigs[hash, leaf_sha1, ...]"""
        cmd = [self.drv, "verifyjson"]
        if key:
            k = self.keys[key]
            cmd += ["--cert", k["crt"]]
            if k.get("pgp"):
                cmd += ["--cert", k["pgp"]]
        if content:
            cmd += ["--content", content]
        if sigtype:
            cmd += ["--type", sigtype]
        cmd += list(extra) + list(paths)
        p = subprocess.run(cmd, stdout=subprocess.PIPE, stderr=subprocess.PIPE, timeout=timeout)
        out = [json.loads(l) for l in p.stdout.decode(errors="replace").splitlines() if l.startswith("{")]
        if len(out) != len(paths):      # a crash of the probe itself: report per file
            out += [{"path": x, "ok": False, "err": "verify probe crashed: " + p.stderr.decode(errors="replace")[-300:], "err_kind": "crash", "sigs": None} for x in paths[len(out):]]
        return out

    def issigned(self, paths, timeout=120):
        p = subprocess.run([self.drv, "issigned"] + list(paths), stdout=subprocess.PIPE, stderr=subprocess.PIPE, timeout=timeout)
        return [json.loads(l) for l in p.stdout.decode(errors="replace").splitlines() if l.startswith("{")]

    def leaf_sha1(self, key):
        pem = open(self.keys[key]["crt"]).read()
        import base64
        b = base64.b64decode("".join(pem.split("-----BEGIN CERTIFICATE-----")[1].split("-----END CERTIFICATE-----")[0].split()))
        return hashlib.sha1(b).hexdigest()

    def fixture(self, name):
        return os.path.join(PKGS, name)


def sha256_file(p):
    h = hashlib.sha256()
    with open(p, "rb") as f:
        for b in iter(lambda: f.read(1 << 20), b""):
            h.update(b)
    return h.hexdigest()
