# C05: wrappers around the independent reference implementations available in the sandbox
# (OpenSSL >= 3.0 smime/cms/ts/dgst, JDK 17 jarsigner + javax.xml.crypto, GnuPG gpgv/gpg, dpkg-deb, ar, unzip; xmllint when present).
# Every wrapper returns the command line it ran so that a replay names it exactly.
# Nothing here may assume a particular tool version: what a tool can do is PROBED (Tools.probe_*) with material that does not come
# from relic, and a sub-check whose tool is missing or fails its probe is skipped and listed in the evidence - never an alarm.
import json, os, re, shutil, subprocess, threading
import xml.parsers.expat
from vlib.common import VERIF

_uniq = [0]
_ulock = threading.Lock()


def uniq():
    with _ulock:
        _uniq[0] += 1
        return _uniq[0]


def run(cmd, input=None, timeout=300, cwd=None, env=None):
    try:
        p = subprocess.run(cmd, input=input, stdout=subprocess.PIPE, stderr=subprocess.PIPE, timeout=timeout, cwd=cwd, env=env)
        return p.returncode, p.stdout, p.stderr.decode(errors="replace")
    except subprocess.TimeoutExpired:
        return 124, b"", "TIMEOUT"


def have(tool):
    return shutil.which(tool) is not None


class Tools:
    def __init__(self, workdir):
        self.dir = workdir
        os.makedirs(workdir, exist_ok=True)
        self.java_dir = os.path.join(workdir, "jref")
        self.java_ok, self.java_err = None, ""
        self.gpg_home = os.path.join(workdir, "gnupg")
        os.makedirs(self.gpg_home, exist_ok=True)
        os.chmod(self.gpg_home, 0o700)
        self.keyrings = {}
        # JDK 17 refuses SHA-1 digests/signatures in signed JARs by POLICY (jdk.jar.disabledAlgorithms); the question here is whether the
        # structures are correct, so the policy is lifted for the SHA-1 runs only (and said so in the evidence).
        self.java_props = os.path.join(workdir, "java.security.c05")
        with open(self.java_props, "w") as f:
            f.write("jdk.jar.disabledAlgorithms=MD2, MD5, RSA keySize < 1024\njdk.certpath.disabledAlgorithms=MD2, MD5\njdk.security.legacyAlgorithms=\n")
        self.available = {t: have(t) for t in ("openssl", "jarsigner", "java", "javac", "gpgv", "gpg", "dpkg-deb", "ar", "unzip", "xmllint")}
        self.versions = {}
        self.caps = {}          # capability name -> {"ok": bool, "probe": what was tried, "output": tool output}
        self.caplock = threading.Lock()
        if self.available["openssl"]:
            rc, out, err = run(["openssl", "version"])
            self.versions["openssl"] = out.decode(errors="replace").strip()
        for tool, cmd in (("java", ["java", "-version"]), ("gpgv", ["gpgv", "--version"]), ("dpkg-deb", ["dpkg-deb", "--version"])):
            if self.available.get(tool):
                rc, out, err = run(cmd, timeout=60)
                self.versions[tool] = ((out.decode(errors="replace") + err).strip().splitlines() or [""])[0]

    # ------------------------------------------------------------------ capability probes
    def cap(self, name):
        return self.caps.get(name, {"ok": False, "probe": "not probed", "output": ""})

    def set_cap(self, name, ok, probe, output):
        with self.caplock:
            self.caps[name] = {"ok": bool(ok), "probe": probe, "output": (output or "").strip()[-400:]}
        return ok

    def probe_p7(self, ctype, blob, origin, content=None):
        """can `openssl smime -verify` of the installed OpenSSL judge SignedData whose content type is `ctype`?  `blob` is a GENUINE
        signature made by somebody else's implementation (Microsoft's signtool / OpenSSL itself).  OpenSSL 3.0/3.1 digest the wrong
        octets when the content is not an OCTET STRING (Authenticode SpcIndirectDataContent, catalog CTL) and reject Microsoft's own
        signatures with 'digest failure'; such a tool cannot be the judge of relic's."""
        name = "openssl-smime-verify:" + ctype
        if not self.available["openssl"]:
            return self.set_cap(name, False, origin, "openssl not installed")
        if blob is None:
            return self.set_cap(name, False, origin, "no genuine third-party sample available for this content type")
        ok, got, err, cmd = self.p7_verify(blob, content)
        return self.set_cap(name, ok, "%s through `%s`" % (origin, " ".join(cmd[:8])), "accepted" if ok else err)

    def probe_cms(self, blob, origin, content=None):
        name = "openssl-cms-verify:data"
        if not self.available["openssl"]:
            return self.set_cap(name, False, origin, "openssl not installed")
        ok, got, err, cmd = self.cms_verify(blob, content)
        return self.set_cap(name, ok, "%s through `%s`" % (origin, " ".join(cmd[:8])), "accepted" if ok else err)

    def openssl_sign_data(self, keyfile, certfile, data):
        """a PKCS#7 SignedData over id-data made by OpenSSL itself (probe material for the id-data verification paths)"""
        dp, outp = self.put(data, ".data"), self.tmp(".p7")
        rc, out, err = run(["openssl", "smime", "-sign", "-binary", "-nodetach", "-in", dp, "-signer", certfile, "-inkey", keyfile, "-outform", "DER", "-out", outp, "-md", "sha256"])
        blob = open(outp, "rb").read() if rc == 0 and os.path.exists(outp) else None
        for p in (dp, outp):
            if os.path.exists(p):
                os.unlink(p)
        return blob, err

    # ------------------------------------------------------------------ XML well-formedness
    def xml_wellformed(self, path):
        """well-formedness by expat (python's xml.parsers.expat: an XML parser that shares nothing with relic's etree / encoding/xml);
        xmllint as a second opinion when it is installed.  returns (ok, message, [cmds])"""
        cmds = [["python3", "-c", "import sys,xml.parsers.expat as e; e.ParserCreate().Parse(open(sys.argv[1],'rb').read(), True)", path]]
        try:
            pr = xml.parsers.expat.ParserCreate()
            pr.Parse(open(path, "rb").read(), True)
            ok, msg = True, ""
        except xml.parsers.expat.ExpatError as e:
            ok, msg = False, "expat: %s" % e
        if self.available.get("xmllint"):
            rc, out, err = run(["xmllint", "--noout", path])
            cmds.append(["xmllint", "--noout", path])
            if rc != 0:
                ok, msg = False, (msg + " xmllint: " + err[-200:]).strip()
        return ok, msg, cmds

    def tmp(self, suffix):
        return os.path.join(self.dir, "t%d%s" % (uniq(), suffix))

    def put(self, data, suffix):
        p = self.tmp(suffix)
        with open(p, "wb") as f:
            f.write(data)
        return p

    # ------------------------------------------------------------------ OpenSSL
    def p7_verify(self, p7der, content=None, p7path=None):
        """`openssl smime -verify` (PKCS#7 routines: they handle Authenticode's non-OCTET-STRING content) without chain validation.
        returns (ok, content written by openssl, stderr, cmd)"""
        p7 = p7path or self.put(p7der, ".p7")
        outp = self.tmp(".content")
        cmd = ["openssl", "smime", "-verify", "-inform", "DER", "-in", p7, "-noverify", "-binary", "-out", outp]
        cpath = None
        if content is not None:
            cpath = self.put(content, ".data")
            cmd += ["-content", cpath]
        rc, out, err = run(cmd)
        data = open(outp, "rb").read() if os.path.exists(outp) else b""
        for p in (outp, cpath, None if p7path else p7):
            if p and os.path.exists(p) and rc == 0:
                os.unlink(p)
        return rc == 0, data, err.strip()[-300:], cmd

    def cms_verify(self, p7der, content=None):
        """`openssl cms -verify` (CMS routines), for id-data content"""
        p7 = self.put(p7der, ".p7")
        outp = self.tmp(".content")
        cmd = ["openssl", "cms", "-verify", "-inform", "DER", "-in", p7, "-noverify", "-binary", "-out", outp]
        cpath = None
        if content is not None:
            cpath = self.put(content, ".data")
            cmd += ["-content", cpath]
        rc, out, err = run(cmd)
        data = open(outp, "rb").read() if os.path.exists(outp) else b""
        for p in (outp, cpath, p7):
            if p and os.path.exists(p) and rc == 0:
                os.unlink(p)
        return rc == 0, data, err.strip()[-300:], cmd

    def sig_verify(self, spki_der, hashalg, sig, data, pss=False):
        """`openssl dgst -<hash> -verify` with a bare public key"""
        from vlib.c05_der import pem
        pub = self.put(pem("PUBLIC KEY", spki_der).encode(), ".pub.pem")
        sp, dp = self.put(sig, ".sig"), self.put(data, ".data")
        cmd = ["openssl", "dgst", "-" + hashalg, "-verify", pub, "-signature", sp]
        if pss:
            cmd += ["-sigopt", "rsa_padding_mode:pss", "-sigopt", "rsa_pss_saltlen:digest"]
        cmd += [dp]
        rc, out, err = run(cmd)
        ok = rc == 0 and b"Verified OK" in out
        if ok:
            for p in (pub, sp, dp):
                os.unlink(p)
        return ok, (out.decode(errors="replace") + err).strip()[-200:], cmd

    def asn1parse_ok(self, der):
        p = self.put(der, ".der")
        cmd = ["openssl", "asn1parse", "-inform", "DER", "-in", p]
        rc, out, err = run(cmd)
        ok = rc == 0 and "error" not in err.lower()
        if ok:
            os.unlink(p)
        return ok, err.strip()[-200:], cmd

    def ts_verify(self, token_der, data, cafile, untrusted=None):
        """`openssl ts -verify -token_in` of an RFC 3161 TimeStampToken against the data it covers"""
        tp, dp = self.put(token_der, ".tst"), self.put(data, ".data")
        cmd = ["openssl", "ts", "-verify", "-data", dp, "-in", tp, "-token_in", "-CAfile", cafile]
        if untrusted:
            cmd += ["-untrusted", untrusted]
        rc, out, err = run(cmd)
        ok = rc == 0 and b"Verification: OK" in out
        return ok, (out.decode(errors="replace") + err).strip()[-300:], cmd

    # ------------------------------------------------------------------ JDK
    def jarsigner(self, path, lift_sha1_policy=False):
        """`jarsigner -verify -verbose -certs`; returns dict(verified, unsigned_entries, entries, text, cmd)"""
        cmd = ["jarsigner", "-J-Dfile.encoding=UTF-8", "-J-Dsun.stdout.encoding=UTF-8"]
        if lift_sha1_policy:
            cmd += ["-J-Djava.security.properties=" + self.java_props]
        cmd += ["-verify", "-verbose", "-certs", path]
        rc, out, err = run(cmd, timeout=600)
        text = out.decode(errors="replace") + err
        entries = {}
        for ln in text.splitlines():
            m = re.match(r"^([s ])([m ])([k ])?\s+(\d+) \w{3} \w{3} \d+ [\d:]+ \S+ \d{4} (.+)$", ln)
            if m:
                entries[m.group(5)] = (m.group(1) == "s", m.group(2) == "m")
        verified = "jar verified." in text
        return {"rc": rc, "verified": verified, "entries": entries, "text": text[-1500:], "cmd": cmd, "timestamped": "Timestamped by" in text,
                "treated_unsigned": "treated as unsigned" in text or "jar is unsigned" in text}

    def javac(self):
        if self.java_ok is None:
            os.makedirs(self.java_dir, exist_ok=True)
            rc, out, err = run(["javac", "-encoding", "UTF-8", "-d", self.java_dir, os.path.join(VERIF, "harness", "ref", "XmlDsigVerify.java")], timeout=300)
            self.java_ok, self.java_err = rc == 0, err[-400:]
        return self.java_ok

    def xmldsig(self, paths):
        """JDK XML-Signature validation (harness/ref/XmlDsigVerify.java); returns (list of dicts, cmd)"""
        cmd = ["java", "-cp", self.java_dir, "XmlDsigVerify"] + list(paths)
        if not self.javac():
            return [{"file": p, "error": "javac failed: " + self.java_err} for p in paths], cmd
        rc, out, err = run(cmd, timeout=600)
        res = []
        for l in out.decode(errors="replace").splitlines():
            if l.startswith("{"):
                try:
                    res.append(json.loads(l))
                except ValueError:
                    res.append({"error": "unparsable validator output: " + l[:200]})
        if rc != 0 and not res:
            res = [{"file": p, "error": "validator crashed: " + err[-300:]} for p in paths]
        return res, cmd

    # ------------------------------------------------------------------ GnuPG
    def keyring(self, pgp_cert_path):
        """binary keyring for gpgv made from an (armored) transferable public key"""
        if pgp_cert_path not in self.keyrings:
            kr = os.path.join(self.dir, "keyring%d.gpg" % uniq())
            rc, out, err = run(["gpg", "--homedir", self.gpg_home, "--batch", "--dearmor"], input=open(pgp_cert_path, "rb").read())
            if rc != 0 or not out:
                out = open(pgp_cert_path, "rb").read()
            with open(kr, "wb") as f:
                f.write(out)
            self.keyrings[pgp_cert_path] = kr
        return self.keyrings[pgp_cert_path]

    def gpgv(self, keyring, sigpath, datapath=None, output=None):
        cmd = ["gpgv", "--homedir", self.gpg_home, "--keyring", keyring, "--status-fd", "1"]
        if output:
            cmd += ["--output", output]
        cmd += [sigpath] + ([datapath] if datapath else [])
        rc, out, err = run(cmd)
        st = out.decode(errors="replace")
        good = rc == 0 and "GOODSIG" in st and "VALIDSIG" in st
        m = re.search(r"VALIDSIG (\S+) \S+ (\d+) \S+ \S+ \S+ (\d+) (\d+) (\S+)", st)
        info = {"fpr": m.group(1), "pubkey_algo": int(m.group(3)), "hash_algo": int(m.group(4)), "sig_class": m.group(5)} if m else {}
        return good, info, (st + err)[-500:], cmd
