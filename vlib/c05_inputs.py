# C05: harness-owned input generators (derived inputs for the end-to-end scenarios).  Every input is named by a recipe string
# "<kind>:<variant>" so that a replay can rebuild it; fixtures are "fixture:<file name>".
import io, os, random, struct, zipfile, zlib
from vlib import c05_ref as ref
from vlib.e2e import PKGS


def _rnd(seed, n):
    return random.Random(seed).randbytes(n)


def make_jar(variant):
    rnd = random.Random(zlib.crc32(variant.encode()))
    buf = io.BytesIO()
    comp = zipfile.ZIP_STORED if variant == "stored" else zipfile.ZIP_DEFLATED
    main = b"Manifest-Version: 1.0\r\nCreated-By: c05 harness\r\n\r\n"
    files = []
    if variant.startswith("rand="):
        R = rnd
        eol = R.choice([b"\r\n", b"\r\n", b"\n"])
        comp = R.choice([zipfile.ZIP_STORED, zipfile.ZIP_DEFLATED])
        alpha = "abcXYZ019_-. $" + "éü€世"
        seen = set()
        for i in range(R.randint(1, 25)):
            depth = R.randint(0, 3)
            nm = "/".join("".join(R.choice(alpha) for _ in range(R.choice([1, 3, 8, 20, 40, 70]))).strip(" .") or "x" for _ in range(depth + 1))
            if nm in seen or nm.upper().startswith("META-INF"):
                continue
            seen.add(nm)
            files.append((nm, R.randbytes(R.choice([0, 1, 10, 1000, 70000]))))
        main = b"Manifest-Version: 1.0" + eol + b"Created-By: c05 harness (random)" + eol + b"X-Long: " + b"v" * R.choice([1, 60, 61, 62, 63, 64, 130, 200]) + eol + eol
        for nm, _ in files:
            if R.random() < 0.3:
                raw = b"Name: " + nm.encode()
                # fold at 72 bytes the way the JDK writes it
                folded, first = b"", True
                while len(raw) > (72 if first else 71):
                    cut = 72 if first else 71
                    folded += (b"" if first else b" ") + raw[:cut] + eol
                    raw, first = raw[cut:], False
                folded += (b"" if first else b" ") + raw + eol
                main += folded + b"X-Attr: " + str(R.random()).encode() + eol + eol
    if variant == "many":
        files = [("d%d/e%d/file%03d.txt" % (i % 7, i % 3, i), b"content %d\n" % i * (i % 50 + 1)) for i in range(300)]
    elif variant == "longnames":
        # names whose "Name: ..." line needs one, two and three continuation lines; multi-byte UTF-8 characters straddling byte 70/72
        files = [("a" * n + ".txt", b"x" * n) for n in (58, 59, 60, 61, 62, 63, 64, 65, 66, 67, 127, 128, 129, 130, 131, 132, 133, 134, 135, 200, 250)]
        files += [("p/" + "é" * n + "/ü.class", b"y" * n) for n in (29, 30, 31, 32, 33, 34, 35, 64, 65, 66, 67)]
        files += [("q/" + "a" * k + "€" * 25 + ".bin", b"z" * k) for k in range(0, 4)]
    elif variant == "lf-manifest":
        main = b"Manifest-Version: 1.0\nCreated-By: c05 harness\nMain-Class: a.B\n\n"
        files = [("a/B.class", b"\xca\xfe\xba\xbe" + _rnd(1, 300)), ("res/x.properties", b"k=v\n")]
        main += b"Name: a/B.class\nSealed: true\n\n"
    elif variant == "sections":
        files = [("a/B.class", b"\xca\xfe\xba\xbe" + _rnd(2, 300)), ("res/x.properties", b"k=v\n"), ("c.txt", b"")]
        main += b"Name: a/B.class\r\nX-Custom: 1\r\nSealed: true\r\n\r\nName: res/x.properties\r\nContent-Type: text/plain\r\n\r\n"
    elif variant == "no-trailing-blank":
        main = b"Manifest-Version: 1.0\r\nCreated-By: c05 harness\r\n"
        files = [("one.txt", b"1"), ("two.txt", b"22")]
    elif variant == "stored":
        files = [("s%d.bin" % i, _rnd(i, 1000 * i + 1)) for i in range(5)]
    elif variant == "empty-and-dirs":
        files = [("dir/", b""), ("dir/empty", b""), ("dir/sub/", b""), ("dir/sub/f", b"f"), ("META-INF/services/x.Y", b"impl\n"), ("META-INF/LICENSE", b"lic\n")]
    elif variant == "big":
        files = [("big/%d.bin" % i, _rnd(i, 700000)) for i in range(3)]
    elif variant.startswith("rand="):
        pass
    else:
        raise ValueError(variant)
    with zipfile.ZipFile(buf, "w", comp) as z:
        z.writestr("META-INF/MANIFEST.MF", main)
        for n, c in files:
            z.writestr(n, c)
    return buf.getvalue()


def make_apk(variant):
    """zip with a manifest; stored members sized so that the contents section ends around the 1 MiB chunk boundaries"""
    kind, _, arg = variant.partition("=")
    buf = io.BytesIO()
    with zipfile.ZipFile(buf, "w", zipfile.ZIP_DEFLATED) as z:
        z.writestr("META-INF/MANIFEST.MF", b"Manifest-Version: 1.0\r\nCreated-By: c05 harness\r\n\r\n")
        z.writestr("AndroidManifest.xml", b"\x03\x00\x08\x00" + _rnd(3, 500))
        z.writestr("classes.dex", b"dex\n035\0" + _rnd(4, 3000))
        if kind == "pad":
            # total size of the local-file section = base + len(pad); choose pad so that section 1 is exactly `arg` bytes long
            pass
        elif kind == "members":
            for i in range(int(arg)):
                z.writestr("res/r%04d.xml" % i, b"<r>%d</r>" % i)
    data = buf.getvalue()
    if kind == "pad":
        want = int(arg)
        # section 1 = everything before the central directory
        cd_off = ref.zip_eocd(data)["cd_off"]
        name = "assets/pad.bin"
        overhead = 30 + len(name)
        padlen = want - cd_off - overhead
        if padlen < 0:
            raise ValueError("target too small")
        buf = io.BytesIO()
        with zipfile.ZipFile(buf, "w", zipfile.ZIP_DEFLATED) as z:
            z.writestr("META-INF/MANIFEST.MF", b"Manifest-Version: 1.0\r\nCreated-By: c05 harness\r\n\r\n")
            z.writestr("AndroidManifest.xml", b"\x03\x00\x08\x00" + _rnd(3, 500))
            z.writestr("classes.dex", b"dex\n035\0" + _rnd(4, 3000))
            zi = zipfile.ZipInfo(name)
            zi.compress_type = zipfile.ZIP_STORED
            z.writestr(zi, random.Random(want).randbytes(padlen))
        data = buf.getvalue()
        assert ref.zip_eocd(data)["cd_off"] == want, (ref.zip_eocd(data)["cd_off"], want)
    return data


def make_pe(variant):
    fx = {"dll": "ClassLibrary1.dll", "exe": "WindowsFormsApplication1.exe"}
    kind, _, arg = variant.partition("=")
    if kind == "rand":
        R = random.Random(int(arg) * 7919 + 1)
        plus = R.random() < 0.5
        fa = R.choice([0x200, 0x200, 0x400, 0x1000])
        n = R.randint(1, 6)
        sizes = [fa * R.choice([0, 1, 1, 2, 3, 5, 8, 9]) for _ in range(n)]
        if not any(sizes):
            sizes[R.randrange(n)] = fa
        machine = R.choice([0x8664, 0x200, 0xaa64]) if plus else R.choice([0x14c, 0x1c0, 0x184])
        ov = R.choice([0, 0, 1, 2, 7, 8, 9, 15, 16, 17, R.randint(1, 5000)])
        return ref.make_pe(plus=plus, sect_sizes=sizes, file_align=fa, machine=machine, overlay=R.randbytes(ov), hdr_gap=R.choice([0, 0, 1]), dos_stub=16 * R.randint(0, 6), seed=int(arg))
    if kind in ("dll-overlay", "exe-overlay"):
        base = open(os.path.join(PKGS, fx[kind.split("-")[0]]), "rb").read()
        return base + random.Random(int(arg)).randbytes(int(arg))
    kw = {}
    for item in variant.split(","):
        k, _, v = item.partition("=")
        if k == "plus":
            kw["plus"] = v == "1"
        elif k == "sizes":
            kw["sect_sizes"] = [int(x, 0) for x in v.split("/")]
        elif k == "overlay":
            kw["overlay"] = random.Random(int(v)).randbytes(int(v))
        elif k == "align":
            kw["file_align"] = int(v, 0)
        elif k == "machine":
            kw["machine"] = int(v, 0)
        elif k == "gap":
            kw["hdr_gap"] = int(v)
        elif k == "stub":
            kw["dos_stub"] = int(v)
        elif k == "seed":
            kw["seed"] = int(v)
    return ref.make_pe(**kw)


def make_cab(variant):
    kw = {}
    nfiles, fsize = 3, 1000
    if variant.startswith("rand="):
        R = random.Random(int(variant[5:]) * 104729 + 3)
        n = R.randint(1, 6)
        files = [(b"f%d_%s.bin" % (i, bytes(R.choice(b"abcXYZ09-_ ") for _ in range(R.randint(0, 12)))), R.randbytes(R.choice([0, 1, 3, 4, 5, 100, 32767, 32768, 32769, R.randint(0, 70000)]))) for i in range(n)]
        return ref.make_cab(files, nfolders=R.randint(1, min(n, 3)), set_id=R.randrange(65536), reserved=(R.getrandbits(32), R.getrandbits(32), R.getrandbits(32)),
                            icab=R.choice([0, 0, 1, 7]), reserve=R.choice([None, None, None, b"\0" * 6144, b"\0" * 24]))
    for item in variant.split(","):
        k, _, v = item.partition("=")
        if k == "files":
            nfiles = int(v)
        elif k == "size":
            fsize = int(v)
        elif k == "folders":
            kw["nfolders"] = int(v)
        elif k == "setid":
            kw["set_id"] = int(v, 0)
        elif k == "reserved":
            kw["reserved"] = tuple(int(x, 0) for x in v.split("/"))
        elif k == "icab":
            kw["icab"] = int(v)
        elif k == "reserve":
            kw["reserve"] = b"\0" * int(v)
    files = [(b"file%d.dat" % i, random.Random(i * 7 + fsize).randbytes(fsize + 37 * i)) for i in range(nfiles)]
    return ref.make_cab(files, **kw)


def make_msi(variant):
    R = random.Random(zlib.crc32(variant.encode()))
    rb = lambda n: R.randbytes(n)
    if variant.startswith("rand="):
        alpha = "ABab01_. -" + "䡀㽁䡁㹀㭁䅤䈯䠶䕙䓲" + "éĂȁ"

        def names(k):
            out, seen = [], set()
            while len(out) < k:
                nm = "".join(R.choice(alpha) for _ in range(R.choice([1, 2, 3, 5, 8, 16, 30, 31])))
                if R.random() < 0.3 and out:
                    nm = (R.choice(out) + nm)[:31]          # common prefixes
                if nm.upper() in seen or nm.startswith("\x05"):
                    continue
                seen.add(nm.upper())
                out.append(nm)
            return out

        def level(depth):
            items = []
            for nm in names(R.randint(1, 7 if depth == 0 else 4)):
                if depth < 2 and R.random() < 0.25:
                    items.append((nm, level(depth + 1), rb(16)))
                else:
                    items.append((nm, rb(R.choice([0, 1, 63, 64, 65, 500, 4095, 4096, 4097, R.randint(0, 12000)]))))
            return items
        # relic cannot add its (small) signature stream to a compound file that has no mini stream at all ("negative offset"; comdoc, C18):
        # every generated file gets one small stream so that the refusal does not mask the digest checks
        return ref.make_cfb(level(0) + [("~c05", rb(10))], seed=int(variant[5:]))
    if variant == "names":
        # names exercising the ordering rule: common prefixes, MSI-encoded (CJK range) names whose UTF-16LE byte order differs from the
        # code-unit order, mixed case, long (31 characters) names
        names = ["A", "AB", "ABC", "a", "ab", "B", "䡀㽁", "䡁㹀", "㭁䡀", "㽁", "䡀", "ą", "ȁx", "Ăy",
                 "Z" * 31, "Z" * 30, "\x05SummaryInformation", "䡀㽿䅤䈯䠶", "䡀䕙䓲䕨䜷"]
        tree = [(n, rb(10 + 400 * i)) for i, n in enumerate(names)]
        tree.append(("Big", rb(5000)))
    elif variant == "storages":
        tree = [("Stream1", rb(100)), ("Stor", [("inner2", rb(70)), ("inner1", rb(4097)), ("Deep", [("x", rb(5)), ("xy", rb(6))], bytes(range(16)))], bytes(range(16, 32))),
                ("Stor2", [("only", rb(64))]), ("䡀zzz", rb(9000)), ("Empty", b"")]
    elif variant == "sizes":
        tree = [("s%d" % n, rb(n)) for n in (1, 63, 64, 65, 511, 512, 513, 4095, 4096, 4097, 8192, 20000)]
    elif variant == "single":
        tree = [("OnlyStream", rb(33))]
    else:
        raise ValueError(variant)
    return ref.make_cfb(tree)


def make_text(variant):
    if variant.startswith("rand="):
        R = random.Random(int(variant[5:]) * 31 + 5)
        words = ["alpha", "- dash", "-", "From x", "tab\there", "trail ", "trail\t", "", "üñï", "-----BEGIN PGP SIGNED MESSAGE-----", "x" * R.randint(0, 300)]
        eol = R.choice(["\n", "\r\n"])
        t = eol.join(R.choice(words) for _ in range(R.randint(0, 40)))
        return (t + (eol if R.random() < 0.7 else "")).encode("utf-8")
    if variant == "crlf":
        return b"line one\r\nline two  \r\n\r\n- dash line\r\nFrom here\r\nlast line without newline"
    if variant == "dashes":
        return b"- starts with dash\n-----BEGIN PGP SIGNATURE-----\n-- two\nnormal\ntrailing space \ntrailing tab\t\n\nend\n"
    if variant == "binary":
        return bytes(range(256)) * 8 + b"\n\r\n\r"
    if variant == "empty":
        return b""
    if variant == "big":
        return b"".join(b"line %d of the big text file\n" % i for i in range(40000))
    if variant == "utf8":
        return "Grüße, мир, 世界\nsecond line\n".encode("utf-8")
    raise ValueError(variant)


GENERATORS = {"jar": make_jar, "apk": make_apk, "pe": make_pe, "cab": make_cab, "msi": make_msi, "text": make_text}
EXT = {"jar": ".jar", "apk": ".apk", "pe": ".exe", "cab": ".cab", "msi": ".msi", "text": ".txt"}


def build(recipe):
    """recipe -> (bytes, suggested file extension)"""
    kind, _, variant = recipe.partition(":")
    if kind == "fixture":
        return open(os.path.join(PKGS, variant), "rb").read(), os.path.splitext(variant)[1] or ".bin"
    return GENERATORS[kind](variant), EXT[kind]
